#!/usr/bin/env python3
"""Prints the Markdown table of seeded changes (seeded/*/meta.json) for DESIGN.md §7."""
import glob, json, os
rows = []
for d in sorted(glob.glob(os.path.join(os.path.dirname(os.path.dirname(os.path.abspath(__file__))), "seeded", "*"))):
    try:
        m = json.load(open(os.path.join(d, "meta.json")))
    except Exception:
        continue
    am = m.get("agent_meta", {})
    line = (m.get("check", {}).get("lines") or [""])
    how = "replay" if (line and "no-failing-input-found" not in line[0] and m.get("caught")) else ("no-failing-input-found" if m.get("caught") else "MISSED")
    if m.get("superseded_by_fix") and not m.get("caught"):
        how = "harmless after fix %s" % m["superseded_by_fix"]
    if m.get("outside_quantifier") and not m.get("caught"):
        how = "outside the quantifier: " + m["outside_quantifier"][:120]
    what = (line[1] if len(line) > 1 else "").replace("  what: ", "").replace("|", "/")[:110]
    rows.append("| %s | %s | %s | %s | %s | %s |" % (os.path.basename(d), (am.get("summary") or "")[:110].replace("|", "/"),
                                                  (am.get("needs") or "")[:90].replace("|", "/"), how, what, m.get("checked_on", "")))
print("| id | change | needs | caught as | first line of the report | tree |\n|---|---|---|---|---|---|")
print("\n".join(rows))
