#!/usr/bin/env python3
"""Regenerates MANIFEST.json from harness/registry.py + tools/manifest_texts.json.
A property is claimed iff lean/PSO/Props/<id>.lean exists, at least one harness component is
registered for it, and it is not listed in tools/manifest_texts.json under "hold"."""
import json, os, sys
HERE = os.path.dirname(os.path.dirname(os.path.abspath(__file__)))
sys.path.insert(0, HERE)
from harness import registry
texts = json.load(open(os.path.join(HERE, "tools", "manifest_texts.json")))
checks, na = [], []
for pid in sorted(registry.PROPS):
    spec = registry.PROPS[pid]
    t = texts["props"].get(pid, {})
    has_lean = os.path.exists(os.path.join(HERE, "lean", "PSO", "Props", pid + ".lean"))
    if has_lean and spec["components"] and pid not in texts.get("hold", []):
        checks.append({
            "property_id": pid,
            "quick_cmd": "./check %s --tier quick" % pid,
            "thorough_cmd": "./check %s --tier thorough" % pid,
            "evidence_file": "evidence/%s.json" % pid,
            "replay_cmd_template": "./check %s --replay {path}" % pid,
            "engine": "lean-proofs+correspondence",
            "level_claimed": {"category": "proof", "text": t.get("level_text", spec.get("scope", "")),
                              "design_ref": t.get("design_ref", "DESIGN.md §5 " + pid)},
            "level_note": t.get("level_note", texts["default_level_note"]),
            "technique": t.get("technique", "Lean 4 theorems about a hand-written executable model + differential correspondence check against /repo"),
        })
    else:
        na.append({"property_id": pid, "reason": t.get("na_reason", "check not built yet (work in progress, see DESIGN.md §9); not claimed")})
m = {
    "version": 1,
    "setup_cmd": "cd lean && lake build",
    "hooks": {"guard": "BAKWC_PYSYNCOBJ_VERIF", "enable": "no source hooks are needed: the harness monkeypatches clocks, randomness, transport and file primitives from outside; ./check exports BAKWC_PYSYNCOBJ_VERIF=1 anyway",
              "baseline_off_cmd": "cd /repo && /venv/bin/python -m pytest -ra -q -p no:cacheprovider --timeout=900 --continue-on-collection-errors",
              "source_commits": texts.get("hook_commits", []), "add_only": True},
    "engines": [
        {"name": "lean-proofs", "path": "lean/", "serves_properties": [c["property_id"] for c in checks],
         "kind_free_text": "Lean 4 models (lean/PSO/Model), proofs (lean/PSO/Proofs), property theorems (lean/PSO/Props), axioms audited per run"},
        {"name": "correspondence", "path": "harness/", "serves_properties": [c["property_id"] for c in checks],
         "kind_free_text": "differential check: compiled Lean driver vs. the real PySyncObj classes on the same seeded inputs; witness replays; property monitors on the real code"},
    ],
    "checks": checks,
    "not_applicable": na,
    "notes": texts.get("notes", ""),
}
json.dump(m, open(os.path.join(HERE, "MANIFEST.json"), "w"), indent=1)
print("claimed:", [c["property_id"] for c in checks])
print("not claimed:", [n["property_id"] for n in na])
