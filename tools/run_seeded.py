#!/usr/bin/env python3
"""Confirm a seeded breaking change and run the property's check against it.

usage: tools/run_seeded.py <PROP> <seed-worktree> <k> [--tier quick] [--on-repo]
  seed-worktree/seeded/<k>/{patch.diff,demo.py,meta.json} were produced by an independent sub-agent.
Steps: (1) demo exits 0 on the clean worktree; (2) with the patch applied the demo exits non-zero and the
library still imports; (3) ./check <PROP> against the patched tree (VERIF_REPO=<worktree>, or /repo itself
with --on-repo: apply, check, `git checkout -- .`); (4) the change is stored as /verif/seeded/<PROP>-<k>/.
"""
import json, os, shutil, subprocess, sys
VERIF = os.path.dirname(os.path.dirname(os.path.abspath(__file__)))
PY = "/venv/bin/python"

def sh(cmd, cwd=None, env=None, timeout=1800):
    e = dict(os.environ); e.update(env or {})
    p = subprocess.run(cmd, shell=True, cwd=cwd, env=e, stdout=subprocess.PIPE, stderr=subprocess.STDOUT, timeout=timeout)
    return p.returncode, p.stdout.decode(errors="replace")

def main():
    prop, wt, k = sys.argv[1], sys.argv[2], sys.argv[3]
    tier = "quick"
    if "--tier" in sys.argv: tier = sys.argv[sys.argv.index("--tier") + 1]
    on_repo = "--on-repo" in sys.argv
    sd = os.path.join(wt, "seeded", k)
    patch, demo = os.path.join(sd, "patch.diff"), os.path.join(sd, "demo.py")
    rec = {"property": prop, "source": "independent sub-agent, worktree %s" % wt}
    try: rec["agent_meta"] = json.load(open(os.path.join(sd, "meta.json")))
    except Exception as e: rec["agent_meta"] = {"error": str(e)}
    # demo: confirmed in the agent's own worktree (demos may hard-code its path); check: on a FRESH worktree of
    # /repo's current HEAD (the agent's worktree may be older than later fix: commits) — the patch must apply there
    agent_wt = wt
    sh("git checkout -- pysyncobj", cwd=agent_wt)
    rc0, out0 = sh("PYTHONPATH=%s %s %s" % (agent_wt, PY, demo), cwd=agent_wt, timeout=600)
    rca, outa = sh("git apply %s" % patch, cwd=agent_wt)
    if rca != 0:
        rca, outa = sh("git apply --3way %s" % patch, cwd=agent_wt)
        sh("git reset -q", cwd=agent_wt)
    if rca != 0:
        sh("git checkout -- pysyncobj", cwd=agent_wt)
        print("patch does not apply in the agent's worktree:", outa); return 2
    rci, outi = sh("PYTHONPATH=%s %s -c 'import pysyncobj, pysyncobj.batteries'" % (agent_wt, PY), cwd=agent_wt)
    rc1, out1 = sh("PYTHONPATH=%s %s %s" % (agent_wt, PY, demo), cwd=agent_wt, timeout=600)
    sh("git checkout -- pysyncobj", cwd=agent_wt)
    fresh = "/tmp/seedrun-%s-%s" % (prop, k)
    sh("git -C /repo worktree remove --force %s" % fresh)
    rcw, outw = sh("git -C /repo worktree add --detach %s" % fresh)
    if rcw != 0:
        print("cannot create worktree:", outw); return 2
    wt = fresh
    rec["checked_on"] = sh("git -C /repo log --format=%h -1")[1].strip()
    rca, outa = sh("git apply %s" % patch, cwd=wt)
    if rca != 0:
        rca, outa = sh("git apply --3way %s" % patch, cwd=wt)
    if rca != 0:
        print("patch does not apply on current HEAD:", outa)
        sh("git -C /repo worktree remove --force %s" % fresh)
        return 2
    rec["demo"] = {"clean_exit": rc0, "patched_exit": rc1, "imports": rci == 0,
                   "clean_tail": out0[-300:], "patched_tail": out1[-500:]}
    confirmed = rc0 == 0 and rc1 != 0 and rci == 0
    rec["confirmed_breaks_property_demo"] = confirmed
    if on_repo:
        sh("git checkout -- pysyncobj", cwd=wt)
        rca2, o = sh("git -C /repo apply %s" % patch)
        env = {}
        target = "/repo"
    else:
        env = {"VERIF_REPO": wt}; target = wt
    # does the demonstration still fail on CURRENT HEAD + patch (later fix: commits may have made the change harmless)?
    # (the demo is copied to the same relative place, seeded/<k>/demo.py: many demos find the library relative to __file__)
    ddir = os.path.join(target, "seeded", str(k))
    os.makedirs(ddir, exist_ok=True)
    shutil.copy(demo, os.path.join(ddir, "demo.py"))
    rch, outh = sh("PYTHONPATH=%s %s %s" % (target, PY, os.path.join(ddir, "demo.py")), cwd=target, timeout=600)
    shutil.rmtree(os.path.join(target, "seeded"), ignore_errors=True)
    hard = ("/tmp/seed-%s" % prop) in open(demo).read()      # a demo that hard-codes the agent's worktree proves nothing here
    rec["demo_on_head_with_patch"] = {"exit": rch, "tail": outh[-300:], "hard_coded_worktree": hard}
    skip = " --skip-lean" if "--skip-lean" in sys.argv else ""      # the change is to the Python sources: the Lean stage is unaffected
    rcc, outc = sh("./check %s --tier %s%s" % (prop, tier, skip), cwd=VERIF, env=env, timeout=3600)
    if on_repo: sh("git -C /repo checkout -- .")
    else: sh("git checkout -- pysyncobj", cwd=wt)
    viol = [l for l in outc.split("\n") if l.startswith("VIOLATION") or l.startswith("  what:") or l.startswith("INCONCLUSIVE")]
    rec["check"] = {"cmd": "./check %s --tier %s%s" % (prop, tier, skip), "against": target, "exit": rcc,
                    "lines": viol[:4], "tail": outc[-400:]}
    rec["caught"] = rcc == 1
    if not rec["caught"] and rch == 0 and not hard and rc1 != 0:
        rec["superseded_by_fix"] = rec["checked_on"]
        rec["note"] = ("on %s the change no longer breaks the property: its own demonstration passes with the patch applied "
                       "(a fix: commit made after the change was written covers the situation it needs)" % rec["checked_on"])
    dst = os.path.join(VERIF, "seeded", "%s-%s" % (prop, k))
    os.makedirs(dst, exist_ok=True)
    # judgements recorded by hand for this seed survive a re-run
    try:
        old = json.load(open(os.path.join(dst, "meta.json")))
        for key in ("outside_quantifier", "note"):
            if key in old and key not in rec:
                rec[key] = old[key]
        if old.get("superseded_by_fix") and not rec["caught"] and "superseded_by_fix" not in rec and rch == 0:
            rec["superseded_by_fix"] = old["superseded_by_fix"]
    except Exception:
        pass
    shutil.copy(patch, os.path.join(dst, "patch.diff")); shutil.copy(demo, os.path.join(dst, "demo.py"))
    json.dump(rec, open(os.path.join(dst, "meta.json"), "w"), indent=1)
    sh("git -C /repo worktree remove --force %s" % fresh)
    print(json.dumps({"prop": prop, "k": k, "confirmed": confirmed, "caught": rec["caught"], "exit": rcc, "lines": viol[:2]}, indent=1))
    return 0

if __name__ == "__main__":
    sys.exit(main())
