#!/usr/bin/env python3
"""Writes the prompt for one round of independently seeded changes: `seed_prompt.py <P> <k1> <k2> <focus-file> > prompt`.
The prompt carries ONLY the property's text (id, title, statement, quantifier, files) and one-line summaries of the
changes already taken — nothing else from /verif; the sub-agent works in its own worktree /tmp/seed-<P>."""
import glob, json, os, sys

VERIF = os.path.dirname(os.path.dirname(os.path.abspath(__file__)))


def main():
    pid, k1, k2, focus_file = sys.argv[1], int(sys.argv[2]), int(sys.argv[3]), sys.argv[4]
    prop = [json.loads(l) for l in open(os.path.join(VERIF, "properties.jsonl")) if l.strip()]
    p = [x for x in prop if x["id"] == pid][0]
    wt = "/tmp/seed-%s" % pid
    taken = []
    for d in sorted(glob.glob(os.path.join(VERIF, "seeded", pid + "-*")), key=lambda s: int(s.rsplit("-", 1)[1])):
        try:
            m = json.load(open(os.path.join(d, "meta.json")))
        except Exception:
            continue
        s = (m.get("agent_meta", {}).get("summary") or "").replace("\n", " ")
        if s:
            taken.append("- " + s[:230])
    focus = open(focus_file).read().strip()
    out = []
    out.append("You are helping to evaluate a verification framework by producing realistic BREAKING changes to a Python library. "
               "Work ONLY inside the git worktree %s (a checkout of the Raft library PySyncObj; python is /venv/bin/python, run things with "
               "`cd %s && PYTHONPATH=%s /venv/bin/python ...`; no network). Do NOT read, list or touch anything under /verif or /repo — "
               "your work must be independent of them.\n" % (wt, wt, wt))
    out.append("The property to break (a semantic guarantee users of the library rely on):\n")
    out.append("%s — %s\n" % (p["id"], p["title"]))
    out.append("Statement: %s\n" % p["statement"])
    out.append("Quantifier: %s\n" % p["quantifier"]["text"])
    out.append("Files: %s\n\n" % ", ".join(p["anchors"]["files"]))
    out.append("Task: produce TWO MORE different, independent code changes to the library sources under %s/pysyncobj such that EACH change "
               "(a) still imports and compiles, (b) keeps the existing test-suite green as far as it is green without the change — run at "
               "least the tests related to the touched file: `cd %s && /venv/bin/python -m pytest -q -p no:cacheprovider --timeout=600 "
               "test_syncobj.py -k \"<relevant tests>\"` (the tests test_encryptionCorrectPassword, test_encryptionWrongPassword, "
               "test_readOnlyNodes, test_syncobjAdminStatus fail in this sandbox even without any change; ignore them), and (c) BREAKS the "
               "property above — but only under something specific: a particular interleaving, a fault or crash at a particular point, a "
               "multi-step sequence of operations, an unusual but legal input, or boundary sizes. Do NOT produce changes that ordinary use "
               "or the first call would expose at once, and no changes outside pysyncobj/.\n" % (wt, wt))
    out.append(focus + "\n")
    out.append("Changes ALREADY TAKEN by earlier rounds (do not repeat these or close variants):\n" + "\n".join(taken) + "\n")
    out.append("The directories seeded/1 … seeded/%d in the worktree belong to earlier rounds: leave them alone, do not read their demos. "
               "Do not use `git stash` (worktrees share the stash); use `git diff > file` and `git checkout -- pysyncobj`. The sources have "
               "changed since the earlier rounds (several bugs were fixed): read the current code.\n" % (k1 - 1))
    out.append("For each change deliver, in %s/seeded/%d/ and %s/seeded/%d/ :\n"
               "  * patch.diff — `git diff` of the change against the worktree's HEAD (make change 1, save its diff, `git checkout -- pysyncobj`, "
               "then change 2 likewise; leave the worktree CLEAN of source modifications at the end, only the seeded/ directory added);\n"
               "  * demo.py — a small self-contained program (it may use the library's classes directly, fake sockets/files/clocks, "
               "monkeypatching; it must not need network) that exits 0 on the unmodified worktree and exits non-zero (with a short message "
               "what went wrong) when the change is applied. Verify both outcomes yourself, for both changes.\n"
               "  * meta.json — {\"property\": \"<id>\", \"summary\": \"<one line: what was changed>\", \"needs\": \"<what specific condition makes "
               "it manifest>\", \"files\": [...], \"tests_run\": \"<the pytest command you ran and its result>\"}.\n"
               "Final answer: for each change one paragraph: what you changed, why it breaks the property, what it needs to manifest, and the "
               "outputs of demo.py with and without the change. If, while reading the UNCHANGED code, you notice an input or schedule on which "
               "it already violates the property, say so in a separate last paragraph (with the input).\n" % (wt, k1, wt, k2))
    sys.stdout.write("\n".join(out))


if __name__ == "__main__":
    main()
