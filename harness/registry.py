"""Property registry.

Components are discovered by scanning harness/corr/*.py and harness/witness/*.py for a line
    PROPERTIES = ["C13", ...]
(no import needed, so a broken module cannot take other properties down).  The static part below
holds, per property, the scope / trusted-base / assumption texts that go into the evidence file.
"""
import ast
import os
import re

HERE = os.path.dirname(os.path.abspath(__file__))

STATIC = {
    "C01": {"scope": "state-machine safety of the replication core"},
    "C02": {"scope": "callback contract"},
    "C03": {"scope": "election safety and leader completeness"},
    "C04": {"scope": "commit is majority backed and permanent; indices monotone; log matching"},
    "C05": {"scope": "bounded progress from any well-formed state (partial: timing hypothesis)"},
    "C06": {"scope": "journaled restart"},
    "C07": {"scope": "votes and terms across restarts"},
    "C08": {"scope": "file journal refines list; crash safety"},
    "C09": {"scope": "snapshots"},
    "C10": {"scope": "membership changes"},
    "C11": {"scope": "arguments of any size"},
    "C12": {"scope": "raising replicated method"},
    "C13": {"scope": "TCP framing"},
    "C14": {"scope": "transport registry (partial: real sockets)"},
    "C15": {"scope": "batteries"},
    "C16": {"scope": "replicated locks"},
    "C17": {"scope": "code versions"},
    "C18": {"scope": "read-only nodes"},
    "C19": {"scope": "thread-safe calls (partial: Python threads)"},
    "C20": {"scope": "isolated leader steps down"},
}


def _discover():
    found = {}
    for sub in ("witness", "corr"):          # witnesses run first
        d = os.path.join(HERE, sub)
        if not os.path.isdir(d):
            continue
        for fn in sorted(os.listdir(d)):
            if not fn.endswith(".py") or fn.startswith("_"):
                continue
            src = open(os.path.join(d, fn), encoding="utf-8").read()
            m = re.search(r"^PROPERTIES\s*=\s*(\[[^\]]*\])", src, re.M)
            if not m:
                continue
            try:
                pids = ast.literal_eval(m.group(1))
            except Exception:
                continue
            order = 50
            mo = re.search(r"^ORDER\s*=\s*(\d+)", src, re.M)
            if mo:
                order = int(mo.group(1))
            for pid in pids:
                found.setdefault(pid, []).append((order, "%s.%s" % (sub, fn[:-3])))
    return {k: [n for _, n in sorted(v, key=lambda x: x[0])] for k, v in found.items()}


def _extra(pid):
    """Optional per-property texts in harness/props/<pid>.json: scope, trusted_base, assumptions."""
    import json
    p = os.path.join(HERE, "props", pid + ".json")
    if os.path.exists(p):
        return json.load(open(p))
    return {}


_found = _discover()
PROPS = {}
for _pid, _st in STATIC.items():
    d = dict(_st)
    d.update(_extra(_pid))
    d["components"] = _found.get(_pid, [])
    PROPS[_pid] = d
