"""C16 monitor `locks.monitor`: the property's own statement on the real code, over random interleavings.

Several real `ReplLockManager` clients (own prolongation logic = the real `_autoAcquireThread` body, run
pass by pass), each with its own real `_ReplLockManagerImpl` replica, over a miniature commit pipeline:
one common log; a client's submissions wait in its node queue (commit delay), replicas apply the log with
individual lag, partitions freeze a client's queue and replica.  One virtual clock for everybody
("client clocks agree").  Two disciplines:
  * `fifo`    : a client's commands enter the log in submission order;
  * `reorder` : a command may be overtaken by later commands of the same client (the clock is read before
                the command is enqueued, on the caller's or the prolongation thread -- D19);
  * `stale`   : every command carries an individual commit delay (0, < U/4, ~U, > U, several U): it enters
                the log only that much later, with its old stamp, after younger commands of everybody --
                in particular a prolongation of X stamped t after an acquire of Y stamped t' > t + U.
Checked after every event at the common time: (1) at most one client considers a lock held by itself
(`isAcquired` on its own replica, and it has no release of its own outstanding); (2) nobody is told True
for an acquisition that took longer than U/2, and a late one leaves a release behind; (3) a lock whose
holder's greatest stamp in the log is t0 is granted to any other client's acquire with stamp > t0+U;
(4) a release by a non-holder leaves the table unchanged; (5) a holder that shows up in time never
loses its lock: at the log head a held lock changes hands only by the holder's release or by a command
stamped later than lock time + U, and once a prolongation stamped later than the holder's greatest stamp + U
went through the log the lock is expired -- not held again without an acquire, granted to the next acquire
(`KeepMonitor`); directed `stall` schedules: the holder stalls > U and resumes prolonging, the competitor's
tryAcquire stamped in between is committed afterwards -- it must be granted and the old holder must not hold;
in the directed `stale` schedules the holder that
prolongs every < U/2 still answers isAcquired after catching up and nobody else was granted; (8) at no instant have two clients been
told (tryAcquire answered True, stamp less than U ago, no release of theirs committed since) that they hold the
same lock -- directed `lapse`: the holder is silent for longer than U, nobody's prolongation purges the entry, it
re-acquires, a competitor tries; (9) a released lock is not kept: a client
whose last call for a lock is release() (nothing of it in flight then, no release outstanding) does not hold it --
directed: release on a replica that lags so far that the held lock looks expired locally; (7) -- judged on the
tryAcquire calls since the client's last release call; directed: release() followed at once by a tryAcquire that is
told LEADER_CHANGED -- a client told that its
acquisition failed does not keep the lock -- also when the outcome reported was open (`try_open`: callback(None,
LEADER_CHANGED) while the command is committed later): no client considers a lock held, with no release of its
own outstanding, when every one of its tryAcquire calls was answered with a failure (D73); (6) replicas
also reach a log position through a snapshot -- `install` (a lagging replica receives another replica's
`_serialize()` -> pickle -> `_deserialize()` into its existing consumer, as SyncObj does) and `restart` (state
wiped, own dump loaded): the rebuilt replica must hold exactly the donor's locks, and all monitors keep
running across the rebuild.  Written against properties.jsonl C16, not
against the Lean model."""
import glob
import hashlib
import json
import os
import time

from harness.corr import locks_common as lc

PROPERTIES = ["C16"]
ORDER = 42

SIG_REORDER = "batteries.ReplLockManager:stamp-reorder-mutex"
SIG_MUTEX = "batteries.ReplLockManager:mutex-broken"
SIG_MUTEX_STALE = "batteries.ReplLockManager:stale-stamp-mutex"
SIG_MUTEX_SNAPSHOT = "batteries.ReplLockManager:mutex-broken-after-snapshot"
SIG_FAILED_KEPT = "batteries.ReplLockManager.tryAcquire:failed-acquire-kept"
SIG_TWO_TOLD = "batteries.ReplLockManager.tryAcquire:two-clients-told-they-hold"
SIG_RELEASED_KEPT = "batteries.ReplLockManager.release:released-lock-kept"
LOSS_DISCIPLINE = True       # harness-injected loss of queued commands ("drop" events); see notes/locks.md


def delay(rng, U, mode):
    """commit delay of one command in the `stale` discipline: 0, < U/4, ~U, > U, several U"""
    if mode != "stale":
        return ()
    return (rng.choice((0, 0, 0, max(1, U // 4) - 1, U - 1, U, U + 1, U + 2, 2 * U + 1, 3 * U)),)


def gen_events(rng, U, ncl, nlk, n, mode):
    evs = []
    for _ in range(n):
        r = rng.random()
        c = rng.randrange(ncl)
        l = rng.randrange(1, nlk + 1)
        if r < 0.16:
            evs.append(("adv", rng.choice((0, 1, 1, 1, 2, max(1, U // 4), max(1, U // 2), U, U + 1))))
        elif r < 0.03 + 0.16:
            evs.append(("try_open", c, l, 0, rng.choice((0, 1, U // 2 + 1))))
        elif r < 0.34:
            evs.append(("try", c, l) + delay(rng, U, mode))
        elif r < 0.40:
            evs.append(("rel", c, l) + delay(rng, U, mode))
        elif r < 0.52:
            evs.append(("tick", c) + delay(rng, U, mode))
        elif r < 0.70:
            evs.append(("flush", c, rng.randrange(0, 3) if mode != "fifo" else 0))
        elif r < 0.94:
            evs.append(("deliver", c, rng.choice((1, 1, 2, 5))))
        elif r < 0.96:
            evs.append(("part", c, rng.random() < 0.5))
        elif r < 0.98:
            evs.append(("heal", c))
        elif r < 0.99:
            evs.append(("install", c, rng.randrange(ncl)))
        elif r < 0.995 or not LOSS_DISCIPLINE:
            evs.append(("restart", c))
        else:
            evs.append(("drop", c))
    return evs


class World(object):
    def __init__(self, bat, U, ncl, nlk, mute_keep=False):
        self.bat, self.U, self.ncl, self.nlk = bat, U, ncl, nlk
        self.mute_keep = mute_keep          # second pass: look only at what the clients themselves observe
        self.clock = lc.VClock(10)
        self.log = []                 # (cmd, cb, submitter)
        self.log_times = []           # clock value at which the entry entered the log
        self.viols = []
        self.cov = {}
        self.maxstamp = {}

    def hit(self, k):
        self.cov[k] = self.cov.get(k, 0) + 1

    def run(self, evs):
        """returns index of the event after which the first violation was seen (or None)"""
        bat, clock, U = self.bat, self.clock, self.U
        with lc.Patched(bat, clock):
            cl = []
            for i in range(self.ncl):
                mgr, impl, so = lc.make_manager(bat, U, i + 1)
                cl.append({"mgr": mgr, "impl": impl, "so": so, "applied": 0, "part": False, "attempts": [], "due": [], "calls": [], "lost": {},
                           "rel_sub": {}, "rel_app": {}})
            self.cl = cl
            keep = self.keep = lc.KeepMonitor(bat, U)           # the log head, with clause (5)
            ref = keep.impl
            first = None
            for idx, ev in enumerate(evs):
                self.idx = idx
                k = ev[0]
                if k == "adv":
                    clock.now += ev[1]
                elif k == "try":
                    c = cl[ev[1]]
                    self.sync_due(c, 0)
                    att = clock.now
                    rec = {"l": ev[2], "att": att, "ans": None, "n_sub": len(c["so"].submitted)}
                    c["attempts"].append(rec)
                    c["calls"].append(("try", ev[2], rec))
                    c["mgr"].tryAcquire(lc.lock_name(ev[2]), callback=(lambda r, e, rec=rec: self.answered(rec, r, e)))
                    self.sync_due(c, ev[3] if len(ev) > 3 else 0)
                    self.hit("try")
                elif k == "try_open":
                    # tryAcquire whose outcome is reported as open -- callback(None, LEADER_CHANGED) -- while the
                    # command stays in the pipeline and is committed later (no second callback for it)
                    c = cl[ev[1]]
                    self.sync_due(c, 0)
                    rec = {"l": ev[2], "att": clock.now, "ans": None, "n_sub": len(c["so"].submitted)}
                    c["attempts"].append(rec)
                    c["calls"].append(("try", ev[2], rec))
                    c["mgr"].tryAcquire(lc.lock_name(ev[2]), callback=(lambda r, e, rec=rec: self.answered(rec, r, e)))
                    self.sync_due(c, ev[3] if len(ev) > 3 else 0)
                    cmd, cb = c["so"].queue[-1]
                    c["so"].queue[-1] = (cmd, None)
                    clock.now += ev[4] if len(ev) > 4 else 0
                    cb(None, 5)
                    self.sync_due(c, 0)
                    self.hit("try.outcome-open")
                elif k == "rel":
                    c = cl[ev[1]]
                    c["calls"].append(("rel", ev[2], idx))
                    if any(e[0] == ev[2] and e[1] == ev[1] + 1 and clock.now < e[2] + U for e in lc.table_of(ref)) and \
                            not c["impl"].isAcquired(lc.lock_name(ev[2]), lc.client_name(ev[1] + 1), clock.now):
                        self.hit("release.while-local-replica-shows-lock-expired")
                    self.sync_due(c, 0)
                    c["mgr"].release(lc.lock_name(ev[2]))
                    self.sync_due(c, ev[3] if len(ev) > 3 else 0)
                    self.hit("release")
                elif k == "tick":
                    c = cl[ev[1]]
                    self.sync_due(c, 0)
                    n0 = len(c["so"].submitted)
                    lc.tick_once(bat, c["mgr"], clock)
                    self.sync_due(c, ev[2] if len(ev) > 2 else 0)
                    self.hit("tick.prolong" if len(c["so"].submitted) > n0 else "tick.skip")
                elif k == "drop":
                    # the oldest queued command of the client is lost on its way (connection drops after `send`, or it is
                    # dropped with MISSING_LEADER when commandsWaitLeader is off): nobody is told
                    c = cl[ev[1]]
                    self.sync_due(c, 0)
                    if c["so"].queue:
                        cmd, cb = c["so"].queue.pop(0)
                        c["due"].pop(0)
                        key = (cmd[0], cmd[1]) if cmd[0] != "pro" else ("pro", 0)
                        c["lost"][key] = c["lost"].get(key, 0) + 1
                        self.hit("drop." + cmd[0])
                elif k == "flush":
                    c = cl[ev[1]]
                    self.sync_due(c, 0)
                    q = c["so"].queue
                    ready = [i for i in range(len(q)) if c["due"][i] <= clock.now]
                    if ready and not c["part"]:
                        j = ready[min(ev[2], len(ready) - 1)]
                        if j > 0:
                            self.hit("flush.overtaken")
                        if clock.now - q[j][0][-1] > U and q[j][0][0] != "rel":
                            self.hit("flush.stamp-older-than-U")
                        cmd, cb = q.pop(j)
                        c["due"].pop(j)
                        self.append(ref, cmd, cb, ev[1] + 1)
                elif k == "deliver":
                    c = cl[ev[1]]
                    for _ in range(ev[2]):
                        if c["part"] or c["applied"] >= len(self.log):
                            break
                        cmd, cb, sub = self.log[c["applied"]]
                        r = lc.apply_cmd(c["impl"], cmd)
                        c["applied"] += 1
                        if cmd[0] == "rel" and sub == ev[1] + 1:
                            c["rel_app"][cmd[1]] = c["rel_app"].get(cmd[1], 0) + 1
                        if cb is not None and sub == ev[1] + 1:
                            cb(r, 0)
                            self.sync_due(c, 0)
                        self.hit("deliver")
                elif k in ("install", "restart"):
                    c = cl[ev[1]]
                    src = cl[ev[2]] if k == "install" else c
                    if k == "restart" or (src["applied"] > c["applied"] and not c["part"]):
                        snap = lc.snapshot_of(src["impl"])
                        want, uwant = lc.table_of(src["impl"]), lc.unlock_time_of(src["impl"])
                        live = [e for e in want if e[1] != ev[1] + 1 and clock.now < e[2] + U]
                        self.hit(k + (".while-another-clients-lock-is-held" if live else ".no-foreign-lock"))
                        if k == "restart":              # a new process: nothing in memory
                            getattr(c["impl"], "_ReplLockManagerImpl__locks").clear()
                        for j in range(c["applied"], src["applied"]):     # own releases covered by the snapshot
                            cmd, _, sub = self.log[j]
                            if cmd[0] == "rel" and sub == ev[1] + 1:
                                c["rel_app"][cmd[1]] = c["rel_app"].get(cmd[1], 0) + 1
                        c["impl"]._deserialize(snap)
                        c["applied"] = src["applied"]
                        self.hit("snapshot.rebuilds")
                        got = lc.table_of(c["impl"])
                        if (got != want or lc.unlock_time_of(c["impl"]) != uwant) and not self.mute_keep:
                            self.viols.append({"signature": lc.SIG_SNAPSHOT,
                                               "what": "replica of client %d %s at log position %d: donor has locks %s, the rebuilt replica %s"
                                                       % (ev[1] + 1, "installed the snapshot of client %d's replica" % (ev[2] + 1) if k == "install"
                                                          else "restarted from its own dump", c["applied"], want, got)})
                elif k == "part":
                    cl[ev[1]]["part"] = True
                    cl[ev[1]]["so"].leader = not ev[2]      # with / without a known leader
                    self.hit("partition")
                elif k == "heal":
                    cl[ev[1]]["part"] = False
                    cl[ev[1]]["so"].leader = True
                if k == "expect_holds":
                    # directed `stale` schedules: the holder acquired, prolonged every < U/2, has caught up
                    c = cl[ev[1]]
                    self.hit("expect.holder-still-holds")
                    if not c["mgr"].isAcquired(lc.lock_name(ev[2])):
                        self.viols.append({"signature": "batteries.ReplLockManager:holder-lost-lock-without-release-or-expiry",
                                           "what": "client %d acquired L%d, prolonged it every < U/2 (U=%d), never released; after catching up "
                                                   "(log position %d of %d) at time %d its isAcquired is False; table %s"
                                                   % (ev[1] + 1, ev[2], U, c["applied"], len(self.log), clock.now, lc.table_of(c["impl"]))})
                elif k == "expect_granted":
                    # directed `stall` schedules: the holder was silent for more than U before the competitor's stamp
                    c = cl[ev[1]]
                    # answers that came too late are turned into False by the late-acquire rule: not counted
                    got = [a["ans"] for a in c["attempts"] if a["l"] == ev[2] and a["ans"] is not None
                           and 2 * (a["ans"][0] - a["att"]) <= U]
                    if not got or not self.silent_before(ev[1] + 1, ev[2]):
                        self.hit("expect.skipped")
                    elif self.hit("expect.competitor-granted-after-expiry") or not any(r is True for (_, r) in got):
                        self.viols.append({"signature": "batteries.ReplLockManager:expired-lock-refused-to-competitor",
                                           "what": "client %d tried L%d more than U=%d after the holder's last stamp and was answered %s; "
                                                   "log %s" % (ev[1] + 1, ev[2], U, got, [lc.cmd_str(e[0]) for e in self.log])})
                elif k == "expect_not_holds":
                    c = cl[ev[1]]
                    tries = [a for a in c["attempts"] if a["l"] == ev[2]]
                    if len(tries) != 1 or c["applied"] != len(self.log) or not self.stalled(ev[1] + 1, ev[2]):
                        self.hit("expect.skipped")
                    elif self.hit("expect.stalled-holder-does-not-hold") or c["mgr"].isAcquired(lc.lock_name(ev[2])):
                        self.viols.append({"signature": "batteries.ReplLockManager:holder-regained-expired-lock-without-tryAcquire",
                                           "what": "client %d was silent for more than U=%d, did not call tryAcquire again, and at time %d its "
                                                   "isAcquired(L%d) is True; table %s; log %s"
                                                   % (ev[1] + 1, U, clock.now, ev[2], lc.table_of(c["impl"]), [lc.cmd_str(e[0]) for e in self.log])})
                elif k == "expect_refused":
                    c = cl[ev[1]]
                    self.hit("expect.competitor-refused")
                    got = [a["ans"] for a in c["attempts"] if a["l"] == ev[2] and a["ans"] is not None]
                    if any(r is True for (_, r) in got):
                        self.viols.append({"signature": "batteries.ReplLockManager:lock-granted-while-held-and-prolonged",
                                           "what": "client %d was granted L%d (answers %s) while another client holds and prolongs it every < U/2 (U=%d)"
                                                   % (ev[1] + 1, ev[2], got, U)})
                self.observe(idx)
                if self.viols and first is None:
                    first = idx
                    break
            for c in cl:
                c["mgr"].destroy()
        return first

    def silent_before(self, z, l):
        return lc.silent_before([e[0] for e in self.log], self.U, z, l)

    def stalled(self, y, l):
        return lc.stalled([e[0] for e in self.log], self.U, y, l)

    def sync_due(self, c, d):
        """commands that appeared in the client's queue since the last look become due `d` later"""
        while len(c["due"]) < len(c["so"].queue):
            c["due"].append(self.clock.now + d)
        del c["due"][len(c["so"].queue):]

    def answered(self, rec, r, e):
        rec["ans"] = (self.clock.now, r)
        rec["ans_idx"] = getattr(self, "idx", 0)
        took = self.clock.now - rec["att"]
        self.hit("answer.true" if r is True else "answer.false")
        if r is True and 2 * took > self.U:
            self.viols.append({"signature": "batteries.ReplLockManager.tryAcquire:late-acquire-kept",
                               "what": "tryAcquire(L%d) at %d answered True at %d: took %d > U/2 (U=%d)"
                                       % (rec["l"], rec["att"], self.clock.now, took, self.U)})
        if 2 * took > self.U:
            self.hit("answer.late")

    def append(self, ref, cmd, cb, submitter):
        before = lc.table_of(ref)
        held = dict((e[0], (e[1], e[2])) for e in before)
        r, kviol, flags = self.keep.apply(cmd)
        for f in flags:
            self.hit(f)
        if kviol is not None and not self.mute_keep:
            self.viols.append(kviol)
        self.log.append((cmd, cb, submitter))
        self.log_times.append(self.clock.now)
        self.hit("log." + cmd[0])
        if cmd[0] == "acq":
            _, l, c, t = cmd
            if l in held and held[l][0] != c:
                a = held[l][0]
                if t > self.maxstamp.get(a, -1) + self.U:
                    self.hit("acq.after-expiry")
                    if r is not True:
                        self.viols.append({"signature": "batteries._ReplLockManagerImpl.acquire:expired-lock-not-obtainable",
                                           "what": "holder %d's greatest stamp in the log is %d, U=%d; acquire(L%d,%d,%d) answered %r"
                                                   % (a, self.maxstamp.get(a, -1), self.U, l, c, t, r)})
                elif r is True and t < held[l][1] + self.U:
                    self.viols.append({"signature": "batteries._ReplLockManagerImpl.acquire:lock-stolen-before-expiry",
                                       "what": "acquire(L%d,%d,%d) granted while %d holds it since %d, U=%d" % (l, c, t, a, held[l][1], self.U)})
        if cmd[0] == "rel":
            _, l, c = cmd
            if (l not in held or held[l][0] != c):
                self.hit("rel.nonholder")
                if lc.table_of(ref) != before:
                    self.viols.append({"signature": "batteries._ReplLockManagerImpl.release:non-holder-release-has-effect",
                                       "what": "release(L%d,%d) changed %s -> %s" % (l, c, before, lc.table_of(ref))})
        if cmd[0] in ("acq", "pro"):
            c = cmd[2] if cmd[0] == "acq" else cmd[1]
            self.maxstamp[c] = max(self.maxstamp.get(c, -1), cmd[-1])

    def observe(self, idx):
        now = self.clock.now
        for l in range(1, self.nlk + 1):
            holders = []
            for i, c in enumerate(self.cl):
                if c["mgr"].isAcquired(lc.lock_name(l)):
                    nsub = sum(1 for x in c["so"].submitted if x[0] == "rel" and x[1] == l) - c["lost"].get(("rel", l), 0)
                    if nsub == c["rel_app"].get(l, 0):          # no release of its own outstanding
                        holders.append(i + 1)
            # (8) two clients told they hold the lock: each has a tryAcquire answered True whose stamp is less than U
            # ago, its acquire is in the log and no release of its own was committed after it
            cmds = [e[0] for e in self.log]
            entitled = []
            for i, c in enumerate(self.cl):
                for a in c["attempts"]:
                    if a["l"] == l and a["ans"] is not None and a["ans"][1] is True and now < a["att"] + self.U \
                            and ("acq", l, i + 1, a["att"]) in cmds \
                            and ("rel", l, i + 1) not in cmds[cmds.index(("acq", l, i + 1, a["att"])):]:
                        entitled.append((i + 1, a["att"], a["ans"][0]))
                        break
            if len(entitled) > 1:
                self.hit("told-true.2")
                self.viols.append({"signature": SIG_TWO_TOLD,
                                   "what": "at time %d two clients have been told they hold L%d (client, stamp of the tryAcquire, time of the "
                                           "answer True): %s -- both stamps are less than U=%d ago and neither client's release was committed; "
                                           "log %s" % (now, l, entitled, self.U, [lc.cmd_str(x) for x in cmds][-8:])})
                return
            elif entitled:
                self.hit("told-true.1")
            for h in holders:
                c = self.cl[h - 1]
                calls = [x for x in c["calls"] if x[1] == l]
                if not calls:
                    continue
                last_rel = max([i for i, x in enumerate(calls) if x[0] == "rel"] + [-1])
                att = [x[2] for x in calls[last_rel + 1:] if x[0] == "try"]       # tryAcquire calls since the last release call
                before = [x[2] for x in calls[:last_rel + 1] if x[0] == "try"]
                cmds = [e[0] for e in self.log]

                def committed_at(a):
                    return max([t for e, t in zip(self.log, self.log_times) if e[0] == ("acq", l, h, a["att"])] + [a["att"]])
                if att and all(a["ans"] is not None and a["ans"][1] is not True for a in att):
                    # (7) told failed => not kept.  The literal clause: an acquisition that took longer than U/2 -- the
                    # answer or the commit came more than U/2 after the attempt -- and was reported as failed (open outcome)
                    late = [a for a in att if a["ans"][1] is None and ("acq", l, h, a["att"]) in cmds
                            and 2 * (max(a["ans"][0], committed_at(a)) - a["att"]) > self.U]
                    if not late:
                        self.hit("held.by-client-told-failed.within-U/2")
                        continue
                    self.hit("held.by-client-told-failed")
                    # with the compensating release of D73 in place the ways left are the release being committed BEFORE
                    # the acquire it compensates (D73b) or being lost on its way (harness-injected loss)
                    overtaken = any(lc.release_overtaken(c["so"].submitted, cmds, l, h, a["att"]) for a in late)
                    lost = c["lost"].get(("rel", l), 0) > 0
                    suffix = ":compensating-release-overtaken" if overtaken else ":compensating-release-lost" if lost else ""
                    self.viols.append({"signature": SIG_FAILED_KEPT + suffix,
                                       "what": "at time %d client %d considers L%d held (no release of its own outstanding) although every "
                                               "tryAcquire it made since its last release call was answered with a failure (attempt time, "
                                               "(answer time, answer)): %s, and for one reported as failed with an open outcome the answer or the "
                                               "commit came more than U/2 after the attempt; table %s; log %s"
                                               % (now, h, l, [(a["att"], a["ans"]) for a in att], lc.table_of(c["impl"]),
                                                  [lc.cmd_str(x) for x in cmds][-8:])})
                    return
                if not att and last_rel >= 0 and all(a["ans"] is not None and a["ans_idx"] < calls[last_rel][2] for a in before):
                    # (9) a released lock is not kept: the client's last call for this lock is release(), nothing of it was
                    # in flight then, no release of its own is outstanding -- and it holds the lock
                    overtaken = any(a["ans"][1] is None and lc.release_overtaken(c["so"].submitted, cmds, l, h, a["att"]) for a in before)
                    lost = c["lost"].get(("rel", l), 0) > 0
                    self.hit("held.after-own-release")
                    self.viols.append({"signature": (SIG_FAILED_KEPT + ":compensating-release-overtaken") if overtaken
                                       else SIG_RELEASED_KEPT + (":release-lost" if lost else ""),
                                       "what": "at time %d client %d considers L%d held although its last call for that lock was release() "
                                               "(event %d; every earlier tryAcquire had been answered, no release of its own is outstanding); "
                                               "table %s; client submitted %s; log %s"
                                               % (now, h, l, calls[last_rel][2], lc.table_of(c["impl"]),
                                                  [lc.cmd_str(x) for x in c["so"].submitted][-6:], [lc.cmd_str(x) for x in cmds][-8:])})
                    return
            if holders:
                self.hit("held.%d" % min(len(holders), 2))
                lag = [len(self.log) - self.cl[h - 1]["applied"] for h in holders]
                if max(lag) > 0:
                    self.hit("held.on-lagging-replica")
            if len(holders) > 1:
                self.viols.append({"signature": SIG_MUTEX_SNAPSHOT if self.cov.get("snapshot.rebuilds") else None, "holders": holders,
                                   "what": "at common time %d clients %s all consider L%d held (U=%d); replicas at log positions %s of %d, tables %s"
                                           % (now, holders, l, self.U, [self.cl[h - 1]["applied"] for h in holders], len(self.log),
                                              [lc.table_of(self.cl[h - 1]["impl"]) for h in holders])})
                return


def run_case(bat, case, mute_keep=False):
    w = World(bat, case["U"], case["ncl"], case["nlk"], mute_keep=mute_keep)
    first = w.run([tuple(e) for e in case["events"]])
    return w, first


def shrink(bat, case, sig_of, mute_keep=False):
    """truncate at the violation, then drop events greedily while the same signature is still produced"""
    w, first = run_case(bat, case, mute_keep)
    want = sig_of(w.viols[0])
    cur = dict(case, events=list(case["events"][:first + 1]))
    budget = 300
    i = len(cur["events"]) - 2
    while i >= 0 and budget > 0:
        cand = dict(cur, events=cur["events"][:i] + cur["events"][i + 1:])
        budget -= 1
        w2, f2 = run_case(bat, cand, mute_keep)
        if f2 is not None and sig_of(w2.viols[0]) == want:
            cur = cand
        i -= 1
    return cur


def make_case(rng, mode, tier_n):
    U = rng.choice((2, 4, 8, 10, 12))
    ncl, nlk = rng.choice((2, 2, 3)), rng.choice((1, 1, 2))
    if mode == "stale":
        ncl = 3
    return {"U": U, "ncl": ncl, "nlk": nlk, "mode": mode,
            "events": gen_events(rng, U, ncl, nlk, rng.randrange(20, tier_n), mode)}


def directed_case(rng, mode):
    """Directed family (DESIGN 2.5 item 3), parameterised by the seed: a holder whose two threads submit
    two stamped commands close together (in `reorder` mode the later-stamped one overtakes), whose replica
    then lags at a chosen position, and a competitor that tries around the expiry boundary; noise events
    are sprinkled in.  In `fifo` mode the same schedule exercises expiry under lag without overtaking."""
    U = rng.choice((4, 8, 10, 12))
    ncl = rng.choice((2, 3))
    a, b, l = 0, 1, 1
    ev = [("try", a, l), ("flush", a, 0), ("deliver", a, 5), ("deliver", b, 5), ("adv", rng.randrange(0, U // 2 + 1))]
    delta = rng.randrange(1, U // 2 + 1)
    if rng.random() < 0.5:
        ev += [("try", a, l), ("adv", delta), ("tick", a)]
    else:
        ev += [("tick", a), ("adv", delta), ("try", a, l)]
    ev += [("flush", a, 1 if mode == "reorder" else 0), ("flush", a, 0)]
    ev += [("deliver", a, rng.choice((0, 1, 1, 2))), ("part", a, rng.random() < 0.5), ("deliver", b, 5)]
    ev += [("adv", U - delta + rng.randrange(-1, delta + 2))]
    ev += [("try", b, l), ("flush", b, 0), ("deliver", b, 5), ("adv", rng.choice((0, 0, 1)))]
    noise = [("tick", b), ("deliver", 2 % ncl, 5), ("tick", 2 % ncl), ("try", 2 % ncl, 2), ("flush", 2 % ncl, 0), ("adv", 0)]
    out = []
    for e in ev:
        if rng.random() < 0.15:
            out.append(rng.choice(noise))
        out.append(e)
    return {"U": U, "ncl": ncl, "nlk": 2, "mode": mode, "events": out}


def stale_case(rng):
    """Directed `stale` family: X's prolongation is stamped t and committed with a delay D; meanwhile Y
    acquires at t' (t' - t around / beyond U) and prolongs every < U/2; the stale prolongation is committed;
    Y's replica lags; a third client Z tries; Y catches up.  Y must still hold, Z must have been refused, and
    at no instant may two of them consider the lock held."""
    U = rng.choice((4, 8, 10, 12))
    Y, Z, X, l = 0, 1, 2, 1
    D = rng.choice((0, max(1, U // 4) - 1, U - 1, U + 1, U + 2, 2 * U + 1, 3 * U))
    gap = rng.choice((1, U - 1, U, U + 1, U + 2, 2 * U, 3 * U))          # t' - t
    step = max(1, U // 2 - 1)
    ev = []
    if rng.random() < 0.5:                      # X may itself hold another lock
        ev += [("try", X, 2), ("flush", X, 0), ("deliver", X, 5)]
    ev += [("tick", X, D), ("adv", gap), ("try", Y, l), ("flush", Y, 0), ("deliver", Y, 5), ("deliver", Z, 5)]
    elapsed = gap
    for _ in range(rng.randrange(1, 4)):
        ev += [("adv", step), ("tick", Y), ("flush", Y, 0), ("deliver", Y, 5)]
        elapsed += step
    if elapsed < D and rng.random() < 0.7:      # let the stale command become due while Y keeps prolonging
        while elapsed < D:
            ev += [("adv", step), ("tick", Y), ("flush", Y, 0), ("deliver", Y, 5)]
            elapsed += step
    lag = rng.random() < 0.7
    if lag:
        ev += [("part", Y, rng.random() < 0.5)]
    ev += [("flush", X, 0), ("deliver", Z, 9), ("deliver", X, 9), ("adv", rng.choice((0, 0, 1)))]
    ev += [("try", Z, l), ("flush", Z, 0), ("deliver", Z, 9), ("deliver", X, 9)]
    if lag:
        ev += [("heal", Y)]
    ev += [("deliver", Y, 9), ("expect_refused", Z, l), ("expect_holds", Y, l)]
    return {"U": U, "ncl": 3, "nlk": 2, "mode": "stale", "events": ev}


def stall_case(rng, mode):
    """Directed: Y holds L1 and prolongs, then stalls for more than U; competitor Z's tryAcquire is stamped
    during the silence but enters the log only after Y has resumed prolonging (later stamps).  The lock expired:
    Z must be granted, Y must not hold it again (it never called tryAcquire again)."""
    U = rng.choice((4, 8, 10, 12))
    Y, Z, X, l = 0, 1, 2, 1
    step = max(1, U // 2 - 1)
    ev = [("try", Y, l), ("flush", Y, 0), ("deliver", Y, 5), ("deliver", Z, 5)]
    for _ in range(rng.randrange(0, 3)):
        ev += [("adv", step), ("tick", Y), ("flush", Y, 0), ("deliver", Y, 5)]
    ev += [("adv", U + rng.choice((1, 2, U))), ("try", Z, l), ("adv", rng.choice((0, 1)))]
    for _ in range(rng.randrange(1, 3)):          # the holder resumes
        ev += [("tick", Y), ("flush", Y, 0), ("deliver", Y, 5), ("adv", rng.choice((0, 1)))]
    if rng.random() < 0.3:
        ev += [("tick", X), ("flush", X, 0)]
    ev += [("flush", Z, 0), ("deliver", Z, 9), ("deliver", Y, 9), ("deliver", X, 9), ("tick", Y), ("flush", Y, 0), ("deliver", Y, 9),
           ("deliver", Z, 9), ("expect_granted", Z, l), ("expect_not_holds", Y, l)]
    return {"U": U, "ncl": 3, "nlk": 2, "mode": mode, "events": ev}


def loss_case(rng, mode):
    """Directed, only with LOSS_DISCIPLINE: Y's tryAcquire is told LEADER_CHANGED (> U/2 after the attempt); its acquire is
    committed; the compensating release is LOST on its way (dropped with MISSING_LEADER when commandsWaitLeader is off, or
    sent on a connection that is already dead: `transport.send` returns False and nobody looks)."""
    U = rng.choice((4, 8, 10, 12))
    Y, Z, l = 0, 1, 1
    ev = [("try_open", Y, l, 0, U // 2 + 1), ("flush", Y, 0), ("drop", Y), ("deliver", Y, 9), ("deliver", Z, 9)]
    for _ in range(rng.randrange(2, 5)):
        ev += [("adv", max(1, U // 4)), ("tick", Y), ("flush", Y, 0), ("deliver", Y, 9), ("deliver", Z, 9)]
        if rng.random() < 0.5:
            ev += [("try", Z, l), ("flush", Z, 0), ("deliver", Z, 9), ("deliver", Y, 9)]
    return {"U": U, "ncl": 3, "nlk": 2, "mode": mode, "events": ev}


def stale_belief_case(rng, mode):
    """Directed: Y holds L1; it calls release(L1) and at once tryAcquire(L1) -- its replica has not applied the
    release yet, so locally the lock still looks held --; both are committed in that order; the answer to the
    tryAcquire is LEADER_CHANGED, more than U/2 after the attempt.  Y was told it failed: it must not keep the lock."""
    U = rng.choice((4, 8, 10, 12))
    Y, Z, l = 0, 1, 1
    ev = [("try", Y, l), ("flush", Y, 0), ("deliver", Y, 9), ("deliver", Z, 9)]
    for _ in range(rng.randrange(0, 2)):
        ev += [("adv", max(1, U // 4)), ("tick", Y), ("flush", Y, 0), ("deliver", Y, 9)]
    ev += [("adv", 1), ("rel", Y, l), ("try_open", Y, l, 0, U // 2 + 1)]
    ev += [("flush", Y, 0)] * 3 + [("deliver", Y, 9), ("deliver", Z, 9)]
    for _ in range(rng.randrange(2, 5)):
        ev += [("adv", max(1, U // 4)), ("tick", Y), ("flush", Y, 0), ("deliver", Y, 9), ("deliver", Z, 9)]
        if rng.random() < 0.5:
            ev += [("try", Z, l), ("flush", Z, 0), ("deliver", Z, 9), ("deliver", Y, 9)]
    return {"U": U, "ncl": 3, "nlk": 2, "mode": mode, "events": ev}


def lagging_release_case(rng, mode):
    """Directed: Y holds L1 and prolongs every < U/2; its prolongations are committed but its own replica lags for
    more than U, so locally the lock looks expired; Y calls release(L1); the replica catches up; Y lives on.  After
    its release Y must not hold the lock and a competitor must get it."""
    U = rng.choice((4, 8, 10, 12))
    Y, Z, l = 0, 1, 1
    step = max(1, U // 2 - 1)
    ev = [("try", Y, l), ("flush", Y, 0), ("deliver", Y, 9), ("deliver", Z, 9)]
    elapsed = 0
    while elapsed <= U + 1:
        ev += [("adv", step), ("tick", Y), ("flush", Y, 0), ("deliver", Z, 9)]      # committed, not applied on Y's replica
        elapsed += step
    ev += [("rel", Y, l), ("flush", Y, 0), ("deliver", Y, 9), ("deliver", Z, 9)]
    for _ in range(rng.randrange(2, 4)):
        ev += [("adv", step), ("tick", Y), ("flush", Y, 0), ("deliver", Y, 9), ("deliver", Z, 9)]
    ev += [("try", Z, l), ("flush", Z, 0), ("deliver", Z, 9), ("deliver", Y, 9), ("adv", 0)]
    return {"U": U, "ncl": 3, "nlk": 2, "mode": mode, "events": ev}


def lapse_case(rng, mode):
    """Directed: Y acquires and then shows no stamp for longer than U (nobody's prolongation goes through the log
    either, so the stale entry stays in the table); Y re-acquires (told True again); a competitor tries right after."""
    U = rng.choice((4, 8, 10, 12))
    Y, Z, l = 0, 1, 1
    ev = [("try", Y, l), ("flush", Y, 0), ("deliver", Y, 9), ("deliver", Z, 9)]
    ev += [("adv", U + rng.choice((1, 2, U))), ("try", Y, l), ("flush", Y, 0), ("deliver", Y, 9)]
    if rng.random() < 0.5:
        ev += [("deliver", Z, 9)]
    ev += [("adv", rng.choice((0, 1, max(1, U // 2 - 1)))), ("try", Z, l), ("flush", Z, 0), ("deliver", Z, 9), ("deliver", Y, 9)]
    return {"U": U, "ncl": 3, "nlk": 2, "mode": mode, "events": ev}


def open_case(rng, mode):
    """Directed (D73): Y's tryAcquire is reported as failed with an open outcome (LEADER_CHANGED) `told` after
    the attempt; its acquire is committed `took` after the attempt anyway (with whatever the wrapper submitted
    behind it); Y lives on and prolongs every U/4; a competitor tries.  Y was told it failed: it must not
    consider the lock held once its submissions are applied."""
    U = rng.choice((4, 8, 10, 12))
    Y, Z, l = 0, 1, 1
    told = rng.choice((0, 1, U // 2 + 1))
    took = rng.choice((0, 1, U // 2, U // 2 + 1, U - 1))
    ev = [("try_open", Y, l, 0, told), ("adv", max(0, took - told))]
    ev += [("flush", Y, 0), ("flush", Y, 0), ("deliver", Y, 9), ("deliver", Z, 9)]
    for _ in range(rng.randrange(2, 5)):
        ev += [("adv", max(1, U // 4)), ("tick", Y), ("flush", Y, 0), ("deliver", Y, 9), ("deliver", Z, 9)]
        if rng.random() < 0.6:
            ev += [("try", Z, l), ("flush", Z, 0), ("deliver", Z, 9), ("deliver", Y, 9)]
    return {"U": U, "ncl": 3, "nlk": 2, "mode": mode, "events": ev}


def snapshot_case(rng, mode):
    """Directed: Y holds L1 and prolongs every < U/2; Z's replica lags and is then brought up by Y's snapshot,
    or Z catches up and restarts from its own dump; Z then tries: refused, Y still holds, never two holders."""
    U = rng.choice((4, 8, 10, 12))
    Y, Z, X, l = 0, 1, 2, 1
    step = max(1, U // 2 - 1)
    ev = [("try", Y, l), ("flush", Y, 0), ("deliver", Y, 5)]
    if rng.random() < 0.5:
        ev += [("deliver", Z, 1)]
    for _ in range(rng.randrange(1, 4)):
        ev += [("adv", step), ("tick", Y), ("flush", Y, 0), ("deliver", Y, 5)]
    if rng.random() < 0.5:
        ev += [("install", Z, Y)]
    else:
        ev += [("deliver", Z, 9), ("restart", Z)]
    ev += [("adv", rng.choice((0, 0, 1))), ("try", Z, l), ("flush", Z, 0), ("deliver", Z, 9), ("deliver", Y, 9), ("deliver", X, 9),
           ("expect_refused", Z, l), ("expect_holds", Y, l)]
    return {"U": U, "ncl": 3, "nlk": 2, "mode": mode, "events": ev}


def sig_of_factory(mode):
    def sig_of(v):
        if v["signature"] is not None:
            return v["signature"]
        return SIG_REORDER if mode == "reorder" else SIG_MUTEX_STALE if mode == "stale" else SIG_MUTEX
    return sig_of


def explore(ctx, bat, salt, ncases, max_viol=4):
    cov, seen, viols, done = {}, set(), [], 0
    sigs_seen = set()                       # one (shrunk) violation per distinct signature
    corpus = []
    for p in sorted(glob.glob(os.path.join(ctx.verif, "corpus", "locks", "sched-*.json"))):
        corpus.append(json.load(open(p)))
    rng = ctx.rng(salt)
    t_end = time.time() + ctx.budget_s * 0.6
    for i in range(len(corpus) + ncases):
        if i < len(corpus):
            case = corpus[i]
        else:
            mode = ("fifo", "reorder", "stale")[i % 3]
            if i % 8 == 1:
                case = snapshot_case(rng, mode)
                cov["directed.snapshot"] = cov.get("directed.snapshot", 0) + 1
            elif i % 8 == 5:
                case = stall_case(rng, mode)
                cov["directed.stall"] = cov.get("directed.stall", 0) + 1
            elif i % 16 == 3:
                case = open_case(rng, mode)
                cov["directed.outcome-open"] = cov.get("directed.outcome-open", 0) + 1
            elif i % 16 == 11:
                case = lapse_case(rng, mode)
                cov["directed.lapse-and-reacquire"] = cov.get("directed.lapse-and-reacquire", 0) + 1
            elif LOSS_DISCIPLINE and i % 32 == 23:
                case = loss_case(rng, mode)
                cov["directed.compensating-release-lost"] = cov.get("directed.compensating-release-lost", 0) + 1
            elif i % 16 == 7:
                case = stale_belief_case(rng, mode)
                cov["directed.release-then-retry-told-failed"] = cov.get("directed.release-then-retry-told-failed", 0) + 1
            elif i % 16 == 15:
                case = lagging_release_case(rng, mode)
                cov["directed.release-on-lagging-replica"] = cov.get("directed.release-on-lagging-replica", 0) + 1
            elif i % 4 == 0:
                case = stale_case(rng) if mode == "stale" else directed_case(rng, mode)
                cov["directed." + mode] = cov.get("directed." + mode, 0) + 1
            else:
                case = make_case(rng, mode, ctx.scale(120, 300))
        w, first = run_case(bat, case)
        done += 1
        seen.add(hashlib.sha1(json.dumps(case, sort_keys=True).encode()).hexdigest())
        for k, v in w.cov.items():
            cov[k] = cov.get(k, 0) + v
        cov["mode." + case["mode"]] = cov.get("mode." + case["mode"], 0) + 1
        if first is not None:
            sig_of = sig_of_factory(case["mode"])
            passes = [False]
            if sig_of(w.viols[0]).startswith("batteries._ReplLockManagerImpl."):      # log-head / replica-level monitor
                passes.append(True)         # also: what do the clients themselves see on this schedule?
            for mute in passes:
                wm, fm = (w, first) if not mute else run_case(bat, case, True)
                if fm is None or sig_of(wm.viols[0]) in sigs_seen or len(viols) >= max_viol:
                    continue
                sigs_seen.add(sig_of(wm.viols[0]))
                small = shrink(bat, case, sig_of, mute)
                w2, _ = run_case(bat, small, mute)
                v = w2.viols[0]
                viols.append({"signature": sig_of(v), "what": "[%s discipline] %s" % (case["mode"], v["what"]),
                              "replay": {"kind": "schedule", "case": small, "mute_keep": mute}})
        if time.time() > t_end:
            break
    return cov, seen, viols, done


FLOORS = ["try", "release", "tick.prolong", "tick.skip", "deliver", "partition", "answer.true", "answer.false",
          "answer.late", "log.acq", "log.pro", "log.rel", "acq.after-expiry", "rel.nonholder", "held.1",
          "held.on-lagging-replica", "flush.overtaken", "mode.fifo", "mode.reorder",
          "directed.fifo", "directed.reorder", "directed.stale", "mode.stale", "flush.stamp-older-than-U",
          "pro.stale-while-fresh-lock-of-another-client", "expect.holder-still-holds", "expect.competitor-refused",
          "directed.snapshot", "install.while-another-clients-lock-is-held", "restart.while-another-clients-lock-is-held",
          "directed.stall", "expect.competitor-granted-after-expiry", "expect.stalled-holder-does-not-hold",
          "pro.expires-lock.of-the-prolonging-holder", "acq.of-free-or-expired-lock",
          "directed.outcome-open", "try.outcome-open", "directed.lapse-and-reacquire", "told-true.1", "directed.release-then-retry-told-failed",
          "directed.release-on-lagging-replica", "release.while-local-replica-shows-lock-expired",
          "directed.compensating-release-lost", "drop.rel",
          "acq.reacquire-of-own-expired-lock"]


def run(ctx):
    t0 = time.time()
    bat = lc.load_batteries(ctx.repo)
    cov, seen, viols, done = explore(ctx, bat, "locks.monitor", ctx.scale(500, 20000))
    res = {"cases": done, "distinct": len(seen), "coverage": dict(sorted(cov.items())),
           "samples": [], "disagreements": [], "violations": viols, "wall_s": round(time.time() - t0, 2)}
    missing = [k for k in FLOORS if not cov.get(k)]
    if missing and not viols:
        res["inconclusive"] = "coverage floor missed: " + ",".join(missing)
    return res


def search(ctx, unproved):
    bat = lc.load_batteries(ctx.repo)
    return explore(ctx, bat, "locks.monitor.search", ctx.scale(3000, 60000))[2]


def replay(ctx, violation):
    bat = lc.load_batteries(ctx.repo)
    case = violation["replay"]["case"]
    w, first = run_case(bat, case, bool(violation["replay"].get("mute_keep")))
    sig_of = sig_of_factory(case["mode"])
    return {"violated": first is not None and sig_of(w.viols[0]) == violation.get("signature"),
            "first_violation_after_event": first, "what": [v["what"] for v in w.viols[:2]],
            "log": [lc.cmd_str(e[0]) for e in w.log]}
