"""C16 monitor `locks.monitor`: the property's own statement on the real code, over random interleavings.

Several real `ReplLockManager` clients (own prolongation logic = the real `_autoAcquireThread` body, run
pass by pass), each with its own real `_ReplLockManagerImpl` replica, over a miniature commit pipeline:
one common log; a client's submissions wait in its node queue (commit delay), replicas apply the log with
individual lag, partitions freeze a client's queue and replica.  One virtual clock for everybody
("client clocks agree").  Two disciplines:
  * `fifo`    : a client's commands enter the log in submission order;
  * `reorder` : a command may be overtaken by later commands of the same client (the clock is read before
                the command is enqueued, on the caller's or the prolongation thread -- D19).
Checked after every event at the common time: (1) at most one client considers a lock held by itself
(`isAcquired` on its own replica, and it has no release of its own outstanding); (2) nobody is told True
for an acquisition that took longer than U/2, and a late one leaves a release behind; (3) a lock whose
holder's greatest stamp in the log is t0 is granted to any other client's acquire with stamp > t0+U;
(4) a release by a non-holder leaves the table unchanged.  Written against properties.jsonl C16, not
against the Lean model."""
import glob
import hashlib
import json
import os
import time

from harness.corr import locks_common as lc

PROPERTIES = ["C16"]
ORDER = 42

SIG_REORDER = "batteries.ReplLockManager:stamp-reorder-mutex"
SIG_MUTEX = "batteries.ReplLockManager:mutex-broken"


def gen_events(rng, U, ncl, nlk, n, mode):
    evs = []
    for _ in range(n):
        r = rng.random()
        c = rng.randrange(ncl)
        l = rng.randrange(1, nlk + 1)
        if r < 0.16:
            evs.append(("adv", rng.choice((0, 1, 1, 1, 2, max(1, U // 4), max(1, U // 2), U, U + 1))))
        elif r < 0.34:
            evs.append(("try", c, l))
        elif r < 0.40:
            evs.append(("rel", c, l))
        elif r < 0.52:
            evs.append(("tick", c))
        elif r < 0.70:
            evs.append(("flush", c, rng.randrange(0, 3) if mode == "reorder" else 0))
        elif r < 0.94:
            evs.append(("deliver", c, rng.choice((1, 1, 2, 5))))
        elif r < 0.97:
            evs.append(("part", c, rng.random() < 0.5))
        else:
            evs.append(("heal", c))
    return evs


class World(object):
    def __init__(self, bat, U, ncl, nlk):
        self.bat, self.U, self.ncl, self.nlk = bat, U, ncl, nlk
        self.clock = lc.VClock(10)
        self.log = []                 # (cmd, cb, submitter)
        self.viols = []
        self.cov = {}
        self.maxstamp = {}

    def hit(self, k):
        self.cov[k] = self.cov.get(k, 0) + 1

    def run(self, evs):
        """returns index of the event after which the first violation was seen (or None)"""
        bat, clock, U = self.bat, self.clock, self.U
        with lc.Patched(bat, clock):
            cl = []
            for i in range(self.ncl):
                mgr, impl, so = lc.make_manager(bat, U, i + 1)
                cl.append({"mgr": mgr, "impl": impl, "so": so, "applied": 0, "part": False, "attempts": [],
                           "rel_sub": {}, "rel_app": {}})
            self.cl = cl
            ref = bat._ReplLockManagerImpl(U)       # the log head
            first = None
            for idx, ev in enumerate(evs):
                k = ev[0]
                if k == "adv":
                    clock.now += ev[1]
                elif k == "try":
                    c = cl[ev[1]]
                    att = clock.now
                    rec = {"l": ev[2], "att": att, "ans": None, "n_sub": len(c["so"].submitted)}
                    c["attempts"].append(rec)
                    c["mgr"].tryAcquire(lc.lock_name(ev[2]), callback=(lambda r, e, rec=rec: self.answered(rec, r, e)))
                    self.hit("try")
                elif k == "rel":
                    cl[ev[1]]["mgr"].release(lc.lock_name(ev[2]))
                    self.hit("release")
                elif k == "tick":
                    c = cl[ev[1]]
                    n0 = len(c["so"].submitted)
                    lc.tick_once(bat, c["mgr"], clock)
                    self.hit("tick.prolong" if len(c["so"].submitted) > n0 else "tick.skip")
                elif k == "flush":
                    c = cl[ev[1]]
                    q = c["so"].queue
                    if q and not c["part"]:
                        j = min(ev[2], len(q) - 1)
                        if j > 0:
                            self.hit("flush.overtaken")
                        cmd, cb = q.pop(j)
                        self.append(ref, cmd, cb, ev[1] + 1)
                elif k == "deliver":
                    c = cl[ev[1]]
                    for _ in range(ev[2]):
                        if c["part"] or c["applied"] >= len(self.log):
                            break
                        cmd, cb, sub = self.log[c["applied"]]
                        r = lc.apply_cmd(c["impl"], cmd)
                        c["applied"] += 1
                        if cmd[0] == "rel" and sub == ev[1] + 1:
                            c["rel_app"][cmd[1]] = c["rel_app"].get(cmd[1], 0) + 1
                        if cb is not None and sub == ev[1] + 1:
                            cb(r, 0)
                        self.hit("deliver")
                elif k == "part":
                    cl[ev[1]]["part"] = True
                    cl[ev[1]]["so"].leader = not ev[2]      # with / without a known leader
                    self.hit("partition")
                elif k == "heal":
                    cl[ev[1]]["part"] = False
                    cl[ev[1]]["so"].leader = True
                self.observe(idx)
                if self.viols and first is None:
                    first = idx
                    break
            for c in cl:
                c["mgr"].destroy()
        return first

    def answered(self, rec, r, e):
        rec["ans"] = (self.clock.now, r)
        took = self.clock.now - rec["att"]
        self.hit("answer.true" if r is True else "answer.false")
        if r is True and 2 * took > self.U:
            self.viols.append({"signature": "batteries.ReplLockManager.tryAcquire:late-acquire-kept",
                               "what": "tryAcquire(L%d) at %d answered True at %d: took %d > U/2 (U=%d)"
                                       % (rec["l"], rec["att"], self.clock.now, took, self.U)})
        if 2 * took > self.U:
            self.hit("answer.late")

    def append(self, ref, cmd, cb, submitter):
        before = lc.table_of(ref)
        held = dict((e[0], (e[1], e[2])) for e in before)
        r = lc.apply_cmd(ref, cmd)
        self.log.append((cmd, cb, submitter))
        self.hit("log." + cmd[0])
        if cmd[0] == "acq":
            _, l, c, t = cmd
            if l in held and held[l][0] != c:
                a = held[l][0]
                if t > self.maxstamp.get(a, -1) + self.U:
                    self.hit("acq.after-expiry")
                    if r is not True:
                        self.viols.append({"signature": "batteries._ReplLockManagerImpl.acquire:expired-lock-not-obtainable",
                                           "what": "holder %d's greatest stamp in the log is %d, U=%d; acquire(L%d,%d,%d) answered %r"
                                                   % (a, self.maxstamp.get(a, -1), self.U, l, c, t, r)})
                elif r is True and t < held[l][1] + self.U:
                    self.viols.append({"signature": "batteries._ReplLockManagerImpl.acquire:lock-stolen-before-expiry",
                                       "what": "acquire(L%d,%d,%d) granted while %d holds it since %d, U=%d" % (l, c, t, a, held[l][1], self.U)})
        if cmd[0] == "rel":
            _, l, c = cmd
            if (l not in held or held[l][0] != c):
                self.hit("rel.nonholder")
                if lc.table_of(ref) != before:
                    self.viols.append({"signature": "batteries._ReplLockManagerImpl.release:non-holder-release-has-effect",
                                       "what": "release(L%d,%d) changed %s -> %s" % (l, c, before, lc.table_of(ref))})
        if cmd[0] in ("acq", "pro"):
            c = cmd[2] if cmd[0] == "acq" else cmd[1]
            self.maxstamp[c] = max(self.maxstamp.get(c, -1), cmd[-1])

    def observe(self, idx):
        now = self.clock.now
        for l in range(1, self.nlk + 1):
            holders = []
            for i, c in enumerate(self.cl):
                if c["mgr"].isAcquired(lc.lock_name(l)):
                    nsub = sum(1 for x in c["so"].submitted if x[0] == "rel" and x[1] == l)
                    if nsub == c["rel_app"].get(l, 0):          # no release of its own outstanding
                        holders.append(i + 1)
            if holders:
                self.hit("held.%d" % min(len(holders), 2))
                lag = [len(self.log) - self.cl[h - 1]["applied"] for h in holders]
                if max(lag) > 0:
                    self.hit("held.on-lagging-replica")
            if len(holders) > 1:
                self.viols.append({"signature": None, "holders": holders,
                                   "what": "at common time %d clients %s all consider L%d held (U=%d); replicas at log positions %s of %d, tables %s"
                                           % (now, holders, l, self.U, [self.cl[h - 1]["applied"] for h in holders], len(self.log),
                                              [lc.table_of(self.cl[h - 1]["impl"]) for h in holders])})
                return


def run_case(bat, case):
    w = World(bat, case["U"], case["ncl"], case["nlk"])
    first = w.run([tuple(e) for e in case["events"]])
    return w, first


def shrink(bat, case, sig_of):
    """truncate at the violation, then drop events greedily while the same signature is still produced"""
    w, first = run_case(bat, case)
    want = sig_of(w.viols[0])
    cur = dict(case, events=list(case["events"][:first + 1]))
    budget = 300
    i = len(cur["events"]) - 2
    while i >= 0 and budget > 0:
        cand = dict(cur, events=cur["events"][:i] + cur["events"][i + 1:])
        budget -= 1
        w2, f2 = run_case(bat, cand)
        if f2 is not None and sig_of(w2.viols[0]) == want:
            cur = cand
        i -= 1
    return cur


def make_case(rng, mode, tier_n):
    U = rng.choice((2, 4, 8, 10, 12))
    ncl, nlk = rng.choice((2, 2, 3)), rng.choice((1, 1, 2))
    return {"U": U, "ncl": ncl, "nlk": nlk, "mode": mode,
            "events": gen_events(rng, U, ncl, nlk, rng.randrange(20, tier_n), mode)}


def directed_case(rng, mode):
    """Directed family (DESIGN 2.5 item 3), parameterised by the seed: a holder whose two threads submit
    two stamped commands close together (in `reorder` mode the later-stamped one overtakes), whose replica
    then lags at a chosen position, and a competitor that tries around the expiry boundary; noise events
    are sprinkled in.  In `fifo` mode the same schedule exercises expiry under lag without overtaking."""
    U = rng.choice((4, 8, 10, 12))
    ncl = rng.choice((2, 3))
    a, b, l = 0, 1, 1
    ev = [("try", a, l), ("flush", a, 0), ("deliver", a, 5), ("deliver", b, 5), ("adv", rng.randrange(0, U // 2 + 1))]
    delta = rng.randrange(1, U // 2 + 1)
    if rng.random() < 0.5:
        ev += [("try", a, l), ("adv", delta), ("tick", a)]
    else:
        ev += [("tick", a), ("adv", delta), ("try", a, l)]
    ev += [("flush", a, 1 if mode == "reorder" else 0), ("flush", a, 0)]
    ev += [("deliver", a, rng.choice((0, 1, 1, 2))), ("part", a, rng.random() < 0.5), ("deliver", b, 5)]
    ev += [("adv", U - delta + rng.randrange(-1, delta + 2))]
    ev += [("try", b, l), ("flush", b, 0), ("deliver", b, 5), ("adv", rng.choice((0, 0, 1)))]
    noise = [("tick", b), ("deliver", 2 % ncl, 5), ("tick", 2 % ncl), ("try", 2 % ncl, 2), ("flush", 2 % ncl, 0), ("adv", 0)]
    out = []
    for e in ev:
        if rng.random() < 0.15:
            out.append(rng.choice(noise))
        out.append(e)
    return {"U": U, "ncl": ncl, "nlk": 2, "mode": mode, "events": out}


def sig_of_factory(mode):
    def sig_of(v):
        if v["signature"] is not None:
            return v["signature"]
        return SIG_REORDER if mode == "reorder" else SIG_MUTEX
    return sig_of


def explore(ctx, bat, salt, ncases, max_viol=2):
    cov, seen, viols, done = {}, set(), [], 0
    corpus = []
    for p in sorted(glob.glob(os.path.join(ctx.verif, "corpus", "locks", "sched-*.json"))):
        corpus.append(json.load(open(p)))
    rng = ctx.rng(salt)
    t_end = time.time() + ctx.budget_s * 0.6
    for i in range(len(corpus) + ncases):
        if i < len(corpus):
            case = corpus[i]
        else:
            mode = "reorder" if i % 2 else "fifo"
            if i % 3 == 0:
                case = directed_case(rng, mode)
                cov["directed." + mode] = cov.get("directed." + mode, 0) + 1
            else:
                case = make_case(rng, mode, ctx.scale(120, 300))
        w, first = run_case(bat, case)
        done += 1
        seen.add(hashlib.sha1(json.dumps(case, sort_keys=True).encode()).hexdigest())
        for k, v in w.cov.items():
            cov[k] = cov.get(k, 0) + v
        cov["mode." + case["mode"]] = cov.get("mode." + case["mode"], 0) + 1
        if first is not None and len(viols) < max_viol:
            sig_of = sig_of_factory(case["mode"])
            small = shrink(bat, case, sig_of)
            w2, _ = run_case(bat, small)
            v = w2.viols[0]
            viols.append({"signature": sig_of(v), "what": "[%s discipline] %s" % (case["mode"], v["what"]),
                          "replay": {"kind": "schedule", "case": small}})
        if time.time() > t_end:
            break
    return cov, seen, viols, done


FLOORS = ["try", "release", "tick.prolong", "tick.skip", "deliver", "partition", "answer.true", "answer.false",
          "answer.late", "log.acq", "log.pro", "log.rel", "acq.after-expiry", "rel.nonholder", "held.1",
          "held.on-lagging-replica", "flush.overtaken", "mode.fifo", "mode.reorder",
          "directed.fifo", "directed.reorder"]


def run(ctx):
    t0 = time.time()
    bat = lc.load_batteries(ctx.repo)
    cov, seen, viols, done = explore(ctx, bat, "locks.monitor", ctx.scale(500, 20000))
    res = {"cases": done, "distinct": len(seen), "coverage": dict(sorted(cov.items())),
           "samples": [], "disagreements": [], "violations": viols, "wall_s": round(time.time() - t0, 2)}
    missing = [k for k in FLOORS if not cov.get(k)]
    if missing and not viols:
        res["inconclusive"] = "coverage floor missed: " + ",".join(missing)
    return res


def search(ctx, unproved):
    bat = lc.load_batteries(ctx.repo)
    return explore(ctx, bat, "locks.monitor.search", ctx.scale(3000, 60000))[2]


def replay(ctx, violation):
    bat = lc.load_batteries(ctx.repo)
    case = violation["replay"]["case"]
    w, first = run_case(bat, case)
    sig_of = sig_of_factory(case["mode"])
    return {"violated": first is not None and sig_of(w.viols[0]) == violation.get("signature"),
            "first_violation_after_event": first, "what": [v["what"] for v in w.viols[:2]],
            "log": [lc.cmd_str(e[0]) for e in w.log]}
