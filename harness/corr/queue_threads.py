"""VALIDATION of the thread model of C19 with REAL threads (not a proof, not a correspondence diff).

The Lean theorems of `PSO.C19` quantify over all interleavings of the *model's* atomic actions; that
those actions are atomic in CPython (GIL, `threading.Lock`, `threading.Event`) is an assumption.  This
component lets the real scheduler interleave: `sys.setswitchinterval(1e-6)`, N caller threads x M calls
(async without callback / async with callback / sync with long, tiny and zero timeouts) against

  A. one single-node `SyncObj` with its own auto-tick thread (`autoTick=True`; with
     `appendEntriesUseBatch=False` also the `PipeNotifier` wake-up path), queue limits 1..3 and large;
  B. three `SyncObj`s over an in-memory transport ticked by ONE manual tick thread, callers submitting on
     the leader and on a follower (forwarding path), queue limits 1..3 and large.

and then evaluates the statements of the theorems on what was observed — deterministic pass criteria only
(no timing assertions):
  * every call id is applied at most once on every replica; applied exactly once (on every replica, after
    the cluster went quiet) when its caller was told SUCCESS; never when it was told QUEUE_FULL /
    MISSING_LEADER / REQUEST_DENIED;
  * every callback fired at most once; exactly once when the command was applied on the submitting node
    or refused with QUEUE_FULL;
  * a sync call returns its own command's result, or raises a FAIL_REASON, or raises 'Timeout';
  * replicas applied the same sequence.
Bounded by ctx.budget_s.
"""
import collections
import sys
import threading
import time

from harness.corr import queue_common as qc

PROPERTIES = ["C19"]
ORDER = 60


def build(so):
    from pysyncobj import SyncObjConf
    from pysyncobj.transport import Transport

    class Net(object):
        def __init__(self):
            self.tr = {}
            self.q = collections.defaultdict(collections.deque)

        def deliver_all(self):
            n = 0
            for key in list(self.q.keys()):
                q = self.q[key]
                while q:
                    m = q.popleft()
                    n += 1
                    self.tr[key[1]]._onMessageReceivedCallback(self.tr[key[0]].me, m)
            return n

    class MemTransport(Transport):
        net = None

        def __init__(self, syncObj, selfNode, otherNodes):
            super().__init__(syncObj, selfNode, otherNodes)
            self.me = selfNode
            self.others = list(otherNodes)
            self.net.tr[selfNode.id] = self

        @property
        def ready(self):
            return True

        def tryGetReady(self):
            pass

        def waitReady(self):
            pass

        def send(self, node, message):
            if node.id not in self.net.tr:
                return False
            self.net.q[(self.me.id, node.id)].append(message)
            return True

        def addNode(self, node):
            pass

        def dropNode(self, node):
            pass

        def destroy(self):
            pass

        def connect_all(self):
            for n in self.others:
                self._onNodeConnectedCallback(n)

    class Obj(so.SyncObj):
        def __init__(self, me, others, conf, tcls):
            super().__init__(me, others, conf, transportClass=tcls)
            self.applied = []

        @so.replicated
        def add(self, cid):
            self.applied.append(cid)
            return cid

        @so.replicated_sync
        def add_sync(self, cid):
            self.applied.append(cid)
            return cid

        @so.replicated_sync(timeout=30)
        def add_sync30(self, cid):
            self.applied.append(cid)
            return cid

    def conf(**kw):
        base = dict(appendEntriesPeriod=0.002, raftMinTimeout=0.02, raftMaxTimeout=0.03, connectionTimeout=0.5,
                    autoTickPeriod=0.001, leaderFallbackTimeout=5.0, connectionRetryTime=0.1)
        base.update(kw)
        return SyncObjConf(**base)

    return Net, MemTransport, Obj, conf


class Outcome(object):
    __slots__ = ("cid", "mode", "target", "ret", "cbs")

    def __init__(self, cid, mode, target):
        self.cid, self.mode, self.target = cid, mode, target
        self.ret = None
        self.cbs = []


def caller(so, objs, t, M, rng_choices, outs, start_evt):
    start_evt.wait()
    for k in range(M):
        cid = 1000 * t + k
        mode, target = rng_choices[k]
        o = objs[target]
        oc = Outcome(cid, mode, target)
        outs.append(oc)
        try:
            if mode == "nocb":
                oc.ret = ("value", o.add(cid))
            elif mode == "cb":
                oc.ret = ("value", o.add(cid, callback=lambda r, e, oc=oc: oc.cbs.append((r, e))))
            elif mode == "sync":
                oc.ret = ("value", o.add_sync30(cid))
            elif mode == "sync_kw":
                oc.ret = ("value", o.add(cid, sync=True, timeout=30))
            elif mode == "sync_tiny":
                oc.ret = ("value", o.add_sync(cid, timeout=0.0005))
            elif mode == "sync_zero":
                oc.ret = ("value", o.add(cid, sync=True, timeout=0))
        except so.SyncObjException as e:
            oc.ret = ("timeout",) if e.errorCode == "Timeout" else ("raised", e.errorCode)
        except BaseException as e:   # noqa
            oc.ret = ("crash", repr(e))


MODES = ["nocb", "cb", "cb", "sync", "sync", "sync_kw", "sync_tiny", "sync_zero"]


def run_round(so, parts, rng, cfg, N, M, qsize, batch, deadline):
    Net, MemTransport, Obj, conf = parts
    net = Net()

    class T(MemTransport):
        pass
    T.net = net
    stop = threading.Event()
    tick_err = []
    if cfg == "A":
        objs = [Obj("n0:1", [], conf(autoTick=True, commandsQueueSize=qsize, appendEntriesUseBatch=batch), T)]
        ticker = None
    else:
        names = ["n0:1", "n1:1", "n2:1"]
        objs = [Obj(n, [x for x in names if x != n],
                    conf(autoTick=False, commandsQueueSize=qsize, appendEntriesUseBatch=batch), T) for n in names]
        for o in objs:
            net.tr[o.selfNode.id].connect_all()

        def tick_loop():
            try:
                while not stop.is_set():
                    for o in objs:
                        o.doTick(0.0)
                    net.deliver_all()
            except BaseException as e:   # noqa
                import traceback
                tick_err.append(traceback.format_exc()[-1200:])
        ticker = threading.Thread(target=tick_loop, daemon=True)
        ticker.start()
    # wait for a leader
    t_end = time.time() + 10
    while time.time() < t_end:
        if any(o._isLeader() for o in objs) and all(o._getLeader() is not None for o in objs):
            break
        time.sleep(0.005)
    leader_i = [i for i, o in enumerate(objs) if o._isLeader()]
    info = {"cfg": cfg, "N": N, "M": M, "qsize": qsize, "batch": batch, "leader": leader_i}
    outs_per_thread = [[] for _ in range(N)]
    viol = []
    if not leader_i:
        info["skipped"] = "no leader elected in time"
    else:
        targets = [leader_i[0]] + ([i for i in range(len(objs)) if i != leader_i[0]][:1])
        start_evt = threading.Event()
        ths = []
        for t in range(N):
            choices = [(rng.choice(MODES), rng.choice(targets)) for _ in range(M)]
            th = threading.Thread(target=caller, args=(so, objs, t, M, choices, outs_per_thread[t], start_evt), daemon=True)
            ths.append(th)
            th.start()
        start_evt.set()
        for th in ths:
            th.join(max(0.1, deadline - time.time()))
        info["callers_stuck"] = sum(1 for th in ths if th.is_alive())
        # quiesce: same applied sequences everywhere, queues empty, twice in a row
        quiet = 0
        t_end = min(deadline, time.time() + 5)
        while time.time() < t_end and quiet < 3:
            time.sleep(0.01)
            seqs = [list(o.applied) for o in objs]
            empty = all(len(o._SyncObj__commandsQueue._FastQueue__queue) == 0 for o in objs)
            pend = sum(len(o._SyncObj__commandsWaitingCommit) + len(o._SyncObj__commandsWaitingReply) for o in objs)
            if empty and pend == 0 and all(s == seqs[0] for s in seqs):
                quiet += 1
            else:
                quiet = 0
        info["quiesced"] = quiet >= 3
    stop.set()
    if ticker is not None:
        ticker.join(5)
    for o in objs:
        try:
            o.destroy()
        except Exception:   # noqa
            pass
    if cfg == "A":
        time.sleep(0.01)
    if tick_err:
        viol.append(("tick-thread:exception-escaped", tick_err[0]))
    if not leader_i:
        return info, viol, {}
    # ---- evaluate the theorems' statements on the observation
    seqs = [list(o.applied) for o in objs]
    cov = collections.Counter()
    for i, s in enumerate(seqs):
        c = collections.Counter(s)
        dup = [x for x, n in c.items() if n > 1]
        if dup:
            viol.append(("apply:command-applied-more-than-once", "replica %d applied %r twice" % (i, dup[:5])))
    ref = max(seqs, key=len)
    for i, s in enumerate(seqs):
        if s != ref[:len(s)]:
            viol.append(("apply:replicas-diverge", "replica %d: %r vs %r" % (i, s[:20], ref[:20])))
    applied = [set(s) for s in seqs]
    NEVER = (1, 2, 6)   # QUEUE_FULL, MISSING_LEADER, REQUEST_DENIED
    for outs in outs_per_thread:
        for oc in outs:
            cov["mode_" + oc.mode] += 1
            cov["target_" + ("leader" if oc.target == leader_i[0] else "follower")] += 1
            if oc.ret is None:
                cov["unfinished"] += 1
                continue
            if oc.ret[0] == "crash":
                viol.append(("decorator:unexpected-exception", "%d: %s" % (oc.cid, oc.ret[1])))
                continue
            told = None          # what the caller was told: ("ok", r) | ("fail", code) | None
            if oc.mode == "cb":
                if len(oc.cbs) > 1:
                    viol.append(("queue.callback:fired-more-than-once", "%d: %r" % (oc.cid, oc.cbs)))
                if oc.ret != ("value", None):
                    viol.append(("decorator.async:call-did-not-return-none", "%d: %r" % (oc.cid, oc.ret)))
                if oc.cbs:
                    r, e = oc.cbs[0]
                    told = ("ok", r) if e == 0 else ("fail", e)
                    if e != 0 and r is not None:
                        viol.append(("queue.callback:failure-with-result", "%d: %r" % (oc.cid, oc.cbs[0])))
                elif info.get("quiesced") and oc.cid in applied[oc.target]:
                    viol.append(("queue.callback:never-fired-for-applied-command", "%d" % oc.cid))
                cov["cb_fired" if oc.cbs else "cb_silent"] += 1
            elif oc.mode == "nocb":
                if oc.ret != ("value", None):
                    viol.append(("decorator.async:call-did-not-return-none", "%d: %r" % (oc.cid, oc.ret)))
            else:
                if oc.ret[0] == "value":
                    told = ("ok", oc.ret[1])
                elif oc.ret[0] == "raised":
                    told = ("fail", oc.ret[1])
                    if oc.ret[1] not in (1, 2, 3, 4, 5, 6):
                        viol.append(("decorator.sync:raised-unknown-reason", "%d: %r" % (oc.cid, oc.ret)))
                cov["sync_" + oc.ret[0]] += 1
            if told is not None and told[0] == "ok":
                cov["told_success"] += 1
                if told[1] != oc.cid:
                    viol.append(("decorator.sync:foreign-result" if oc.mode != "cb" else "queue.callback:foreign-result",
                                 "call %d was given result %r" % (oc.cid, told[1])))
                if oc.cid not in applied[oc.target]:
                    viol.append(("apply:success-reported-but-not-applied", "%d" % oc.cid))
                if info.get("quiesced") and not all(oc.cid in a for a in applied):
                    viol.append(("apply:success-reported-but-not-applied-everywhere", "%d" % oc.cid))
            if told is not None and told[0] == "fail":
                cov["told_fail_%s" % told[1]] += 1
                if told[1] in NEVER and any(oc.cid in a for a in applied):
                    viol.append(("apply:refused-command-was-applied", "%d refused with %r" % (oc.cid, told[1])))
    info["applied"] = len(ref)
    return info, viol, cov


def run(ctx):
    t0 = time.time()
    so = qc.load(ctx)
    parts = build(so)
    rng = ctx.rng("queue_threads")
    budget = ctx.scale(10.0, 240.0)
    res = {"cases": 0, "distinct": 0, "coverage": {}, "samples": [], "disagreements": [], "violations": []}
    cov = collections.Counter()
    old_si = sys.getswitchinterval()
    sys.setswitchinterval(1e-6)
    plan = []
    for qsize in (1, 2, 3, 100000):
        for cfg in ("A", "B"):
            plan.append((cfg, qsize, qsize != 2))
    try:
        rnd = 0
        while time.time() - t0 < budget:
            cfg, qsize, batch = plan[rnd % len(plan)]
            if rnd >= len(plan):
                batch = rng.random() < 0.6
            N = rng.choice([2, 3, 4, 6])
            M = rng.choice([5, 10, 20])
            info, viol, c = run_round(so, parts, rng, cfg, N, M, qsize, batch, t0 + budget + 10)
            rnd += 1
            res["cases"] += N * M if c else 0
            cov.update(c)
            cov["rounds_" + cfg] += 1
            cov["rounds_q%s" % (qsize if qsize < 10 else "big")] += 1
            if info.get("quiesced"):
                cov["rounds_quiesced"] += 1
            if info.get("skipped"):
                cov["rounds_skipped"] += 1
            if info.get("callers_stuck"):
                cov["callers_stuck"] += info["callers_stuck"]
            if len(res["samples"]) < 2:
                res["samples"].append(info)
            for sig, what in viol:
                if len(res["violations"]) < 3 and sig not in [x["signature"] for x in res["violations"]]:
                    res["violations"].append({"signature": sig, "what": what,
                                              "replay": {"kind": "threads", "round": info, "seed": ctx.seed,
                                                         "note": "real-thread schedule: re-run the component with the same seed; "
                                                                 "the interleaving itself is chosen by the OS"}})
            if rnd >= len(plan) and time.time() - t0 > budget:
                break
    finally:
        sys.setswitchinterval(old_si)
    res["distinct"] = res["cases"]       # every call has its own id and its own position in a real schedule
    res["coverage"] = dict(cov)
    res["wall_s"] = round(time.time() - t0, 2)
    res["notes"] = "VALIDATION of the model's atomicity assumptions with real threads; not a proof"
    need = ["told_success", "told_fail_1", "sync_value", "sync_timeout", "cb_fired", "target_follower", "rounds_A", "rounds_B"]
    missed = [k for k in need if cov.get(k, 0) == 0]
    if missed:
        res["inconclusive"] = "coverage floor missed: " + ",".join(missed)
    return res
