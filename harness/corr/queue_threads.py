"""VALIDATION of the thread model of C19 with REAL threads (not a proof, not a correspondence diff).

The Lean theorems of `PSO.C19` quantify over all interleavings of the *model's* atomic actions; that
those actions are atomic in CPython (GIL, `threading.Lock`, `threading.Event`) is an assumption.  This
component lets the real scheduler interleave: `sys.setswitchinterval(1e-6)`, N caller threads x M calls
(async without callback / async with callback / sync with long, tiny and zero timeouts) against

  A. one single-node `SyncObj` with its own auto-tick thread (`autoTick=True`; with
     `appendEntriesUseBatch=False` also the `PipeNotifier` wake-up path), queue limits 1..3 and large;
  B. three `SyncObj`s over an in-memory transport ticked by ONE manual tick thread, callers submitting on
     the leader and on a follower (forwarding path), queue limits 1..3 and large.

Before the free-running rounds a DIRECTED round (config D: one node, a caller thread and a manual tick
thread that is started only after the caller has filled the queue) produces every outcome class by
construction: 'Timeout' (nobody ticks), QUEUE_FULL through a callback and through a sync call, then
SUCCESS through callbacks and an own result through a sync call.  Rounds go on until every outcome class
was seen and the time budget is used, at most a generous bound; a slow machine never makes the component
inconclusive (only "nothing ran at all" does).  The clock / PRNG of pysyncobj are reset to the genuine
ones for the run (`queue_common.real_runtime`): earlier components of the same process leave virtual
ones behind.

Then it evaluates the statements of the theorems on what was observed — deterministic pass criteria only
(no timing assertions):
  * every call id is applied at most once on every replica; applied exactly once (on every replica, after
    the cluster went quiet) when its caller was told SUCCESS; never when it was told QUEUE_FULL /
    MISSING_LEADER / REQUEST_DENIED;
  * every callback fired at most once; exactly once when the command was applied on the submitting node
    or refused with QUEUE_FULL;
  * a sync call returns its own command's result, or raises a FAIL_REASON, or raises 'Timeout';
  * replicas applied the same sequence.
Bounded by ctx.budget_s.
"""
import collections
import sys
import threading
import time

from harness.corr import queue_common as qc

PROPERTIES = ["C19"]
ORDER = 60


def build(so):
    from pysyncobj import SyncObjConf
    from pysyncobj.transport import Transport

    class Net(object):
        def __init__(self):
            self.tr = {}
            self.q = collections.defaultdict(collections.deque)

        def deliver_all(self):
            n = 0
            for key in list(self.q.keys()):
                q = self.q[key]
                while q:
                    m = q.popleft()
                    n += 1
                    self.tr[key[1]]._onMessageReceivedCallback(self.tr[key[0]].me, m)
            return n

    class MemTransport(Transport):
        net = None

        def __init__(self, syncObj, selfNode, otherNodes):
            super().__init__(syncObj, selfNode, otherNodes)
            self.me = selfNode
            self.others = list(otherNodes)
            self.net.tr[selfNode.id] = self

        @property
        def ready(self):
            return True

        def tryGetReady(self):
            pass

        def waitReady(self):
            pass

        def send(self, node, message):
            if node.id not in self.net.tr:
                return False
            self.net.q[(self.me.id, node.id)].append(message)
            return True

        def addNode(self, node):
            pass

        def dropNode(self, node):
            pass

        def destroy(self):
            pass

        def connect_all(self):
            for n in self.others:
                self._onNodeConnectedCallback(n)

    class Obj(so.SyncObj):
        def __init__(self, me, others, conf, tcls):
            super().__init__(me, others, conf, transportClass=tcls)
            self.applied = []

        @so.replicated
        def add(self, cid):
            self.applied.append(cid)
            return cid

        @so.replicated_sync
        def add_sync(self, cid):
            self.applied.append(cid)
            return cid

        @so.replicated_sync(timeout=30)
        def add_sync30(self, cid):
            self.applied.append(cid)
            return cid

    def conf(**kw):
        base = dict(appendEntriesPeriod=0.002, raftMinTimeout=0.02, raftMaxTimeout=0.03, connectionTimeout=0.5,
                    autoTickPeriod=0.001, leaderFallbackTimeout=5.0, connectionRetryTime=0.1)
        base.update(kw)
        return SyncObjConf(**base)

    return Net, MemTransport, Obj, conf


class Outcome(object):
    __slots__ = ("cid", "mode", "target", "ret", "cbs")

    def __init__(self, cid, mode, target):
        self.cid, self.mode, self.target = cid, mode, target
        self.ret = None
        self.cbs = []


def one_call(so, objs, cid, mode, target):
    o = objs[target]
    oc = Outcome(cid, mode, target)
    try:
        if mode == "nocb":
            oc.ret = ("value", o.add(cid))
        elif mode == "cb":
            oc.ret = ("value", o.add(cid, callback=lambda r, e, oc=oc: oc.cbs.append((r, e))))
        elif mode == "sync":
            oc.ret = ("value", o.add_sync30(cid))
        elif mode == "sync_kw":
            oc.ret = ("value", o.add(cid, sync=True, timeout=30))
        elif mode == "sync_tiny":
            oc.ret = ("value", o.add_sync(cid, timeout=0.0005))
        elif mode == "sync_zero":
            oc.ret = ("value", o.add(cid, sync=True, timeout=0))
    except so.SyncObjException as e:
        oc.ret = ("timeout",) if e.errorCode == "Timeout" else ("raised", e.errorCode)
    except BaseException as e:   # noqa
        oc.ret = ("crash", repr(e))
    return oc


def caller(so, objs, t, M, rng_choices, outs, start_evt):
    start_evt.wait()
    for k in range(M):
        mode, target = rng_choices[k]
        oc = Outcome(1000 * t + k, mode, target)     # visible as "unfinished" while the call blocks
        outs.append(oc)
        done = one_call(so, objs, oc.cid, mode, target)
        oc.ret, oc.cbs = done.ret, done.cbs


def now():
    return time.monotonic()


def nap(sec):
    threading.Event().wait(sec)


def quiesce(objs, t_end):
    """same applied sequences everywhere, queues and callback tables empty, three times in a row"""
    quiet = 0
    while now() < t_end and quiet < 3:
        nap(0.01)
        seqs = [list(o.applied) for o in objs]
        empty = all(len(o._SyncObj__commandsQueue._FastQueue__queue) == 0 for o in objs)
        pend = sum(len(o._SyncObj__commandsWaitingCommit) + len(o._SyncObj__commandsWaitingReply) for o in objs)
        if empty and pend == 0 and all(x == seqs[0] for x in seqs):
            quiet += 1
        else:
            quiet = 0
    return quiet >= 3


def directed_round(so, parts, qsize, batch, deadline):
    """Config D: every outcome class by construction (real caller thread, real manual tick thread)."""
    Net, MemTransport, Obj, conf = parts
    net = Net()

    class T(MemTransport):
        pass
    T.net = net
    o = Obj("n0:1", [], conf(autoTick=False, commandsQueueSize=qsize, appendEntriesUseBatch=batch), T)
    objs = [o]
    outs = []
    info = {"cfg": "D", "N": 1, "M": qsize + 6, "qsize": qsize, "batch": batch, "leader": [0]}
    stop, tick_go, phase1_done, phase3_go = (threading.Event() for _ in range(4))
    tick_err = []

    def tick_loop():
        tick_go.wait()
        try:
            while not stop.is_set():
                o.doTick(0.0)
        except BaseException:   # noqa
            import traceback
            tick_err.append(traceback.format_exc()[-1200:])

    def body():
        k = [0]

        def call(mode):
            oc = Outcome(k[0], mode, 0)
            outs.append(oc)
            k[0] += 1
            done = one_call(so, objs, oc.cid, mode, 0)
            oc.ret, oc.cbs = done.ret, done.cbs
        # phase 1: nobody ticks.  The queue holds qsize+1 entries (`len > maxSize => Full`).
        call("sync_zero")                 # enqueued, no answer can come: 'Timeout'
        for _ in range(qsize):
            call("cb")                    # fills the queue
        call("cb")                        # Queue.Full -> callback(None, QUEUE_FULL)
        call("sync_kw")                   # Queue.Full -> raises QUEUE_FULL
        phase1_done.set()
        phase3_go.wait(max(0.1, deadline - now()))
        # phase 3: the tick thread runs, the node leads: own results
        call("sync")
        call("cb")
        call("sync_kw")

    ticker = threading.Thread(target=tick_loop, daemon=True)
    th = threading.Thread(target=body, daemon=True)
    ticker.start()
    th.start()
    phase1_done.wait(max(0.1, deadline - now()))
    tick_go.set()
    while now() < deadline and not (o._isLeader() and len(o.applied) >= qsize + 1):
        nap(0.005)
    phase3_go.set()
    th.join(max(0.1, deadline - now()))
    info["callers_stuck"] = 1 if th.is_alive() else 0
    info["quiesced"] = quiesce(objs, min(deadline, now() + 5))
    stop.set()
    tick_go.set()
    ticker.join(5)
    try:
        o.destroy()
    except Exception:   # noqa
        pass
    viol = []
    if tick_err:
        viol.append(("tick-thread:exception-escaped", tick_err[0]))
    v2, cov = evaluate(objs, [outs], 0, info)
    return info, viol + v2, cov


MODES = ["nocb", "cb", "cb", "sync", "sync", "sync_kw", "sync_tiny", "sync_zero"]


def run_round(so, parts, rng, cfg, N, M, qsize, batch, deadline):
    Net, MemTransport, Obj, conf = parts
    net = Net()

    class T(MemTransport):
        pass
    T.net = net
    stop = threading.Event()
    tick_err = []
    if cfg == "A":
        objs = [Obj("n0:1", [], conf(autoTick=True, commandsQueueSize=qsize, appendEntriesUseBatch=batch), T)]
        ticker = None
    else:
        names = ["n0:1", "n1:1", "n2:1"]
        objs = [Obj(n, [x for x in names if x != n],
                    conf(autoTick=False, commandsQueueSize=qsize, appendEntriesUseBatch=batch), T) for n in names]
        for o in objs:
            net.tr[o.selfNode.id].connect_all()

        def tick_loop():
            try:
                while not stop.is_set():
                    for o in objs:
                        o.doTick(0.0)
                    net.deliver_all()
            except BaseException as e:   # noqa
                import traceback
                tick_err.append(traceback.format_exc()[-1200:])
        ticker = threading.Thread(target=tick_loop, daemon=True)
        ticker.start()
    # wait for a leader
    t_end = min(deadline, now() + 20)
    while now() < t_end:
        if any(o._isLeader() for o in objs) and all(o._getLeader() is not None for o in objs):
            break
        nap(0.005)
    leader_i = [i for i, o in enumerate(objs) if o._isLeader()]
    info = {"cfg": cfg, "N": N, "M": M, "qsize": qsize, "batch": batch, "leader": leader_i}
    outs_per_thread = [[] for _ in range(N)]
    viol = []
    if not leader_i:
        info["skipped"] = "no leader elected in time"
    else:
        targets = [leader_i[0]] + ([i for i in range(len(objs)) if i != leader_i[0]][:1])
        start_evt = threading.Event()
        ths = []
        for t in range(N):
            choices = [(rng.choice(MODES), rng.choice(targets)) for _ in range(M)]
            th = threading.Thread(target=caller, args=(so, objs, t, M, choices, outs_per_thread[t], start_evt), daemon=True)
            ths.append(th)
            th.start()
        start_evt.set()
        for th in ths:
            th.join(max(0.1, deadline - now()))
        info["callers_stuck"] = sum(1 for th in ths if th.is_alive())
        info["quiesced"] = quiesce(objs, min(deadline, now() + 5))
    stop.set()
    if ticker is not None:
        ticker.join(5)
    for o in objs:
        try:
            o.destroy()
        except Exception:   # noqa
            pass
    if cfg == "A":
        nap(0.01)
    if tick_err:
        viol.append(("tick-thread:exception-escaped", tick_err[0]))
    if not leader_i:
        return info, viol, {}
    v2, cov = evaluate(objs, outs_per_thread, leader_i[0], info)
    return info, viol + v2, cov


def evaluate(objs, outs_per_thread, leader, info):
    """the theorems' statements on the observation of one round"""
    viol = []
    leader_i = [leader]
    seqs = [list(o.applied) for o in objs]
    cov = collections.Counter()
    for i, s in enumerate(seqs):
        c = collections.Counter(s)
        dup = [x for x, n in c.items() if n > 1]
        if dup:
            viol.append(("apply:command-applied-more-than-once", "replica %d applied %r twice" % (i, dup[:5])))
    ref = max(seqs, key=len)
    for i, s in enumerate(seqs):
        if s != ref[:len(s)]:
            viol.append(("apply:replicas-diverge", "replica %d: %r vs %r" % (i, s[:20], ref[:20])))
    applied = [set(s) for s in seqs]
    NEVER = (1, 2, 6)   # QUEUE_FULL, MISSING_LEADER, REQUEST_DENIED
    for outs in outs_per_thread:
        for oc in outs:
            cov["mode_" + oc.mode] += 1
            cov["target_" + ("leader" if oc.target == leader_i[0] else "follower")] += 1
            if oc.ret is None:
                cov["unfinished"] += 1
                continue
            if oc.ret[0] == "crash":
                viol.append(("decorator:unexpected-exception", "%d: %s" % (oc.cid, oc.ret[1])))
                continue
            told = None          # what the caller was told: ("ok", r) | ("fail", code) | None
            if oc.mode == "cb":
                if len(oc.cbs) > 1:
                    viol.append(("queue.callback:fired-more-than-once", "%d: %r" % (oc.cid, oc.cbs)))
                if oc.ret != ("value", None):
                    viol.append(("decorator.async:call-did-not-return-none", "%d: %r" % (oc.cid, oc.ret)))
                if oc.cbs:
                    r, e = oc.cbs[0]
                    told = ("ok", r) if e == 0 else ("fail", e)
                    if e != 0 and r is not None:
                        viol.append(("queue.callback:failure-with-result", "%d: %r" % (oc.cid, oc.cbs[0])))
                elif info.get("quiesced") and oc.cid in applied[oc.target]:
                    viol.append(("queue.callback:never-fired-for-applied-command", "%d" % oc.cid))
                cov["cb_fired" if oc.cbs else "cb_silent"] += 1
            elif oc.mode == "nocb":
                if oc.ret != ("value", None):
                    viol.append(("decorator.async:call-did-not-return-none", "%d: %r" % (oc.cid, oc.ret)))
            else:
                if oc.ret[0] == "value":
                    told = ("ok", oc.ret[1])
                elif oc.ret[0] == "raised":
                    told = ("fail", oc.ret[1])
                    if oc.ret[1] not in (1, 2, 3, 4, 5, 6):
                        viol.append(("decorator.sync:raised-unknown-reason", "%d: %r" % (oc.cid, oc.ret)))
                cov["sync_" + oc.ret[0]] += 1
            if told is not None and told[0] == "ok":
                cov["told_success"] += 1
                if told[1] != oc.cid:
                    viol.append(("decorator.sync:foreign-result" if oc.mode != "cb" else "queue.callback:foreign-result",
                                 "call %d was given result %r" % (oc.cid, told[1])))
                if oc.cid not in applied[oc.target]:
                    viol.append(("apply:success-reported-but-not-applied", "%d" % oc.cid))
                if info.get("quiesced") and not all(oc.cid in a for a in applied):
                    viol.append(("apply:success-reported-but-not-applied-everywhere", "%d" % oc.cid))
            if told is not None and told[0] == "fail":
                cov["told_fail_%s" % told[1]] += 1
                if told[1] in NEVER and any(oc.cid in a for a in applied):
                    viol.append(("apply:refused-command-was-applied", "%d refused with %r" % (oc.cid, told[1])))
    info["applied"] = len(ref)
    return viol, cov


NEED = ["told_success", "told_fail_1", "sync_value", "sync_timeout", "sync_raised", "cb_fired",
        "target_follower", "rounds_A", "rounds_B", "rounds_D"]


def run(ctx):
    so = qc.load(ctx)
    with qc.real_runtime(so):       # genuine clock / PRNG: elections need real time to pass
        return _run(ctx, so)


def _run(ctx, so):
    t0 = now()
    parts = build(so)
    rng = ctx.rng("queue_threads")
    budget = ctx.scale(10.0, 240.0)          # time spent when everything is reached early
    hard = ctx.scale(75.0, 420.0)            # bound for reaching every outcome class on a slow machine
    res = {"cases": 0, "distinct": 0, "coverage": {}, "samples": [], "disagreements": [], "violations": []}
    cov = collections.Counter()
    old_si = sys.getswitchinterval()
    sys.setswitchinterval(1e-6)
    plan = [("D", 1, True), ("D", 2, False)]
    for qsize in (1, 2, 3, 100000):
        for cfg in ("A", "B"):
            plan.append((cfg, qsize, qsize != 2))
    try:
        rnd = 0
        while True:
            elapsed = now() - t0
            reached = all(cov.get(k, 0) > 0 for k in NEED)
            if elapsed >= hard or (elapsed >= budget and reached):
                break
            cfg, qsize, batch = plan[rnd % len(plan)]
            if rnd >= len(plan):
                batch = rng.random() < 0.6
            if not reached and elapsed >= budget:
                # overtime: only the configurations that still have something to contribute
                if cov.get("rounds_D", 0) == 0 or any(cov.get(k, 0) == 0 for k in NEED[:6]):
                    cfg, qsize = "D", 1
                elif cov.get("target_follower", 0) == 0 or cov.get("rounds_B", 0) == 0:
                    cfg = "B"
                else:
                    cfg = "A"
            deadline = min(t0 + hard + 5, now() + 30)
            if cfg == "D":
                N, M = 1, qsize + 6
                info, viol, c = directed_round(so, parts, qsize, batch, deadline)
            else:
                N = rng.choice([2, 3, 4, 6])
                M = rng.choice([5, 10, 20])
                info, viol, c = run_round(so, parts, rng, cfg, N, M, qsize, batch, deadline)
            rnd += 1
            res["cases"] += sum(v for k, v in c.items() if k.startswith("mode_"))
            cov.update(c)
            if c:
                cov["rounds_" + cfg] += 1
                cov["rounds_q%s" % (qsize if qsize < 10 else "big")] += 1
            if info.get("quiesced"):
                cov["rounds_quiesced"] += 1
            if info.get("skipped"):
                cov["rounds_skipped"] += 1
            if info.get("callers_stuck"):
                cov["callers_stuck"] += info["callers_stuck"]
            if len(res["samples"]) < 2:
                res["samples"].append(info)
            for sig, what in viol:
                if len(res["violations"]) < 3 and sig not in [x["signature"] for x in res["violations"]]:
                    res["violations"].append({"signature": sig, "what": what,
                                              "replay": {"kind": "threads", "round": info, "seed": ctx.seed,
                                                         "note": "real-thread schedule: re-run the component with the same seed; "
                                                                 "the interleaving itself is chosen by the OS"}})
    finally:
        sys.setswitchinterval(old_si)
    res["distinct"] = res["cases"]       # every call has its own id and its own position in a real schedule
    missed = [k for k in NEED if cov.get(k, 0) == 0]
    res["coverage"] = dict(cov)
    res["coverage"]["outcome_classes_not_reached"] = missed
    res["wall_s"] = round(now() - t0, 2)
    res["notes"] = "VALIDATION of the model's atomicity assumptions with real threads; not a proof"
    if res["cases"] == 0:
        res["inconclusive"] = "no round produced a single call (no leader was ever elected within %.0f s)" % hard
    return res
