"""VALIDATION of the thread model of C19 with REAL threads (not a proof, not a correspondence diff).

The Lean theorems of `PSO.C19` quantify over all interleavings of the *model's* atomic actions; that
those actions are atomic in CPython (GIL, `threading.Lock`, `threading.Event`) is an assumption.  This
component lets the real scheduler interleave: `sys.setswitchinterval(1e-6)`, N caller threads x M calls
(async without callback / async with callback / sync with long, tiny and zero timeouts) against

  A. one single-node `SyncObj` with its own auto-tick thread (`autoTick=True`; with
     `appendEntriesUseBatch=False` also the `PipeNotifier` wake-up path), queue limits 1..3 and large;
  B. three `SyncObj`s over an in-memory transport ticked by ONE manual tick thread, callers submitting on
     the leader and on a follower (forwarding path), queue limits 1..3 and large.

Before the free-running rounds a DIRECTED round (config D: one node, a caller thread and a manual tick
thread that is started only after the caller has filled the queue) produces every outcome class by
construction: 'Timeout' (nobody ticks), QUEUE_FULL through a callback and through a sync call, then
SUCCESS through callbacks and an own result through a sync call.  Rounds go on until every outcome class
was seen and the time budget is used, at most a generous bound; a slow machine never makes the component
inconclusive (only "nothing ran at all" does).  The clock / PRNG of pysyncobj are reset to the genuine
ones for the run (`queue_common.real_runtime`): earlier components of the same process leave virtual
ones behind.

Family N ("nested", also registered for C12): a REAL auto-tick cluster of 2 or 3 nodes (every node its own
tick thread; the in-memory transport delivers a message on the RECEIVER's tick thread through
`addOnTickCallback`).  Application threads submit commands that raise deterministically (`boom`) and
commands that succeed (`add`) on the leader and on a follower; the CALLBACKS of those commands — they run
on the submitting node's tick thread — issue further replicated calls with their own callbacks (depth
1-2).  Monitors (C12 / C19 statements): every callback fires exactly once; after quiescence (no call
outstanding, queues and callback tables empty, commit index = last applied = log end on every node,
stable) all replicas hold the same applied sequence, every command that was reported SUCCESS — the ones
issued from callbacks included — is in it exactly once on every replica; no exception escapes a tick
thread.  A time bound missed without a state difference makes the round inconclusive, never a violation.
Coverage floor: a replicated call issued on the tick thread inside the callback of a RAISING command, on
the leader and on a follower.  For C12 only this family runs (a few seconds).

Family S ("start-up", C12 and C19): a one-node autoTick cluster with a file journal applies a script of
commands (some raise), waits until the commit index is in the journal's meta file, and is destroyed; it is
then restarted a few times as a subclass that follows the documented pattern — `super().__init__()` first,
20-30 ms of set-up work, then `self.items = []`.  `_autoTickThread` grants the derived constructor 0.1 s
before the first tick (which replays the journal).  Monitors: after the replay the node's state equals the
fold of the committed script; nothing but the script's own ValueErrors is logged from the tick thread.
Deterministic criterion: a difference counts only when the whole constructor took <= 90 ms (so it was
inside the grace period whatever the machine load); otherwise the restart is timing-inconclusive.

Then it evaluates the statements of the theorems on what was observed — deterministic pass criteria only
(no timing assertions):
  * every call id is applied at most once on every replica; applied exactly once (on every replica, after
    the cluster went quiet) when its caller was told SUCCESS; never when it was told QUEUE_FULL /
    MISSING_LEADER / REQUEST_DENIED;
  * every callback fired at most once; exactly once when the command was applied on the submitting node
    or refused with QUEUE_FULL;
  * a sync call returns its own command's result, or raises a FAIL_REASON, or raises 'Timeout';
  * replicas applied the same sequence.
Bounded by ctx.budget_s.
"""
import collections
import functools
import itertools
import logging
import sys
import threading
import time

from harness.corr import queue_common as qc

PROPERTIES = ["C19", "C12"]
ORDER = 60


def build(so):
    from pysyncobj import SyncObjConf
    from pysyncobj.transport import Transport

    class Net(object):
        def __init__(self):
            self.tr = {}
            self.q = collections.defaultdict(collections.deque)

        def deliver_all(self):
            n = 0
            for key in list(self.q.keys()):
                q = self.q[key]
                while q:
                    m = q.popleft()
                    n += 1
                    self.tr[key[1]]._onMessageReceivedCallback(self.tr[key[0]].me, m)
            return n

        def deliver_to(self, dst):
            """drain the channels towards `dst` (called on dst's own tick thread)"""
            for key in list(self.q.keys()):
                if key[1] != dst:
                    continue
                q = self.q[key]
                while q:
                    try:
                        m = q.popleft()
                    except IndexError:
                        break
                    self.tr[dst]._onMessageReceivedCallback(self.tr[key[0]].me, m)

    class MemTransport(Transport):
        net = None

        def __init__(self, syncObj, selfNode, otherNodes):
            super().__init__(syncObj, selfNode, otherNodes)
            self.me = selfNode
            self.others = list(otherNodes)
            self.net.tr[selfNode.id] = self

        @property
        def ready(self):
            return True

        def tryGetReady(self):
            pass

        def waitReady(self):
            pass

        def send(self, node, message):
            if node.id not in self.net.tr:
                return False
            self.net.q[(self.me.id, node.id)].append(message)
            return True

        def addNode(self, node):
            pass

        def dropNode(self, node):
            pass

        def destroy(self):
            pass

        def connect_all(self):
            for n in self.others:
                self._onNodeConnectedCallback(n)

    class Obj(so.SyncObj):
        def __init__(self, me, others, conf, tcls):
            super().__init__(me, others, conf, transportClass=tcls)
            self.applied = []

        @so.replicated
        def add(self, cid):
            self.applied.append(cid)
            return cid

        @so.replicated_sync
        def add_sync(self, cid):
            self.applied.append(cid)
            return cid

        @so.replicated_sync(timeout=30)
        def add_sync30(self, cid):
            self.applied.append(cid)
            return cid

        @so.replicated
        def boom(self, cid):
            self.applied.append(cid)
            raise ValueError("boom %d" % cid)

    def conf(**kw):
        base = dict(appendEntriesPeriod=0.002, raftMinTimeout=0.02, raftMaxTimeout=0.03, connectionTimeout=0.5,
                    autoTickPeriod=0.001, leaderFallbackTimeout=5.0, connectionRetryTime=0.1)
        base.update(kw)
        return SyncObjConf(**base)

    return Net, MemTransport, Obj, conf


class Outcome(object):
    __slots__ = ("cid", "mode", "target", "ret", "cbs")

    def __init__(self, cid, mode, target):
        self.cid, self.mode, self.target = cid, mode, target
        self.ret = None
        self.cbs = []


def one_call(so, objs, cid, mode, target):
    o = objs[target]
    oc = Outcome(cid, mode, target)
    try:
        if mode == "nocb":
            oc.ret = ("value", o.add(cid))
        elif mode == "cb":
            oc.ret = ("value", o.add(cid, callback=lambda r, e, oc=oc: oc.cbs.append((r, e))))
        elif mode == "sync":
            oc.ret = ("value", o.add_sync30(cid))
        elif mode == "sync_kw":
            oc.ret = ("value", o.add(cid, sync=True, timeout=30))
        elif mode == "sync_tiny":
            oc.ret = ("value", o.add_sync(cid, timeout=0.0005))
        elif mode == "sync_zero":
            oc.ret = ("value", o.add(cid, sync=True, timeout=0))
    except so.SyncObjException as e:
        oc.ret = ("timeout",) if e.errorCode == "Timeout" else ("raised", e.errorCode)
    except BaseException as e:   # noqa
        oc.ret = ("crash", repr(e))
    return oc


def caller(so, objs, t, M, rng_choices, outs, start_evt):
    start_evt.wait()
    for k in range(M):
        mode, target = rng_choices[k]
        oc = Outcome(1000 * t + k, mode, target)     # visible as "unfinished" while the call blocks
        outs.append(oc)
        done = one_call(so, objs, oc.cid, mode, target)
        oc.ret, oc.cbs = done.ret, done.cbs


def now():
    return time.monotonic()


def nap(sec):
    threading.Event().wait(sec)


def quiesce(objs, t_end):
    """same applied sequences everywhere, queues and callback tables empty, three times in a row"""
    quiet = 0
    while now() < t_end and quiet < 3:
        nap(0.01)
        seqs = [list(o.applied) for o in objs]
        empty = all(len(o._SyncObj__commandsQueue._FastQueue__queue) == 0 for o in objs)
        pend = sum(len(o._SyncObj__commandsWaitingCommit) + len(o._SyncObj__commandsWaitingReply) for o in objs)
        if empty and pend == 0 and all(x == seqs[0] for x in seqs):
            quiet += 1
        else:
            quiet = 0
    return quiet >= 3


def directed_round(so, parts, qsize, batch, deadline):
    """Config D: every outcome class by construction (real caller thread, real manual tick thread)."""
    Net, MemTransport, Obj, conf = parts
    net = Net()

    class T(MemTransport):
        pass
    T.net = net
    o = Obj("n0:1", [], conf(autoTick=False, commandsQueueSize=qsize, appendEntriesUseBatch=batch), T)
    objs = [o]
    outs = []
    info = {"cfg": "D", "N": 1, "M": qsize + 6, "qsize": qsize, "batch": batch, "leader": [0]}
    stop, tick_go, phase1_done, phase3_go = (threading.Event() for _ in range(4))
    tick_err = []

    def tick_loop():
        tick_go.wait()
        try:
            while not stop.is_set():
                o.doTick(0.0)
        except BaseException:   # noqa
            import traceback
            tick_err.append(traceback.format_exc()[-1200:])

    def body():
        k = [0]

        def call(mode):
            oc = Outcome(k[0], mode, 0)
            outs.append(oc)
            k[0] += 1
            done = one_call(so, objs, oc.cid, mode, 0)
            oc.ret, oc.cbs = done.ret, done.cbs
        # phase 1: nobody ticks.  The queue holds qsize+1 entries (`len > maxSize => Full`).
        call("sync_zero")                 # enqueued, no answer can come: 'Timeout'
        for _ in range(qsize):
            call("cb")                    # fills the queue
        call("cb")                        # Queue.Full -> callback(None, QUEUE_FULL)
        call("sync_kw")                   # Queue.Full -> raises QUEUE_FULL
        phase1_done.set()
        phase3_go.wait(max(0.1, deadline - now()))
        # phase 3: the tick thread runs, the node leads: own results
        call("sync")
        call("cb")
        call("sync_kw")

    ticker = threading.Thread(target=tick_loop, daemon=True)
    th = threading.Thread(target=body, daemon=True)
    ticker.start()
    th.start()
    phase1_done.wait(max(0.1, deadline - now()))
    tick_go.set()
    while now() < deadline and not (o._isLeader() and len(o.applied) >= qsize + 1):
        nap(0.005)
    phase3_go.set()
    th.join(max(0.1, deadline - now()))
    info["callers_stuck"] = 1 if th.is_alive() else 0
    info["quiesced"] = quiesce(objs, min(deadline, now() + 5))
    stop.set()
    tick_go.set()
    ticker.join(5)
    qc.close_node(o)
    viol = []
    if tick_err:
        viol.append(("tick-thread:exception-escaped", tick_err[0]))
    v2, cov = evaluate(objs, [outs], 0, info)
    return info, viol + v2, cov


MODES = ["nocb", "cb", "cb", "sync", "sync", "sync_kw", "sync_tiny", "sync_zero"]

# ---------------------------------------------------------------------------------------------
# family N: callbacks on the real auto-tick thread issue replicated calls
# ---------------------------------------------------------------------------------------------
CHAINS = [["boom", "add"], ["add", "add"], ["boom", "boom", "add"], ["add", "boom", "add"], ["boom"], ["add"],
          ["boom", "add", "add"]]


class _LogTrap(logging.Handler):
    def __init__(self):
        logging.Handler.__init__(self)
        self.escaped = []

    def emit(self, record):
        try:
            if "failed _onTick" in record.getMessage():
                self.escaped.append(self.format(record)[-1200:])
        except Exception:   # noqa
            pass


def nested_round(so, parts, n_nodes, batch, deadline):
    Net, MemTransport, Obj, conf = parts
    net = Net()

    class T(MemTransport):
        pass
    T.net = net
    names = ["n%d:1" % i for i in range(n_nodes)]
    info = {"cfg": "N", "nodes": n_nodes, "batch": batch}
    viol = []
    cov = collections.Counter()
    lg = logging.getLogger("pysyncobj.syncobj")
    trap = _LogTrap()
    old_prop = lg.propagate
    lg.addHandler(trap)
    lg.propagate = False           # the raising commands are logged with a traceback each: keep stderr clean
    objs = []
    calls = []
    lock = threading.Lock()
    outstanding = [0]
    ids = itertools.count(1)
    try:
        for n in names:
            objs.append(Obj(n, [x for x in names if x != n],
                            conf(autoTick=True, commandsQueueSize=100000, appendEntriesUseBatch=batch,
                                 raftMinTimeout=0.5, raftMaxTimeout=0.8, appendEntriesPeriod=0.02,
                                 autoTickPeriod=0.005, connectionTimeout=3.0), T))
        for n, o in zip(names, objs):
            o.addOnTickCallback(functools.partial(net.deliver_to, n))
        for o in objs:
            net.tr[o.selfNode.id].connect_all()
        t_end = min(deadline, now() + 20)
        while now() < t_end:
            if sum(1 for o in objs if o._isLeader()) == 1 and all(o._getLeader() is not None for o in objs):
                break
            nap(0.01)
        leaders = [i for i, o in enumerate(objs) if o._isLeader()]
        if len(leaders) != 1:
            info["skipped"] = "no single leader within the time bound"
            return info, viol, {}
        L = leaders[0]
        F = [i for i in range(n_nodes) if i != L][0]
        info["leader"] = [L]

        def issue(node, chain, level, parent_raised):
            o = objs[node]
            kind = chain[level]
            cid = next(ids)
            on_tick = threading.current_thread() is o._SyncObj__thread
            rec = {"cid": cid, "kind": kind, "node": node, "level": level, "on_tick": on_tick,
                   "parent_raised": parent_raised, "fired": []}
            with lock:
                calls.append(rec)
                outstanding[0] += 1
            if level > 0 and on_tick:
                role = "leader" if o._isLeader() else "follower"
                cov["nested_on_tick_%s" % role] += 1
                if parent_raised:
                    cov["nested_from_raising_cb_%s" % role] += 1

            def cb(res, err):
                try:
                    first = not rec["fired"]
                    raised = isinstance(res, Exception)
                    rec["fired"].append(("exc" if raised else res, err))
                    if first:
                        if err == 0 and level + 1 < len(chain):
                            issue(node, chain, level + 1, raised)
                        with lock:
                            outstanding[0] -= 1
                except BaseException:   # noqa  (must not leak harness errors into the tick thread)
                    import traceback
                    rec["harness_error"] = traceback.format_exc()[-800:]
            try:
                getattr(o, kind)(cid, callback=cb)
            except BaseException as e:   # noqa
                rec["submit_error"] = repr(e)
                with lock:
                    outstanding[0] -= 1

        # application thread: roots on the leader and on a follower, plain commands in between
        for chain in CHAINS:
            for node in (L, F):
                issue(node, chain, 0, False)
            nap(0.02)
            issue(F, ["add"], 0, False)
            issue(L, ["add"], 0, False)

        def quiet_state():
            with lock:
                if outstanding[0] != 0:
                    return None
            st = []
            for o in objs:
                if len(o._SyncObj__commandsQueue._FastQueue__queue) or len(o._SyncObj__commandsWaitingCommit) \
                        or len(o._SyncObj__commandsWaitingReply):
                    return None
                la, ci, end = o.raftLastApplied, o.raftCommitIndex, o._SyncObj__getCurrentLogIndex()
                if not (la == ci == end):
                    return None
                st.append(la)
            if any(x != st[0] for x in st):
                return None
            return st

        quiet, seqs, last = 0, None, None
        while now() < deadline:
            nap(0.02)
            st = quiet_state()
            if st is None or st != last:
                quiet, last = (1 if st is not None else 0), st
                continue
            quiet += 1
            if quiet >= 4:
                seqs = [list(o.applied) for o in objs]
                if quiet_state() == st:          # nothing moved while the sequences were read
                    break
                seqs, quiet = None, 0
        info["quiesced"] = seqs is not None
        info["last_applied"] = last
    finally:
        for o in objs:
            qc.close_node(o)
        nap(0.05)
        lg.removeHandler(trap)
        lg.propagate = old_prop
    # ---- monitors
    if trap.escaped:
        viol.append(("tick-thread:exception-escaped", trap.escaped[0]))
    for rec in calls:
        cov["calls"] += 1
        cov["kind_" + rec["kind"]] += 1
        cov["level_%d" % rec["level"]] += 1
        if rec.get("harness_error") or rec.get("submit_error"):
            viol.append(("decorator:unexpected-exception", "%r" % (rec,)))
        if len(rec["fired"]) > 1:
            viol.append(("queue.callback:fired-more-than-once", "cid %d (%s on node %d): %r"
                         % (rec["cid"], rec["kind"], rec["node"], rec["fired"])))
    if seqs is None:
        info["timed_out"] = True               # no stable state within the bound: nothing to compare
        return info, viol, cov
    for rec in calls:
        if len(rec["fired"]) != 1:
            viol.append(("queue.callback:not-fired-exactly-once", "cid %d fired %r" % (rec["cid"], rec["fired"])))
    ref = seqs[0]
    for i, sq in enumerate(seqs):
        c = collections.Counter(sq)
        dup = [x for x, n in c.items() if n > 1]
        if dup:
            viol.append(("apply:command-applied-more-than-once", "replica %d applied %r twice" % (i, dup[:5])))
        if sq != ref:
            only_i = [x for x in sq if x not in set(ref)]
            only_0 = [x for x in ref if x not in set(sq)]
            viol.append(("apply:replicas-diverge",
                         "all replicas quiet at lastApplied %r, yet replica %d holds %r that replica 0 lacks and lacks %r "
                         "(calls: %r)" % (last, i, only_i[:6], only_0[:6],
                                          [(r["cid"], r["kind"], "node%d" % r["node"], "tick" if r["on_tick"] else "app",
                                            "after-raise" if r["parent_raised"] else "") for r in calls
                                           if r["cid"] in set(only_i + only_0)][:6])))
    for rec in calls:
        if rec["fired"] and rec["fired"][0][1] == 0:
            cov["told_success"] += 1
            if rec["kind"] == "add" and rec["fired"][0][0] != rec["cid"]:
                viol.append(("queue.callback:foreign-result", "cid %d got %r" % (rec["cid"], rec["fired"][0])))
            if rec["kind"] == "boom" and rec["fired"][0][0] != "exc":
                viol.append(("apply:raising-command-result-is-not-the-exception", "cid %d got %r" % (rec["cid"], rec["fired"][0])))
            missing = [i for i, sq in enumerate(seqs) if rec["cid"] not in sq]
            if missing:
                viol.append(("apply:success-reported-but-not-applied-everywhere",
                             "cid %d (%s, issued on node %d from the %s%s) reported SUCCESS, absent on replicas %r"
                             % (rec["cid"], rec["kind"], rec["node"], "tick thread" if rec["on_tick"] else "application",
                                ", in the callback of a raising command" if rec["parent_raised"] else "", missing)))
        elif rec["fired"]:
            cov["told_fail_%s" % rec["fired"][0][1]] += 1
    cov["rounds_N_quiesced"] += 1
    info["applied"] = len(ref)
    rank = {"apply:replicas-diverge": 0, "apply:success-reported-but-not-applied-everywhere": 1}
    viol.sort(key=lambda v: rank.get(v[0], 2))      # the state difference first: it is what the property is about
    return info, viol, cov



def run_round(so, parts, rng, cfg, N, M, qsize, batch, deadline):
    Net, MemTransport, Obj, conf = parts
    net = Net()

    class T(MemTransport):
        pass
    T.net = net
    stop = threading.Event()
    tick_err = []
    if cfg == "A":
        objs = [Obj("n0:1", [], conf(autoTick=True, commandsQueueSize=qsize, appendEntriesUseBatch=batch), T)]
        ticker = None
    else:
        names = ["n0:1", "n1:1", "n2:1"]
        objs = [Obj(n, [x for x in names if x != n],
                    conf(autoTick=False, commandsQueueSize=qsize, appendEntriesUseBatch=batch), T) for n in names]
        for o in objs:
            net.tr[o.selfNode.id].connect_all()

        def tick_loop():
            try:
                while not stop.is_set():
                    for o in objs:
                        o.doTick(0.0)
                    net.deliver_all()
            except BaseException as e:   # noqa
                import traceback
                tick_err.append(traceback.format_exc()[-1200:])
        ticker = threading.Thread(target=tick_loop, daemon=True)
        ticker.start()
    # wait for a leader
    t_end = min(deadline, now() + 20)
    while now() < t_end:
        if any(o._isLeader() for o in objs) and all(o._getLeader() is not None for o in objs):
            break
        nap(0.005)
    leader_i = [i for i, o in enumerate(objs) if o._isLeader()]
    info = {"cfg": cfg, "N": N, "M": M, "qsize": qsize, "batch": batch, "leader": leader_i}
    outs_per_thread = [[] for _ in range(N)]
    viol = []
    if not leader_i:
        info["skipped"] = "no leader elected in time"
    else:
        targets = [leader_i[0]] + ([i for i in range(len(objs)) if i != leader_i[0]][:1])
        start_evt = threading.Event()
        ths = []
        for t in range(N):
            choices = [(rng.choice(MODES), rng.choice(targets)) for _ in range(M)]
            th = threading.Thread(target=caller, args=(so, objs, t, M, choices, outs_per_thread[t], start_evt), daemon=True)
            ths.append(th)
            th.start()
        start_evt.set()
        for th in ths:
            th.join(max(0.1, deadline - now()))
        info["callers_stuck"] = sum(1 for th in ths if th.is_alive())
        info["quiesced"] = quiesce(objs, min(deadline, now() + 5))
    stop.set()
    if ticker is not None:
        ticker.join(5)
    for o in objs:
        qc.close_node(o)
    if cfg == "A":
        nap(0.01)
    if tick_err:
        viol.append(("tick-thread:exception-escaped", tick_err[0]))
    if not leader_i:
        return info, viol, {}
    v2, cov = evaluate(objs, outs_per_thread, leader_i[0], info)
    return info, viol + v2, cov


def evaluate(objs, outs_per_thread, leader, info):
    """the theorems' statements on the observation of one round"""
    viol = []
    leader_i = [leader]
    seqs = [list(o.applied) for o in objs]
    cov = collections.Counter()
    for i, s in enumerate(seqs):
        c = collections.Counter(s)
        dup = [x for x, n in c.items() if n > 1]
        if dup:
            viol.append(("apply:command-applied-more-than-once", "replica %d applied %r twice" % (i, dup[:5])))
    ref = max(seqs, key=len)
    for i, s in enumerate(seqs):
        if s != ref[:len(s)]:
            viol.append(("apply:replicas-diverge", "replica %d: %r vs %r" % (i, s[:20], ref[:20])))
    applied = [set(s) for s in seqs]
    NEVER = (1, 2, 6)   # QUEUE_FULL, MISSING_LEADER, REQUEST_DENIED
    for outs in outs_per_thread:
        for oc in outs:
            cov["mode_" + oc.mode] += 1
            cov["target_" + ("leader" if oc.target == leader_i[0] else "follower")] += 1
            if oc.ret is None:
                cov["unfinished"] += 1
                continue
            if oc.ret[0] == "crash":
                viol.append(("decorator:unexpected-exception", "%d: %s" % (oc.cid, oc.ret[1])))
                continue
            told = None          # what the caller was told: ("ok", r) | ("fail", code) | None
            if oc.mode == "cb":
                if len(oc.cbs) > 1:
                    viol.append(("queue.callback:fired-more-than-once", "%d: %r" % (oc.cid, oc.cbs)))
                if oc.ret != ("value", None):
                    viol.append(("decorator.async:call-did-not-return-none", "%d: %r" % (oc.cid, oc.ret)))
                if oc.cbs:
                    r, e = oc.cbs[0]
                    told = ("ok", r) if e == 0 else ("fail", e)
                    if e != 0 and r is not None:
                        viol.append(("queue.callback:failure-with-result", "%d: %r" % (oc.cid, oc.cbs[0])))
                elif info.get("quiesced") and oc.cid in applied[oc.target]:
                    viol.append(("queue.callback:never-fired-for-applied-command", "%d" % oc.cid))
                cov["cb_fired" if oc.cbs else "cb_silent"] += 1
            elif oc.mode == "nocb":
                if oc.ret != ("value", None):
                    viol.append(("decorator.async:call-did-not-return-none", "%d: %r" % (oc.cid, oc.ret)))
            else:
                if oc.ret[0] == "value":
                    told = ("ok", oc.ret[1])
                elif oc.ret[0] == "raised":
                    told = ("fail", oc.ret[1])
                    if oc.ret[1] not in (1, 2, 3, 4, 5, 6):
                        viol.append(("decorator.sync:raised-unknown-reason", "%d: %r" % (oc.cid, oc.ret)))
                cov["sync_" + oc.ret[0]] += 1
            if told is not None and told[0] == "ok":
                cov["told_success"] += 1
                if told[1] != oc.cid:
                    viol.append(("decorator.sync:foreign-result" if oc.mode != "cb" else "queue.callback:foreign-result",
                                 "call %d was given result %r" % (oc.cid, told[1])))
                if oc.cid not in applied[oc.target]:
                    viol.append(("apply:success-reported-but-not-applied", "%d" % oc.cid))
                if info.get("quiesced") and not all(oc.cid in a for a in applied):
                    viol.append(("apply:success-reported-but-not-applied-everywhere", "%d" % oc.cid))
            if told is not None and told[0] == "fail":
                cov["told_fail_%s" % told[1]] += 1
                if told[1] in NEVER and any(oc.cid in a for a in applied):
                    viol.append(("apply:refused-command-was-applied", "%d refused with %r" % (oc.cid, told[1])))
    info["applied"] = len(ref)
    return viol, cov



# ---------------------------------------------------------------------------------------------
# family S: restart of an autoTick node whose subclass finishes its constructor after SyncObj.__init__
# ---------------------------------------------------------------------------------------------
SCRIPT = [("add", 1), ("add", 2), ("remove", 7), ("add", 3), ("remove", 1), ("remove", 1), ("add", 5),
          ("add", 8), ("remove", 2), ("add", 13)]
GRACE_OK = 0.09      # constructor durations up to this are inside _autoTickThread's 0.1 s whatever the load


def fold_script(script):
    items = []
    for meth, v in script:
        if meth == "add":
            items.append(v)
        elif v in items:
            items.remove(v)
    return items


class _ErrTrap(logging.Handler):
    """ERROR records of pysyncobj.syncobj that are not the script's own ValueErrors"""

    def __init__(self):
        logging.Handler.__init__(self)
        self.bad = []

    def emit(self, record):
        try:
            et = record.exc_info[0].__name__ if record.exc_info and record.exc_info[0] else None
            if "failed _onTick" in record.getMessage() or (record.levelno >= logging.ERROR and et != "ValueError"):
                self.bad.append("%s [%s: %s]" % (record.getMessage(), et,
                                                 record.exc_info[1] if record.exc_info else ""))
        except Exception:   # noqa
            pass


def startup_round(so, parts, tmpdir, restarts, deadline):
    import os
    Net, MemTransport, Obj, conf = parts
    net = Net()

    class T(MemTransport):
        pass
    T.net = net
    events = []           # (method, time) of every execution of a replicated method body
    marks = {}

    class Store(so.SyncObj):
        # the documented pattern: SyncObj.__init__ first, then the application's own fields
        def __init__(self, journal, delay):
            marks["t0"] = now()
            super(Store, self).__init__("s0:1", [], conf(autoTick=True, journalFile=journal, raftMinTimeout=0.5,
                                                          raftMaxTimeout=0.8, appendEntriesPeriod=0.02,
                                                          autoTickPeriod=0.005, connectionTimeout=3.0),
                                        transportClass=T)
            marks["t_super"] = now()
            nap(delay)                  # set-up work of the application
            self.items = []
            marks["t_fields"] = now()

        @so.replicated
        def add(self, v):
            events.append(("add", now()))
            self.items.append(v)
            return len(self.items)

        @so.replicated
        def remove(self, v):
            events.append(("remove", now()))
            self.items.remove(v)        # ValueError when missing: on every replica, and on replay, alike

    info = {"cfg": "S", "restarts": restarts, "script": len(SCRIPT)}
    viol = []
    cov = collections.Counter()
    expected = fold_script(SCRIPT)
    journal = os.path.join(tmpdir, "startup-%d.journal" % int(now() * 1000))
    lg = logging.getLogger("pysyncobj.syncobj")
    trap = _ErrTrap()
    old_prop = lg.propagate
    lg.addHandler(trap)
    lg.propagate = False
    node = None

    def wait(cond, bound):
        t_end = min(deadline, now() + bound)
        while now() < t_end:
            if cond():
                return True
            nap(0.01)
        return cond()
    try:
        # ---- first incarnation
        node = Store(journal, 0.02)
        if not wait(node._isLeader, 20):
            info["skipped"] = "first incarnation: no leader within the bound"
            return info, viol, {}
        fired = []
        for i, (meth, v) in enumerate(SCRIPT):
            getattr(node, meth)(v, callback=lambda r, e, i=i: fired.append((i, e)))
        if not wait(lambda: len(fired) >= len(SCRIPT), 20):
            info["skipped"] = "first incarnation: %d of %d callbacks within the bound" % (len(fired), len(SCRIPT))
            return info, viol, {}
        if sorted(fired) != [(i, 0) for i in range(len(SCRIPT))]:
            viol.append(("queue.callback:not-fired-exactly-once", "first incarnation: %r" % (sorted(fired),)))
        if list(node.items) != expected:
            viol.append(("startup:state-differs-from-fold-of-log", "first incarnation holds %r, fold of the script %r"
                         % (list(node.items), expected)))
        applied_before = node.raftLastApplied
        jr = node._SyncObj__raftLog
        if not wait(lambda: jr._FileJournal__metaSaved and jr.getRaftCommitIndex() >= applied_before, 10):
            info["skipped"] = "commit index did not reach the journal's meta file within the bound"
            return info, viol, {}
        node.destroy_synchronous()
        node = None
        cov["calls"] += len(SCRIPT)
        # ---- restarts
        for k in range(restarts):
            del events[:]
            marks.clear()
            del trap.bad[:]
            delay = 0.02 + 0.005 * (k % 3)
            node = Store(journal, delay)
            ready = wait(lambda: node.raftLastApplied >= applied_before, 20)
            nap(0.05)
            got = list(getattr(node, "items", ["<no attribute items>"]))
            la = node.raftLastApplied
            node.destroy_synchronous()
            node = None
            ctor = marks["t_fields"] - marks["t0"]
            early = [m for m, t in events if t < marks["t_fields"]]
            rec = {"restart": k, "delay_ms": int(delay * 1000), "constructor_ms": round(ctor * 1000, 1),
                   "replayed_before_constructor_end": len(early), "replayed": len(events), "lastApplied": la,
                   "state": got, "expected": expected, "logged": trap.bad[:3]}
            cov["calls"] += 1
            if not ready:
                cov["restarts_not_ready_in_time"] += 1
                continue
            if got == expected and not trap.bad:
                cov["restarts_checked"] += 1
                continue
            if ctor > GRACE_OK:
                cov["restarts_timing_inconclusive"] += 1     # slower than the documented grace: says nothing
                info.setdefault("timing_inconclusive", []).append(rec)
                continue
            cov["restarts_checked"] += 1
            if got != expected:
                sig = "startup:journal-replayed-before-constructor-finished" if early else \
                    "startup:state-differs-from-fold-of-log"
                viol.append((sig, "restarted node (constructor done %.0f ms after it began, inside the 100 ms the tick "
                                  "thread grants) replayed %d of %d journal commands before `self.items = []` ran; "
                                  "lastApplied %d = before the restart %d, state %r, fold of the committed log %r; logged: %r"
                             % (ctor * 1000, len(early), len(events), la, applied_before, got, expected, trap.bad[:2])))
            elif trap.bad:
                viol.append(("startup:unexpected-exception-on-tick-thread", "%r" % (trap.bad[:3],)))
            info["failed_restart"] = rec
            break
    finally:
        if node is not None:
            try:
                node.destroy_synchronous()
            except Exception:   # noqa
                pass
        lg.removeHandler(trap)
        lg.propagate = old_prop
    if cov.get("restarts_checked", 0):
        cov["rounds_S_checked"] += 1
    return info, viol, cov


NEED = ["told_success", "told_fail_1", "sync_value", "sync_timeout", "sync_raised", "cb_fired",
        "target_follower", "rounds_A", "rounds_B", "rounds_D",
        "rounds_N_quiesced", "nested_from_raising_cb_leader", "nested_from_raising_cb_follower", "rounds_S_checked"]
NEED_C12 = ["rounds_N_quiesced", "nested_from_raising_cb_leader", "nested_from_raising_cb_follower", "rounds_S_checked"]


def run(ctx):
    so = qc.load(ctx)
    fds = qc.fd_count()
    with qc.real_runtime(so):       # genuine clock / PRNG: elections need real time to pass
        return qc.fd_audit(_run(ctx, so), fds)


def _run(ctx, so):
    t0 = now()
    parts = build(so)
    rng = ctx.rng("queue_threads")
    only_nested = ctx.pid == "C12"           # C12 needs the auto-tick family only: a few seconds
    need = NEED_C12 if only_nested else NEED
    budget = ctx.scale(10.0, 240.0)          # time spent when everything is reached early
    hard = ctx.scale(75.0, 420.0)            # bound for reaching every outcome class on a slow machine
    if only_nested:
        budget = ctx.scale(0.0, 30.0)
    res = {"cases": 0, "distinct": 0, "coverage": {}, "samples": [], "disagreements": [], "violations": []}
    cov = collections.Counter()
    old_si = sys.getswitchinterval()
    sys.setswitchinterval(1e-6)
    tmpdir = ctx.tmpdir()
    old_disable = logging.root.manager.disable      # an earlier component may have silenced logging globally:
    logging.disable(logging.NOTSET)                 # the log traps of families N and S must see ERROR records
    plan = [("N", 2, True), ("S", 3, True), ("D", 1, True), ("D", 2, False), ("N", 3, False)]
    for qsize in (1, 2, 3, 100000):
        for cfg in ("A", "B"):
            plan.append((cfg, qsize, qsize != 2))
    if only_nested:
        plan = [("N", 2, True), ("S", 3, True), ("N", 3, False)]
    try:
        rnd = 0
        while True:
            elapsed = now() - t0
            reached = all(cov.get(k, 0) > 0 for k in need)
            if elapsed >= hard or (elapsed >= budget and reached and rnd >= (len(plan) if only_nested else 1)):
                break
            cfg, qsize, batch = plan[rnd % len(plan)]
            if rnd >= len(plan):
                batch = rng.random() < 0.6
                if cfg in ("N", "S") and reached:
                    cfg, qsize = "A", 3          # one pass of the directed families is enough once their floors are met
            if not reached and elapsed >= budget and not only_nested:
                # overtime: only the configurations that still have something to contribute
                if cov.get("rounds_S_checked", 0) == 0 and rnd % 2:
                    cfg, qsize = "S", 3
                elif any(cov.get(k, 0) == 0 for k in NEED_C12[:3]):
                    cfg, qsize = "N", 2 + rnd % 2
                elif cov.get("rounds_D", 0) == 0 or any(cov.get(k, 0) == 0 for k in NEED[:6]):
                    cfg, qsize = "D", 1
                elif cov.get("target_follower", 0) == 0 or cov.get("rounds_B", 0) == 0:
                    cfg = "B"
                else:
                    cfg = "A"
            deadline = min(t0 + hard + 5, now() + 30)
            if cfg == "S":
                N, M = 1, 0
                sys.setswitchinterval(old_si)        # the start-up race is judged at the interpreter's normal pace
                try:
                    info, viol, c = startup_round(so, parts, tmpdir, qsize, deadline)
                finally:
                    sys.setswitchinterval(1e-6)
                c = collections.Counter(c)
                c["mode_startup"] = c.pop("calls", 0)
            elif cfg == "N":
                N, M = 1, 0
                info, viol, c = nested_round(so, parts, qsize, batch, deadline)
                c = collections.Counter(c)
                c["mode_nested"] = c.pop("calls", 0)
                if info.get("timed_out"):
                    cov["rounds_N_timed_out"] += 1
            elif cfg == "D":
                N, M = 1, qsize + 6
                info, viol, c = directed_round(so, parts, qsize, batch, deadline)
            else:
                N = rng.choice([2, 3, 4, 6])
                M = rng.choice([5, 10, 20])
                info, viol, c = run_round(so, parts, rng, cfg, N, M, qsize, batch, deadline)
            rnd += 1
            res["cases"] += sum(v for k, v in c.items() if k.startswith("mode_"))
            cov.update(c)
            if c:
                cov["rounds_" + cfg] += 1
                if cfg not in ("N", "S"):
                    cov["rounds_q%s" % (qsize if qsize < 10 else "big")] += 1
            if info.get("quiesced"):
                cov["rounds_quiesced"] += 1
            if info.get("skipped"):
                cov["rounds_skipped"] += 1
            if info.get("callers_stuck"):
                cov["callers_stuck"] += info["callers_stuck"]
            if len(res["samples"]) < 2:
                res["samples"].append(info)
            for sig, what in viol:
                if len(res["violations"]) < 3 and sig not in [x["signature"] for x in res["violations"]]:
                    res["violations"].append({"signature": sig, "what": what,
                                              "replay": {"kind": {"N": "threads-nested", "S": "threads-startup"}.get(cfg, "threads"),
                                                         "round": info, "seed": ctx.seed,
                                                         "note": "real-thread schedule: re-run the component with the same seed; "
                                                                 "the interleaving itself is chosen by the OS"}})
    finally:
        sys.setswitchinterval(old_si)
        logging.disable(old_disable)
    res["distinct"] = res["cases"]       # every call has its own id and its own position in a real schedule
    missed = [k for k in need if cov.get(k, 0) == 0]
    res["coverage"] = dict(cov)
    res["coverage"]["outcome_classes_not_reached"] = missed
    res["wall_s"] = round(now() - t0, 2)
    res["notes"] = "VALIDATION of the model's atomicity assumptions with real threads; not a proof"
    if res["cases"] == 0:
        res["inconclusive"] = "no round produced a single call (no leader was ever elected within %.0f s)" % hard
    elif only_nested and cov.get("rounds_N_quiesced", 0) == 0 and not res["violations"]:
        res["inconclusive"] = "no auto-tick round reached a stable state within %.0f s (nothing could be compared)" % hard
    return res


def replay(ctx, violation):
    """Re-runs the family the violation came from (the scenario of family N is fixed; the OS still picks
    the interleaving) and says whether the same signature shows again."""
    so = qc.load(ctx)
    r = violation.get("replay", {})
    if r.get("kind") == "threads-startup":
        with qc.real_runtime(so):
            info, viol, cov = startup_round(so, build(so), ctx.tmpdir(), 5, now() + 60)
        ctx.cleanup()
        same = [v for v in viol if v[0] == violation.get("signature")]
        return {"violated": bool(same), "violations": viol[:5], "round": info, "coverage": dict(cov)}
    if r.get("kind") != "threads-nested":
        return {"violated": None, "note": "free-running real-thread round: re-run `./check` with the same seed", "round": r}
    with qc.real_runtime(so):
        parts = build(so)
        old_si = sys.getswitchinterval()
        sys.setswitchinterval(1e-6)
        try:
            rd = r.get("round", {})
            info, viol, cov = nested_round(so, parts, rd.get("nodes", 2), rd.get("batch", True), now() + 40)
        finally:
            sys.setswitchinterval(old_si)
    same = [v for v in viol if v[0] == violation.get("signature")]
    return {"violated": bool(same), "violations": viol[:5], "round": info, "coverage": dict(cov)}
