"""Shared machinery of the `versions` components (C17): class-source generator, dummy transport,
node factory, state injection / extraction, abstract encoding used on the driver line protocol.

Not a component itself (no PROPERTIES line).

Private attributes of SyncObj read or written here (injection / extraction):
  _methodToID, _idToMethod, _SyncObj__selfCodeVersion, _SyncObj__enabledCodeVersion,
  _SyncObj__currentVersionFuncNames, _SyncObj__onSetCodeVersion, _SyncObj__raftLog (MemoryJournal),
  _SyncObj__raftCommitIndex, _SyncObj__raftLastApplied, _SyncObj__commandsWaitingCommit,
  _SyncObj__commandsQueue, _SyncObj__applyLogEntries, _SyncObj__tryLogCompaction,
  _SyncObj__loadDumpFile, _SyncObj__forceLogCompaction, _SyncObj__lastSerializedEntry,
  _SyncObj__conf, _SyncObj__serializer._Serializer__inMemorySerializedData.
"""
import importlib
import json
import keyword
import logging
import os
import re
import sys

# ------------------------------------------------------------------------------------------------
# importing the tree under test
# ------------------------------------------------------------------------------------------------
_loaded = {}


def load(repo):
    """Import pysyncobj from `repo` (and make sure no other copy is the one imported)."""
    repo = os.path.abspath(repo)
    if _loaded.get("repo") == repo:
        return _loaded["ns"]
    mod = sys.modules.get("pysyncobj")
    if mod is not None and not os.path.abspath(getattr(mod, "__file__", "")).startswith(repo + os.sep):
        for k in [k for k in sys.modules if k == "pysyncobj" or k.startswith("pysyncobj.")]:
            del sys.modules[k]
    if repo in sys.path:
        sys.path.remove(repo)
    sys.path.insert(0, repo)
    importlib.invalidate_caches()
    import pysyncobj
    import pysyncobj.syncobj as so
    import pysyncobj.pickle as spickle
    from pysyncobj.node import Node
    from pysyncobj.transport import Transport
    assert os.path.abspath(so.__file__).startswith(repo + os.sep), (so.__file__, repo)
    # the library logs a traceback per raising command / unsupported version: keep the check's output clean
    # (LogCapture below still sees ERROR records of pysyncobj.syncobj while it is installed)
    logging.getLogger("pysyncobj").setLevel(logging.CRITICAL)

    class DummyTransport(Transport):
        """No sockets: always ready, sends nothing."""

        def __init__(self, syncObj, selfNode, otherNodes):
            super(DummyTransport, self).__init__(syncObj, selfNode, otherNodes)
            self.sent = []

        def tryGetReady(self):
            pass

        def waitReady(self):
            pass

        @property
        def ready(self):
            return True

        def addNode(self, node):
            pass

        def dropNode(self, node):
            pass

        def send(self, node, message):
            self.sent.append((node, message))
            return False

        def destroy(self):
            pass

    ns = {"pysyncobj": pysyncobj, "so": so, "pickle": spickle, "Node": Node, "Transport": Transport,
          "DummyTransport": DummyTransport, "repo": repo}
    _loaded["repo"] = repo
    _loaded["ns"] = ns
    return ns


class Clock(object):
    """Frozen virtual clock patched into pysyncobj.syncobj.monotonicTime."""

    def __init__(self, ns, t=1000.0):
        self.t = t
        self.ns = ns
        self.orig = ns["so"].monotonicTime
        ns["so"].monotonicTime = lambda: self.t

    def restore(self):
        self.ns["so"].monotonicTime = self.orig


# ------------------------------------------------------------------------------------------------
# class specs and their Python source
# ------------------------------------------------------------------------------------------------
# spec = {"objs": [[(orig, ver, kind), ...], ...]}  index 0 = the SyncObj subclass, k+1 = consumer k
# kind in {"r", "rs"}  (replicated / replicated_sync)

NAME_POOL = ["a", "a1", "a_", "ab", "a_b", "A", "Z", "_a", "a_v", "b", "aa", "z", "a9", "a10", "f", "g",
             "B_", "_", "_9", "v", "a_v_", "é", "я", "aé", "av", "a_w"]
VER_POOL = [0, 0, 0, 1, 1, 2, 3, 9, 10, 11, 19, 20, 99, 100, 101]
_ALPH = "abAZ_19vz"


def _forbidden_names():
    from pysyncobj import SyncObj, SyncObjConsumer
    bad = set(dir(SyncObj)) | set(dir(SyncObjConsumer)) | set(keyword.kwlist)
    bad |= {"tr", "REC", "self", "x", "None", "True", "False"}
    return bad


def rand_name(rng, forbidden):
    for _ in range(100):
        if rng.random() < 0.7:
            n = rng.choice(NAME_POOL)
        else:
            n = "".join(rng.choice(_ALPH) for _ in range(rng.randint(1, 4)))
        if not n.isidentifier() or n.startswith("__") or n in forbidden:
            continue
        if n[0].isdigit():
            continue
        return n
    return "f"


def spec_ok(spec):
    """Precondition of the model: within one object no method is called like another method's
    version variant (`a_v1` next to `a` with ver=1): the decorators would overwrite one with the other."""
    for decls in spec["objs"]:
        origs = {o for o, _, _ in decls}
        variants = {"%s_v%d" % (o, v) for o, v, _ in decls}
        if origs & variants:
            return False
    return True


def gen_spec(rng, forbidden, n_consumers=None, max_methods=5, vers=None):
    if n_consumers is None:
        n_consumers = rng.choice([0, 1, 1, 2, 3])
    vers = vers or VER_POOL
    for _ in range(50):
        objs = []
        for o in range(n_consumers + 1):
            decls = []
            names = [rand_name(rng, forbidden) for _ in range(rng.randint(0 if o else 1, 3))]
            for nm in set(names):
                vs = set(rng.choice(vers) for _ in range(rng.randint(1, 3)))
                for v in vs:
                    decls.append((nm, v, rng.choice(["r", "r", "rs"])))
            rng.shuffle(decls)
            objs.append(decls[:max_methods + 2])
        spec = {"objs": objs}
        if spec_ok(spec) and any(objs):
            return spec
    return {"objs": [[("f", 0, "r")]] + [[] for _ in range(n_consumers)]}


def gen_added(rng, forbidden, old, strictly_higher=True):
    """New code = old code + added methods. With `strictly_higher` every added version exceeds every
    version of the old code (the hypothesis of the property)."""
    top = max([v for decls in old["objs"] for _, v, _ in decls] + [0])
    for _ in range(50):
        new = {"objs": [list(d) for d in old["objs"]]}
        if rng.random() < 0.25:
            new["objs"].append([])            # a new consumer appended at the end
        n_add = rng.randint(1, 4)
        for _ in range(n_add):
            o = rng.randrange(len(new["objs"]))
            existing = [nm for nm, _, _ in new["objs"][o]]
            if existing and rng.random() < 0.6:
                nm = rng.choice(existing)          # a newer version of an existing method
            else:
                nm = rand_name(rng, forbidden)     # a brand new method (must also carry a higher version)
            if strictly_higher:
                v = top + rng.choice([1, 1, 2, 9, 10, 90])
            else:
                v = rng.choice([0, top, max(top - 1, 0), top + 1])
            if (nm, v) in [(a, b) for a, b, _ in new["objs"][o]]:
                continue
            new["objs"][o].append((nm, v, rng.choice(["r", "rs"])))
        if spec_ok(new) and new != old:
            return new
    return None


def decls_of(spec):
    """[(obj, orig, ver)] deduplicated, in first-occurrence order."""
    out = []
    for o, decls in enumerate(spec["objs"]):
        for nm, v, _ in decls:
            if (o, nm, v) not in out:
                out.append((o, nm, v))
    return out


def cls_json(spec):
    return [[o, [ord(c) for c in nm], v] for o, nm, v in decls_of(spec)]


def name_json(s):
    return [ord(c) for c in s]


def name_str(l):
    return "".join(chr(c) for c in l)


def _method_src(o, nm, v, kind, rng):
    dec = "replicated" if kind == "r" else "replicated_sync"
    if v == 0 and rng.random() < 0.5:
        d = "@%s" % dec
    else:
        d = "@%s(ver=%d)" % (dec, v)
    return ("    %s\n"
            "    def %s(self, x=0):\n"
            "        REC.append(('ran', %d, %r, %d, x))\n"
            "        self.tr.append((%r, %d, x))\n"
            "        return (%d, %r, %d, x)\n") % (d, nm, o, nm, v, nm, v, o, nm, v)


def source_of(spec, rng, inherit=False):
    """Python source of the classes of `spec`. With `inherit` the methods of the object are split over a
    base class and the final class (new code written as a subclass)."""
    src = []
    objs = spec["objs"]
    d0 = list(objs[0])
    base = "SyncObj"
    if inherit and len(d0) >= 2:
        cut = rng.randint(1, len(d0) - 1)
        src.append("class Base(SyncObj):\n" + "".join(_method_src(0, nm, v, k, rng) for nm, v, k in d0[:cut]))
        d0 = d0[cut:]
        base = "Base"
    body = ("class Obj(%s):\n"
            "    def __init__(self, *a, **k):\n"
            "        super(Obj, self).__init__(*a, **k)\n"
            "        self.tr = []\n"
            "    def helper(self):\n"
            "        return 1\n"
            "    plain_attr = 5\n") % base
    body += "".join(_method_src(0, nm, v, k, rng) for nm, v, k in d0)
    src.append(body)
    for o in range(1, len(objs)):
        body = ("class C%d(SyncObjConsumer):\n"
                "    def __init__(self):\n"
                "        super(C%d, self).__init__()\n"
                "        self.tr = []\n"
                "    def helper(self):\n"
                "        return 2\n") % (o, o)
        body += "".join(_method_src(o, nm, v, k, rng) for nm, v, k in objs[o])
        src.append(body)
    return "\n".join(src)


class Built(object):
    """A live SyncObj (single node, dummy transport) made from a spec."""
    pass


class LogCapture(logging.Handler):
    def __init__(self, rec, obj=None):
        logging.Handler.__init__(self)
        self.rec = rec
        self.obj = obj

    def emit(self, record):
        try:
            msg = record.getMessage()
        except Exception:
            msg = str(record.msg)
        m = re.match(r"request to switch to unsupported code version \(self version: (\d+), requested version: (\d+)\)", msg)
        if m:
            self.rec.append(("wrongVer", int(m.group(1)), int(m.group(2))))
            return
        m = re.match(r"enabled code version is not supported \(self version: (\d+), enabled version: (\d+)\)", msg)
        if m:
            self.rec.append(("blocked", int(m.group(2)), int(m.group(1))))
            return
        if msg.startswith("replicated method raised an exception"):
            # D9 repair: exception of _idToMethod[funcID](...) caught in __doApplyCommand and returned as result;
            # it is logged while the entry at lastApplied + 1 is being applied
            exc = record.exc_info[1] if record.exc_info else None
            idx = (self.obj._SyncObj__raftLastApplied + 1) if self.obj is not None else -1
            if isinstance(exc, KeyError):
                self.rec.append(("unknownId", idx, exc.args[0]))
            else:
                self.rec.append(("raised", idx, type(exc).__name__))
            return
        if "failed to load full dump" in msg:
            self.rec.append(("loadFailed",))
            self.last_exc = logging.Formatter().formatException(record.exc_info) if record.exc_info else msg


def build(ns, spec, src, conf_kw=None, hook=None):
    """exec the source, instantiate. Returns Built with .obj, .consumers, .rec (ordered observations)."""
    from pysyncobj import SyncObj, SyncObjConf, SyncObjConsumer, replicated, replicated_sync
    rec = []
    g = {"SyncObj": SyncObj, "SyncObjConsumer": SyncObjConsumer, "replicated": replicated,
         "replicated_sync": replicated_sync, "REC": rec, "__name__": "versions_generated"}
    exec(compile(src, "<versions-generated>", "exec"), g)
    kw = dict(autoTick=False, dynamicMembershipChange=False, useFork=False)
    kw.update(conf_kw or {})
    conf = SyncObjConf(**kw)
    b = Built()

    def default_hook(old, new):
        # What the user's hook sees: getCodeVersion() and what a replicated call issued FROM THE HOOK resolves to
        # (a real call on every method of the object and of every consumer, `_applyCommand` intercepted).
        rec.append(("verChanged", old, new, b.obj.getCodeVersion(), probe_calls(b)))
    conf.onCodeVersionChanged = hook if hook is not None else default_hook
    consumers = [g["C%d" % o]() for o in range(1, len(spec["objs"]))]
    obj = g["Obj"](ns["Node"]("a"), [], conf=conf, consumers=consumers, transportClass=ns["DummyTransport"])
    b.hook_calls = 0
    b.ns, b.spec, b.src, b.obj, b.consumers, b.rec, b.conf, b.g = ns, spec, src, obj, consumers, rec, conf, g
    b.targets = [obj] + consumers
    return b


def destroy(b):
    try:
        b.obj._doDestroy()
    except Exception:
        pass
    try:
        p = getattr(b.obj, "_poller", None)
        if p is not None and hasattr(p, "close"):
            p.close()
    except Exception:
        pass


# ------------------------------------------------------------------------------------------------
# extraction
# ------------------------------------------------------------------------------------------------
def objno(b, target):
    for i, t in enumerate(b.targets):
        if t is target:
            return i
    return None


def extract_ids(b):
    """[(ver, obj, name)] in id order from _idToMethod, after checking _methodToID is its inverse."""
    obj = b.obj
    n = len(obj._idToMethod)
    assert sorted(obj._idToMethod.keys()) == list(range(n)), sorted(obj._idToMethod.keys())
    ids = []
    for i in range(n):
        m = obj._idToMethod[i]
        o = objno(b, m.__self__)
        ids.append((m.ver, o, m.__name__, m.origName))
    m2i = {}
    idmap = {id(t): i for i, t in enumerate(b.targets)}
    for k, v in obj._methodToID.items():
        if isinstance(k, tuple):
            m2i[(idmap[k[0]], k[1])] = v
        else:
            m2i[(0, k)] = v
    return ids, m2i


def extract_table(b):
    """{(obj, orig): name} from __currentVersionFuncNames."""
    idmap = {id(t): i for i, t in enumerate(b.targets)}
    out = {}
    for k, v in b.obj._SyncObj__currentVersionFuncNames.items():
        if isinstance(k, tuple):
            out[(idmap[k[0]], k[1])] = v
        else:
            out[(0, k)] = v
    return out


def call_id(b, o, orig, x=7):
    """Really call targets[o].orig(x) and return the funcID that reaches _applyCommand (None: KeyError)."""
    got = []
    so_obj = b.obj
    saved = so_obj._applyCommand
    so_obj._applyCommand = lambda command, callback, commandType=None: got.append((command, commandType))
    try:
        try:
            getattr(b.targets[o], orig)(x, callback=lambda *a: None)
        except KeyError:
            return None
    finally:
        del so_obj._applyCommand
        assert so_obj._applyCommand == saved
    assert len(got) == 1 and got[0][1] == 0, got
    cmd = b.ns["pickle"].loads(got[0][0])
    return cmd[0] if isinstance(cmd, tuple) else cmd


# ------------------------------------------------------------------------------------------------
# log entries
# ------------------------------------------------------------------------------------------------
def enc_cmd(ns, cmd, rng=None):
    """abstract command (as on the driver protocol) -> bytes of a log entry"""
    pk = ns["pickle"]
    k = cmd[0]
    if k == "noop":
        return b"\x01"
    if k == "mem":
        return b"\x02" + pk.dumps(["rem", "zz-not-a-member", ns["Node"]("zz-not-a-member")])
    if k == "ver":
        return b"\x03" + pk.dumps(cmd[1])
    if k == "reg":
        fmt = rng.randrange(3) if rng is not None else 0
        if fmt == 0:
            return b"\x00" + pk.dumps((cmd[1], (cmd[2],)))
        if fmt == 1:
            return b"\x00" + pk.dumps((cmd[1], (), {"x": cmd[2]}))
        return b"\x00" + pk.dumps((cmd[1], (cmd[2],), {}))
    if k == "other":
        return bytes([cmd[1]]) + b"payload"
    raise ValueError(cmd)


def dec_cmd(ns, raw):
    pk = ns["pickle"]
    t = raw[0]
    if t == 1:
        return ["noop"]
    if t == 2:
        return ["mem"]
    if t == 3:
        return ["ver", pk.loads(raw[1:])]
    if t == 0:
        c = pk.loads(raw[1:])
        if not isinstance(c, tuple):
            return ["reg", c, 0]
        if len(c) == 2:
            return ["reg", c[0], c[1][0] if c[1] else 0]
        return ["reg", c[0], c[1][0] if c[1] else c[2].get("x", 0)]
    return ["other", t]


def inject(b, state, rng=None):
    """state: dict(enabled, tableVer, lastApplied, commit, log=[[cmd, idx, term]...], waiting=[[idx, [[term, cb]...]]...])"""
    o = b.obj
    ns = b.ns
    lg = o._SyncObj__raftLog
    lg.clear()
    for cmd, idx, term in state["log"]:
        lg.add(enc_cmd(ns, cmd, rng), idx, term)
    o._SyncObj__raftCommitIndex = state["commit"]
    o._SyncObj__raftLastApplied = state["lastApplied"]
    o._SyncObj__enabledCodeVersion = state["enabled"]
    o._SyncObj__onSetCodeVersion(state["tableVer"])
    w = o._SyncObj__commandsWaitingCommit
    w.clear()
    for idx, subs in state["waiting"]:
        for term, cb in subs:
            w[idx].append((term, make_cb(b, cb)))


def probe_calls(b):
    """One REAL replicated call per method of the object and of every consumer, made from where we are (a version hook,
    a callback fired inside a dump load): [(obj, orig, _getFuncName or None, funcID or None)]."""
    probe = []
    for (o, orig) in sorted({(o, nm) for o, nm, _ in decls_of(b.spec)}):
        key = orig if o == 0 else (id(b.targets[o]), orig)
        try:
            fn = b.obj._getFuncName(key)
        except KeyError:
            fn = None
        cid = call_id(b, o, orig)
        b.hook_calls += 1
        probe.append((o, orig, fn, cid))
    return probe


def make_cb(b, cbid):
    def cb(res, err):
        if err == 5 and res is None:
            # (None, LEADER_CHANGED): fired inside __loadDumpFile for a command the dump covers; record what a command
            # re-submitted from this callback would resolve to
            b.rec.append(("cbOpen", cbid, b.obj.getCodeVersion(), probe_calls(b)))
            return
        b.rec.append(("cb", cbid, res, err))
    cb.cbid = cbid
    return cb


def append_entries(b, entries, rng=None):
    lg = b.obj._SyncObj__raftLog
    for cmd, idx, term in entries:
        lg.add(enc_cmd(b.ns, cmd, rng), idx, term)


def extract_state(b):
    o = b.obj
    lg = o._SyncObj__raftLog
    log = [[dec_cmd(b.ns, e[0]), e[1], e[2]] for e in lg[:]]
    waiting = []
    for idx, subs in o._SyncObj__commandsWaitingCommit.items():
        waiting.append([idx, [[t, getattr(cb, "cbid", -1)] for t, cb in subs]])
    return {"enabled": o._SyncObj__enabledCodeVersion, "lastApplied": o._SyncObj__raftLastApplied,
            "commit": o._SyncObj__raftCommitIndex, "selfVer": o._SyncObj__selfCodeVersion,
            "log": log, "waiting": sorted(waiting), "table": extract_table(b)}


def canon_model_state(st):
    """driver STATE -> same shape as extract_state (table as dict (obj, orig) -> name)"""
    tab = {}
    for o, orig, nm, _cid in st["table"]:
        tab[(o, name_str(orig))] = name_str(nm)
    return {"enabled": st["enabled"], "lastApplied": st["lastApplied"], "commit": st["commit"],
            "selfVer": st["selfVer"], "log": st["log"], "waiting": sorted(st["waiting"]), "table": tab}


def canon_real_events(b, rec, arg2idx):
    """ordered observations of the real run -> the driver's event vocabulary"""
    out = []
    for r in rec:
        if r[0] == "ran":
            _, o, orig, v, x = r
            out.append(["ran", arg2idx.get(x, -1), [v, o, name_json("%s_v%d" % (orig, v))], x])
        elif r[0] == "cb":
            _, cbid, res, err = r
            if err == 5 and res is None:
                out.append(["cbOpen", cbid])             # (None, FAIL_REASON.LEADER_CHANGED): D61
            elif err not in (0, 3):
                out.append(["cb?", cbid, repr(res), err])  # a reason the model does not know: shows up as a diff
            elif res is None:
                out.append(["cb", cbid, None, err == 0])
            elif isinstance(res, KeyError):
                out.append(["cb", cbid, ["keyError", res.args[0]], err == 0])
            elif isinstance(res, Exception) and re.match(r"wrong version, enabled version is (\d+), requested version is (\d+)$", str(res)):
                m = re.match(r"wrong version, enabled version is (\d+), requested version is (\d+)$", str(res))
                out.append(["cb", cbid, ["lowerVersion", int(m.group(1)), int(m.group(2))], err == 0])   # D71
            elif isinstance(res, BaseException):
                out.append(["cb", cbid, ["raised", type(res).__name__], err == 0])
            else:
                o, orig, v, x = res
                out.append(["cb", cbid, [[v, o, name_json("%s_v%d" % (orig, v))], x], err == 0])
        elif r[0] == "cbOpen":
            _, cbid, seen, probe = r
            tab = sorted([o, name_json(orig), name_json(fn), cid] for o, orig, fn, cid in probe if fn is not None)
            out.append(["cbOpen", cbid, seen, tab])
        elif r[0] == "verChanged" and len(r) == 5:
            _, old, new, seen, probe = r
            tab = sorted([o, name_json(orig), name_json(fn), cid] for o, orig, fn, cid in probe if fn is not None)
            # a key with a name but no id / an id without a name cannot be expressed by the model: shows as a diff
            out.append(["verChanged", old, new, seen, tab])
        elif r[0] in ("verChanged", "wrongVer", "blocked", "unknownId"):
            out.append(list(r))
        else:
            out.append(list(r))
    return out


def apply_real(b, arg2idx):
    """Call the real __applyLogEntries once; returns the canonical event list."""
    del b.rec[:]
    o = b.obj
    o._SyncObj__applyLogEntries()       # nothing may escape: an unknown id is logged and returned as result (D9)
    ev = canon_real_events(b, list(b.rec), arg2idx)
    del b.rec[:]
    return ev


def install_log_capture(b):
    h = LogCapture(b.rec, b.obj)
    lg = logging.getLogger("pysyncobj.syncobj")
    lg.addHandler(h)
    lg.propagate = False
    old = lg.level
    lg.setLevel(logging.ERROR)
    return (lg, h, old)


def remove_log_capture(tok):
    lg, h, old = tok
    lg.removeHandler(h)
    lg.setLevel(old)
    lg.propagate = True


def jdump(x):
    return json.dumps(x, separators=(",", ":"), sort_keys=True)


# property oracle written against the statement (never against the model) -------------------------
def expected_impl_version(spec, o, orig, enabled):
    """newest implementation of targets[o].orig whose version is not above `enabled` (None if none)"""
    vs = [v for nm, v, _ in spec["objs"][o] if nm == orig and v <= enabled]
    return max(vs) if vs else None
