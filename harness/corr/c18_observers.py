"""C18 property monitor on REAL clusters: read-only nodes (started without an own address) joining, leaving and
re-joining, 0-3 of them, next to 2-5 voters, under harness/sim.py.

Scenario kinds
* `churn`    : normal operation with commands from voters and observers while observers connect/disconnect at
               seeded times; at the end every observer is connected again and the run settles.
* `minority` : the leader keeps its observers (which acknowledge everything at once) but loses so many voters
               that the voters it still reaches plus itself are no majority; commands submitted now must never
               commit, the leader must step down after leaderFallbackTimeout, and nobody on that side may win
               an election — however many observers are connected.

Monitors (property statement, observations only)
* observer:became-candidate-or-leader — an observer's `_isLeader()` is never true, its state-change callback
                                        never fires
* observer:sent-vote-traffic          — no `request_vote` / `response_vote` is ever sent by an observer
* observer:counted-in-majority        — in `minority`: commit index of the cut-off leader does not pass the
                                        entries submitted after the cut, none of them is acknowledged with
                                        SUCCESS, no node of that side is leader after T + election time
* observer:not-converged              — in `churn`: after settling, each connected observer holds the same
                                        object state and applied index as the leader
* observer:forwarded-callback         — a command submitted through an observer gets at most one callback, and
                                        when it is SUCCESS the command is in the common state exactly once
"""
import hashlib
import json
import logging
import time

from harness import sim as simmod

PROPERTIES = ["C18"]
ORDER = 60


def _alive_run(s, steps, dt=0.0625, among=None):
    ids = among if among is not None else [i for i in s.voters + s.observers if i in s.objs]
    for _ in range(steps):
        for i in ids:
            s.tick(i, dt)
        s.deliver_all(among=set(ids))


def _observer_checks(s, viol):
    for o in s.observers:
        if s.objs[o]._isLeader():
            viol.append({"signature": "observer:became-candidate-or-leader", "what": "observer %s reports itself leader" % o})
    for (node, term, old, new) in s.state_changes:
        if node in s.observers:
            viol.append({"signature": "observer:became-candidate-or-leader",
                         "what": "observer %s changed state %r -> %r" % (node, old, new)})
            break
    for (a, b, m) in s.sent:
        if a in s.observers and m.get("type") in ("request_vote", "response_vote"):
            viol.append({"signature": "observer:sent-vote-traffic", "what": "observer %s sent %s to %s" % (a, m.get("type"), b)})
            break


def churn(ctx, p):
    rng = __import__("random").Random(p["seed"])
    voters = ["v%d" % k for k in range(p["nv"])]
    obs = ["o%d" % k for k in range(p["no"])]
    s = simmod.Sim(ctx.repo, voters, observers=obs, seed=p["seed"])
    s.connect_all()
    viol = []
    ldr = s.elect(among=voters)
    if ldr is None:
        return {"viol": [], "skipped": True}
    _alive_run(s, 4)
    subs = {}
    x = 5000
    conn = dict(((o, v), True) for o in obs for v in voters)
    for step in range(p["steps"]):
        r = rng.random()
        if r < 0.35:
            x += 1
            tgt = rng.choice(voters + obs + obs) if obs else rng.choice(voters)
            subs[s.submit(tgt, x, method="boom" if rng.random() < 0.15 else "add")] = (x, tgt)
        elif r < 0.6 and obs:
            o, v = rng.choice(obs), rng.choice(voters)
            if conn[(o, v)]:
                (s.disconnect if rng.random() < 0.7 else s.cut)(o, v)
                if rng.random() < 0.5:
                    s.notice(v, o)
                    s.notice(o, v)
                conn[(o, v)] = False
            else:
                s.notice(v, o)
                s.notice(o, v)
                s.connect(o, v)
                conn[(o, v)] = True
        else:
            _alive_run(s, rng.choice([1, 2, 4]))
        _observer_checks(s, viol)
        if viol:
            break
    for (o, v), up in conn.items():
        if not up:
            s.notice(v, o)
            s.notice(o, v)
            s.connect(o, v)
    _alive_run(s, 64)
    l2 = s.elect(among=voters)
    _alive_run(s, 32)
    _observer_checks(s, viol)
    if l2 is not None:
        ref = list(s.objs[l2].log)
        la = s.objs[l2].raftLastApplied
        for o in obs:
            if list(s.objs[o].log) != ref or s.objs[o].raftLastApplied != la:
                viol.append({"signature": "observer:not-converged",
                             "what": "observer %s applied %d state %r; leader %s applied %d state %r"
                                     % (o, s.objs[o].raftLastApplied, list(s.objs[o].log)[-5:], l2, la, ref[-5:])})
                break
        fired = {}
        for (node, cid, res, err) in s.callbacks:
            fired.setdefault(cid, []).append((res, err))
        for cid, (val, tgt) in subs.items():
            if tgt not in obs:
                continue
            f = fired.get(cid, [])
            if len(f) > 1:        # (a forwarded command whose connection was cut may get no callback: C02's business)
                viol.append({"signature": "observer:forwarded-callback", "what": "command %r via %s: %d callbacks" % (val, tgt, len(f))})
            if len(f) == 1 and f[0][1] == 0:
                cnt = sum(1 for it in ref if it == val or it == ("boom", val))
                if cnt != 1:
                    viol.append({"signature": "observer:forwarded-callback",
                                 "what": "command %r via %s reported SUCCESS but occurs %d times in the state" % (val, tgt, cnt)})
    if s.errors:
        viol.append({"signature": "tick:exception-escapes", "what": "%s %s on %s" % (s.errors[0][1], s.errors[0][2], s.errors[0][0])})
    via_obs = [cid for cid, (v, t) in subs.items() if t in obs]
    ok_obs = sum(1 for (n_, cid, res, err) in s.callbacks if cid in via_obs and err == 0)
    return {"viol": viol, "obs_success": ok_obs, "applied": 0 if l2 is None else s.objs[l2].raftLastApplied}


def minority(ctx, p):
    voters = ["v%d" % k for k in range(p["nv"])]
    obs = ["o%d" % k for k in range(p["no"])]
    T = p["T"]
    s = simmod.Sim(ctx.repo, voters, observers=obs, conf=dict(leaderFallbackTimeout=T), seed=p["seed"])
    s.connect_all()
    viol = []
    ldr = s.elect(among=voters)
    if ldr is None:
        return {"viol": [], "skipped": True}
    s.submit(ldr, 1)
    _alive_run(s, 8)
    need = p["nv"] // 2 + 1
    others = [v for v in voters if v != ldr]
    keep = others[:min(p["keep"], max(need - 2, 0))]
    gone = [v for v in others if v not in keep]
    for a in [ldr] + keep + obs:
        for g in gone:
            if a in obs:
                s.disconnect(a, g)
            else:
                s.cut(a, g)
    base_commit = s.objs[ldr].raftCommitIndex
    cids = [s.submit(ldr, 700 + k) for k in range(3)]
    side = [ldr] + keep + obs
    steps = int((T + 4.0) / 0.0625)
    for k in range(steps):
        for i in side:
            s.tick(i, 0.0625)
        s.deliver_all(among=set(side))
        c = s.objs[ldr].raftCommitIndex
        if c > base_commit and s.objs[ldr]._isLeader():
            viol.append({"signature": "observer:counted-in-majority",
                         "what": "leader %s with %d of %d voters reachable (+%d observers) advanced commit %d -> %d"
                                 % (ldr, 1 + len(keep), p["nv"], len(obs), base_commit, c)})
            break
        _observer_checks(s, viol)
        if viol:
            break
    for (node, cid, res, err) in s.callbacks:
        if cid in cids and err == 0:
            viol.append({"signature": "observer:counted-in-majority",
                         "what": "command submitted after the voters were lost reported SUCCESS (result %r)" % (res,)})
            break
    leaders = [i for i in [ldr] + keep if s.objs[i]._isLeader()]
    if leaders:
        viol.append({"signature": "observer:counted-in-majority",
                     "what": "%r still/again leader %.2f s after losing the voter majority (T=%r, %d observers connected)"
                             % (leaders, steps * 0.0625, T, len(obs))})
    if s.errors:
        viol.append({"signature": "tick:exception-escapes", "what": "%s %s on %s" % (s.errors[0][1], s.errors[0][2], s.errors[0][0])})
    acks = sum(1 for (a, b, m) in s.sent if a in obs and m.get("type") == "next_node_idx" and b == ldr)
    return {"viol": viol, "observer_acks": acks, "stepped_down": not s.objs[ldr]._isLeader()}


def releader(ctx, p):
    """An observer that talks to ONE voter only; that voter leads, is cut off with the observer (which receives entries
    that never commit), loses the leadership, gets its log repaired by the new leader and is elected AGAIN while the
    observer has been on the same connection all the time: the observer must converge (its stale tail is replaced)."""
    voters = ["v%d" % k for k in range(3)]
    obs = ["o0"]
    s = simmod.Sim(ctx.repo, voters, observers=obs, conf=dict(leaderFallbackTimeout=p["T"],
                                                              appendEntriesBatchSizeBytes=p.get("B", 65536)), seed=p["seed"])
    s.connect_all()
    viol = []
    ldr = s.elect(among=voters)
    if ldr is None:
        return {"viol": [], "skipped": True}
    n2, n3 = [v for v in voters if v != ldr]
    s.disconnect("o0", n2)
    s.disconnect("o0", n3)
    for k in range(3):
        s.submit(ldr, 10 + k)
    _alive_run(s, 8)
    s.cut(ldr, n2)
    s.cut(ldr, n3)
    for k in range(p["stale"]):
        s.submit(ldr, 100 + k)            # reach the observer only
    _alive_run(s, 6, among=[ldr, "o0"])
    stale_end = s.last_index("o0")
    l2 = None
    for _ in range(400):
        _alive_run(s, 1, among=[n2, n3])
        _alive_run(s, 1, among=[ldr, "o0"])
        l2 = s.leader([n2, n3])
        if l2 is not None and not s.objs[ldr]._isLeader():
            break
    if l2 is None or s.objs[ldr]._isLeader():
        return {"viol": [], "skipped": True, "why": "no second leader"}
    for k in range(p["fresh"]):
        s.submit(l2, 200 + k)
    _alive_run(s, 8, among=[n2, n3])
    s.notice(ldr, n2)
    s.notice(ldr, n3)
    s.connect(ldr, n2)
    s.connect(ldr, n3)
    # ldr's stale tail is replaced by whoever leads the reunited voters; the observer still only reaches ldr
    cur = None
    for _ in range(600):
        _alive_run(s, 1, among=voters + obs)
        cur = s.leader(voters)
        if cur is not None and len(set(s.last_index(v) for v in voters)) == 1 and \
                all(s.objs[v].raftCommitIndex == s.objs[cur].raftCommitIndex for v in voters):
            break
    if cur is None:
        return {"viol": [], "skipped": True, "why": "voters did not settle after the reunion"}
    again = cur == ldr
    if not again:
        other = [v for v in voters if v not in (ldr, cur)][0]
        s.disconnect(cur, ldr)
        s.disconnect(cur, other)
        # ldr times out first and is elected by `other`
        for _ in range(60):
            s.tick(ldr, 1.6)
            while s.deliver(ldr, other):
                pass
            while s.deliver(other, ldr):
                pass
            if s.objs[ldr]._isLeader():
                again = True
                break
    else:
        other = n2
    if not again:
        return {"viol": [], "skipped": True, "why": "first leader not elected again"}
    s.submit(ldr, 300)
    steps = int(p.get("settle", 30.0) / 0.0625)
    _alive_run(s, steps, among=[v for v in voters if (v, ldr) in s.up or v == ldr] + ["o0"])
    _observer_checks(s, viol)
    lo, oo = s.objs[ldr], s.objs["o0"]
    if oo.raftLastApplied != lo.raftLastApplied or list(oo.log) != list(lo.log):
        viol.append({"signature": "observer:not-converged",
                     "what": "observer o0 stayed on one connection to %s, which led, lost (stale tail up to index %d on the observer) "
                             "and regained the leadership: after %.0f s the leader has applied %d (state %r), the observer %d (state %r, log end %d)"
                             % (ldr, stale_end, steps * 0.0625, lo.raftLastApplied, list(lo.log)[-4:], oo.raftLastApplied,
                                list(oo.log)[-4:], s.last_index("o0"))})
    if s.errors:
        viol.append({"signature": "tick:exception-escapes", "what": "%s %s on %s" % (s.errors[0][1], s.errors[0][2], s.errors[0][0])})
    return {"viol": viol, "stale_tail": stale_end > lo.raftLastApplied - 1 or p["stale"] > 0}


def rejoin_conflict(ctx, p):
    """A read-only node followed a partitioned old leader that kept appending (a conflicting suffix of several batches),
    then joins a leader that is already in office: it must converge (the leader has to walk back, one probing batch at
    a time)."""
    voters = ["v%d" % k for k in range(3)]
    s = simmod.Sim(ctx.repo, voters, observers=["o0"],
                   conf=dict(leaderFallbackTimeout=30.0, appendEntriesBatchSizeBytes=p.get("B", 64)), seed=p["seed"])
    s.connect_all()
    viol = []
    ldr = s.elect(among=voters)
    if ldr is None:
        return {"viol": [], "skipped": True}
    n2, n3 = [v for v in voters if v != ldr]
    s.disconnect("o0", n2)
    s.disconnect("o0", n3)
    s.submit(ldr, 1)
    _alive_run(s, 8)
    s.cut(ldr, n2)
    s.cut(ldr, n3)
    for k in range(p["stale"]):
        s.submit(ldr, 100 + k)                # reach the observer only; each entry ~ one batch
    _alive_run(s, 8, among=[ldr, "o0"])
    l2 = None
    for _ in range(400):
        _alive_run(s, 1, among=[n2, n3])
        l2 = s.leader([n2, n3])
        if l2 is not None:
            break
    if l2 is None:
        return {"viol": [], "skipped": True, "why": "no second leader"}
    for k in range(p["fresh"]):
        s.submit(l2, 200 + k)
    _alive_run(s, 10, among=[n2, n3])
    if p.get("compact"):
        # the voters in office compact their logs: the observer can only be caught up by a snapshot whose last index
        # lies where it holds a stale, uncommitted entry of the old leader's term
        for v in (n2, n3):
            s.compact(v)
        _alive_run(s, 4, among=[n2, n3])
    # the observer leaves the old leader and joins the leader in office
    s.disconnect("o0", ldr)
    s.connect("o0", l2)
    steps = int(p.get("settle", 30.0) / 0.0625)
    other = n3 if l2 == n2 else n2
    _alive_run(s, steps, among=[l2, other, "o0"])
    _observer_checks(s, viol)
    lo, oo = s.objs[l2], s.objs["o0"]
    if oo.raftLastApplied != lo.raftLastApplied or list(oo.log) != list(lo.log):
        viol.append({"signature": "observer:not-converged",
                     "what": "observer o0 held %d uncommitted entries of the cut-off leader %s and joined leader %s (in office): after "
                             "%.0f s the leader has applied %d (state %r), the observer %d (state %r, log end %d)"
                             % (p["stale"], ldr, l2, steps * 0.0625, lo.raftLastApplied, list(lo.log)[-3:], oo.raftLastApplied,
                                list(oo.log)[-3:], s.last_index("o0"))})
    if s.errors:
        viol.append({"signature": "tick:exception-escapes", "what": "%s %s on %s" % (s.errors[0][1], s.errors[0][2], s.errors[0][0])})
    return {"viol": viol}


def slow_catchup(ctx, p):
    """Sending takes time: every message that carries entries costs the sender `cost` seconds.  A read-only node with a
    large backlog joins late and is served BEFORE the voters (iteration order of the node set): its catch-up may use up
    the send budget of a pass, but every voter still gets its message in every pass — no voter times out, the leader
    stays."""
    voters = ["v%d" % k for k in range(3)]
    s = simmod.Sim(ctx.repo, voters, observers=[p["obs"]],
                   conf=dict(appendEntriesBatchSizeBytes=64, leaderFallbackTimeout=30.0), seed=p["seed"])
    for n, a in enumerate(voters):
        for b in voters[n + 1:]:
            s.connect(a, b)
    viol = []
    ldr = s.elect(among=voters)
    if ldr is None:
        return {"viol": [], "skipped": True}
    for k in range(p["backlog"]):
        s.submit(ldr, "w%d" % k + "x" * 40)
        if k % 10 == 9:
            _alive_run(s, 1, among=voters)
    _alive_run(s, 10, among=voters)
    orig = s._send
    cost = p["cost"]

    def send(a, b, msg):
        if msg.get("type") == "append_entries" and (msg.get("entries") or msg.get("transmission")):
            s.now[a] += cost
        return orig(a, b, msg)
    s._send = send
    term0 = s.objs[ldr].raftCurrentTerm
    n_changes0 = len(s.state_changes)
    for v in voters:
        s.connect(p["obs"], v)
    # is the observer iterated before some voter at the leader?  (coverage only)
    order = [n.id for n in (s.P(ldr, "otherNodes") | s.P(ldr, "readonlyNodes"))]
    first = order and order.index(p["obs"]) < max(order.index(v) for v in voters if v != ldr)
    steps = int(p.get("settle", 12.0) / 0.0625)
    for _ in range(steps):
        for i in voters + [p["obs"]]:
            s.tick(i, 0.0625)
        s.deliver_all()
    s._send = orig
    changes = [c for c in s.state_changes[n_changes0:] if c[0] in voters]
    terms = [s.objs[v].raftCurrentTerm for v in voters]
    if changes or max(terms) != term0:
        viol.append({"signature": "observer:catch-up-disturbs-voters",
                     "what": "while read-only node %s (backlog %d entries, %.3f s per sending message, served %s the voters) caught up: "
                             "voter state changes %s, term %d -> %s, leader now %s"
                             % (p["obs"], p["backlog"], cost, "before" if first else "after", changes[:4], term0, terms,
                                s.leader(voters))})
    _observer_checks(s, viol)
    oo, lo = s.objs[p["obs"]], s.objs[ldr]
    return {"viol": viol, "served_first": bool(first), "caught_up": oo.raftLastApplied == lo.raftLastApplied}


def learn_voter_by_snapshot(ctx, p):
    """A read-only node must dial every voter itself.  A voter that joined the cluster while the read-only node was away,
    and whose `add` entry has been compacted away since, is learnt from the SNAPSHOT only: the read-only node's member
    set and its transport (the nodes it dials) both take it over; it then follows the state of the grown cluster."""
    voters = ["a", "b", "c"]
    s = simmod.Sim(ctx.repo, voters, observers=["o"], conf=dict(dynamicMembershipChange=True), seed=p["seed"])
    for n, a in enumerate(voters):
        for b in voters[n + 1:]:
            s.connect(a, b)
    viol = []
    ldr = s.elect(among=voters)
    if ldr is None:
        return {"viol": [], "skipped": True}
    _alive_run(s, 6, among=voters)
    res = []
    s._call(ldr, s.objs[ldr].addNodeToCluster, s.Node("d"), callback=lambda r, e: res.append(e))
    _alive_run(s, 12, among=voters)
    s.now["d"] = max(s.now.values())
    s.voters.append("d")
    s._start("d", others=voters)
    for v in voters:
        s.connect("d", v)
    for k in range(p["cmds"]):
        s.submit(ldr, "m%d" % k)
    _alive_run(s, 16, among=voters + ["d"])
    for v in voters + ["d"]:
        s.compact(v)
    _alive_run(s, 6, among=voters + ["d"])
    if 0 not in res or s.log_of(ldr)[0][0] <= 2:
        return {"viol": [], "skipped": True}
    for v in voters:                          # the read-only node knows a, b, c only
        s.connect("o", v)
    _alive_run(s, 30, among=voters + ["d", "o"])
    o = s.objs["o"]
    members = sorted(n.id for n in s.P("o", "otherNodes"))
    dialled = sorted(n.id for n in s.transports["o"].nodes)
    if "d" not in members or "d" not in dialled:
        viol.append({"signature": "observer:voter-learnt-by-snapshot-not-dialled",
                     "what": "voter d joined while read-only node o was away, its add entry was compacted away (leader log starts at %d): "
                             "after catching up by snapshot o knows the voters %s, its transport was told to dial %s"
                             % (s.log_of(ldr)[0][0], members, dialled)})
    if o.raftLastApplied != s.objs[ldr].raftLastApplied or list(o.log) != list(s.objs[ldr].log):
        viol.append({"signature": "observer:not-converged-after-snapshot",
                     "what": "read-only node applied %d, leader %d" % (o.raftLastApplied, s.objs[ldr].raftLastApplied)})
    _observer_checks(s, viol)
    return {"viol": viol}


def gen(ctx):
    rng = ctx.rng("c18_observers")
    out = []
    for nv in (2, 3, 4, 5):
        for no in (0, 1, 2, 3):
            out.append({"kind": "minority", "nv": nv, "no": no, "keep": 0, "T": 0.5, "seed": 7})
            if nv >= 4:
                out.append({"kind": "minority", "nv": nv, "no": no, "keep": 1, "T": 1.0, "seed": 8})
            out.append({"kind": "churn", "nv": nv, "no": no, "steps": 30, "seed": 11 + no})
    for stale in (4, 9):
        out.append({"kind": "rejoin_conflict", "nv": 3, "no": 1, "stale": stale, "fresh": 12, "B": 64, "seed": 41 + stale})
    for (stale, fresh) in ((3, 2), (3, 1), (6, 3), (6, 5), (9, 4)):
        out.append({"kind": "rejoin_conflict", "nv": 3, "no": 1, "stale": stale, "fresh": fresh, "B": 65536, "compact": True,
                    "seed": 61 + stale + fresh})
    for obs in ("a0", "o0", "w0", "zz"):          # ids that sort / hash before and after the voters' ids
        out.append({"kind": "slow_catchup", "nv": 3, "no": 1, "obs": obs, "backlog": 300, "cost": 0.02, "settle": 20.0, "seed": 51})
    for cmds in (5, 12):
        out.append({"kind": "learn_voter_by_snapshot", "nv": 3, "no": 1, "cmds": cmds, "seed": 71 + cmds})
    for stale in (10, 3, 0):
        for fresh in (2, 5):
            out.append({"kind": "releader", "nv": 3, "no": 1, "T": 0.5, "stale": stale, "fresh": fresh, "seed": 21 + stale})
    for _ in range(ctx.scale(500, 20000)):
        if rng.random() < 0.4:
            out.append({"kind": "minority", "nv": rng.choice([2, 3, 4, 5]), "no": rng.choice([1, 2, 3]), "keep": rng.choice([0, 1]),
                        "T": rng.choice([0.25, 0.5, 1.0, 2.0]), "seed": rng.randrange(10 ** 6)})
        else:
            out.append({"kind": "churn", "nv": rng.choice([1, 2, 3, 3, 4, 5]), "no": rng.choice([1, 2, 3]),
                        "steps": rng.randint(10, 60), "seed": rng.randrange(10 ** 6)})
    return out


KINDS = {"minority": minority, "churn": churn, "releader": releader, "rejoin_conflict": rejoin_conflict,
         "slow_catchup": slow_catchup, "learn_voter_by_snapshot": learn_voter_by_snapshot}


def run(ctx):
    logging.getLogger().setLevel(logging.CRITICAL + 1)
    t0 = time.time()
    viols = []
    cov = {"learn_voter_by_snapshot": 0, "churn": 0, "minority": 0, "releader": 0, "rejoin_conflict": 0, "slow_catchup": 0, "observer_acks_in_minority": 0, "minority_stepdowns": 0, "commands_via_observer_success": 0,
           "skipped": 0, "by_observers": {}}
    distinct = set()
    ps = gen(ctx)
    done = 0
    for p in ps:
        if time.time() - t0 > ctx.budget_s * 0.6:
            break
        r = KINDS[p["kind"]](ctx, p)
        done += 1
        if r.get("skipped"):
            cov["skipped"] += 1
            continue
        cov[p["kind"]] += 1
        cov["by_observers"][str(p["no"])] = cov["by_observers"].get(str(p["no"]), 0) + 1
        if p["kind"] == "minority":
            cov["observer_acks_in_minority"] += r["observer_acks"]
            cov["minority_stepdowns"] += 1 if r["stepped_down"] else 0
        elif p["kind"] in ("releader", "rejoin_conflict", "learn_voter_by_snapshot"):
            pass
        elif p["kind"] == "slow_catchup":
            cov["slow_catchup_served_first"] = cov.get("slow_catchup_served_first", 0) + (1 if r.get("served_first") else 0)
        else:
            cov["commands_via_observer_success"] += r["obs_success"]
        distinct.add(hashlib.sha1(json.dumps(p, sort_keys=True).encode()).hexdigest())
        for v in r["viol"]:
            if v["signature"] not in [x["signature"] for x in viols]:
                v["replay"] = {"params": p}
                viols.append(v)
    res = {"cases": done, "distinct": len(distinct), "coverage": cov, "samples": ps[:2], "disagreements": [],
           "violations": viols[:6], "wall_s": round(time.time() - t0, 2)}
    if cov["rejoin_conflict"] < 1 or cov.get("slow_catchup_served_first", 0) < 1:
        res["inconclusive"] = "observer joining a leader in office with a conflicting suffix / served before the voters not reached: %r" % (cov,)
    elif cov["learn_voter_by_snapshot"] < 1:
        res["inconclusive"] = "read-only node learning a voter from a snapshot not reached: %r" % (cov,)
    elif cov["releader"] < 2:
        res["inconclusive"] = "re-elected leader with an observer on the same connection not reached: %r" % (cov,)
    elif cov["churn"] < 10 or cov["minority"] < 10 or cov["observer_acks_in_minority"] < 20 or cov["commands_via_observer_success"] < 5:
        res["inconclusive"] = "too little exercised: %r" % (cov,)
    return res


def replay(ctx, violation):
    p = violation["replay"]["params"]
    r = KINDS[p["kind"]](ctx, p)
    return {"violated": any(v["signature"] == violation["signature"] for v in r.get("viol", [])), "violations": r.get("viol", [])[:6]}
