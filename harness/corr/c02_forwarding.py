"""Directed schedules for forwarded commands across a leader change (C02 / C19).

A follower forwards a command to leader L1; L1's `apply_command_response` is delayed on the L1→F link;
leadership moves to P; the follower forwards a second command to P; then the stale response of L1
arrives.  The callback contract must hold for both submissions: the first is told LEADER_CHANGED (or
nothing), the second gets SUCCESS with the result of ITS OWN command, nothing fires twice, nothing that
was reported as a definite failure is applied.  Variants: with/without the first entry surviving, stale
response before/after the new leader's response, several forwarded commands in flight.

These are property monitors on the REAL code (harness/sim.py); there is no model diff in this
component.  Signatures come from harness/monitors.py (`callback:*`).
"""
import time

from harness.sim import Sim
from harness import monitors

PROPERTIES = ["C02", "C19", "C18", "C16", "C12"]
ORDER = 30


def scenario(repo, seed, n_first=1, stale_first=True, replicate_first=True, batch=True, mid_election=False):
    sim = Sim(repo, ["a", "b", "c"], seed=seed, conf={"appendEntriesUseBatch": batch})
    sim.connect_all()
    L1 = sim.elect()
    if L1 is None:
        return sim, [], "no leader"
    F, P = [i for i in sim.voters if i != L1]
    sim.run(4)
    # 1. F forwards n_first commands to L1
    first = [sim.submit(F, "A%d" % k) for k in range(n_first)]
    sim.tick(F, 0.0625)
    while sim.deliver(F, L1):
        pass
    sim.tick(L1, 0.0625)            # L1 appends, answers F (held on L1->F), sends to P on this/next tick
    sim.tick(L1, 0.125)
    if replicate_first:
        while sim.deliver(L1, P):   # P holds the entries (uncommitted)
            pass
    held = list(sim.chan[(L1, F)])
    sim.chan[(L1, F)].clear()
    # 2. leadership moves to P: L1 is cut off from P, F votes for P
    sim.cut(L1, P)
    sim.notice(P, L1)
    term0 = sim.objs[F].raftCurrentTerm
    for _ in range(200):
        sim.tick(P, 0.0625)
        while sim.deliver(P, F):
            pass
        if mid_election and held and sim.objs[F].raftCurrentTerm > term0:
            # the old leader's reply arrives after F has adopted the candidate's term (vote request) and before it
            # hears from the new leader: the position is filed while F is already in the newer term
            for m in held:
                sim.inject(L1, F, m)
            held = []
        while sim.deliver(F, P):
            pass
        if sim.objs[P]._isLeader():
            break
    if not sim.objs[P]._isLeader():
        return sim, [], "P did not become leader"
    sim.tick(P, 0.0625)
    while sim.deliver(P, F):        # F learns the new leader -> __onLeaderChanged
        pass
    # 3. F forwards the second command to P
    second = sim.submit(F, "B")
    sim.tick(F, 0.0625)
    while sim.deliver(F, P):
        pass
    sim.tick(P, 0.0625)
    sim.tick(P, 0.125)

    def stale():
        for m in held:
            sim.inject(L1, F, m)

    def fresh():
        while sim.deliver(P, F):
            pass
    if stale_first:
        stale()
        fresh()
    else:
        fresh()
        stale()
    # 4. let P and F commit and apply everything
    sim.run(12, among=[P, F])
    viols = monitors.callbacks_contract(sim) + monitors.sm_safety(sim) + monitors.errors(sim)
    fired = {cid: (res, err) for (_, cid, res, err) in sim.callbacks}
    if second not in fired:
        viols.append({"signature": "callback:forwarded-command-never-answered",
                      "what": "command B forwarded to the new leader %s is applied=%s but its callback never fired"
                              % (P, any(x == "B" for (_, x) in sim.execs[F]))})
    return sim, viols, None


def scenario_queue_full(repo, seed, qsize=1, batch=True):
    """The leader's command queue is full exactly when a follower-forwarded command arrives: the follower
    must be told QUEUE_FULL (or the command must be applied) — it may not vanish silently."""
    sim = Sim(repo, ["a", "b", "c"], seed=seed, conf={"appendEntriesUseBatch": batch, "commandsQueueSize": qsize})
    sim.connect_all()
    L = sim.elect()
    if L is None:
        return sim, [], "no leader"
    F = [i for i in sim.voters if i != L][0]
    sim.run(4)
    warm = sim.submit(F, "W")                 # an ordinary forwarded call works first
    sim.run(6)
    cid = sim.submit(F, "X")
    sim.tick(F, 0.0625)                       # forwarded to L, in flight
    for k in range(qsize + 3):                # burst of local calls between two ticks of L
        sim.submit(L, "L%d" % k)
    while sim.deliver(F, L):
        pass
    sim.run(12)
    viols = monitors.callbacks_contract(sim) + monitors.errors(sim)
    fired = {c: (res, err) for (_, c, res, err) in sim.callbacks}
    applied = any(x == "X" for n in sim.execs for (_, x) in sim.execs[n])
    if cid not in fired:
        viols.append({"signature": "callback:forwarded-command-never-answered",
                      "what": "command X forwarded to leader %s while its queue was full: applied=%s, callback never fired"
                              % (L, applied)})
    return sim, viols, None


def scenario_requester_becomes_leader(repo, seed, n_first=2, n_local=1, batch=True, replies=True):
    """A follower's forwarded commands are acknowledged by the leader with their log positions (the follower now
    waits for those positions to commit) but never replicated; the leader is lost; the FOLLOWER itself becomes leader
    and its own no-op and local commands take exactly those positions.  Every callback must fire exactly once: the
    forwarded ones with a failure (their entries were replaced), the local ones with SUCCESS and their own result."""
    sim = Sim(repo, ["a", "b", "c"], seed=seed, conf={"appendEntriesUseBatch": batch})
    sim.connect_all()
    L1 = sim.elect()
    if L1 is None:
        return sim, [], "no leader"
    F, P = [i for i in sim.voters if i != L1]
    sim.run(4)
    first = [sim.submit(F, "A%d" % k) for k in range(n_first)]
    sim.tick(F, 0.0625)
    while sim.deliver(F, L1):
        pass
    sim.tick(L1, 0.0625)             # L1 appends and answers with (idx, term)
    # only the apply_command_response messages reach F; the entries reach nobody
    keep = [m for m in sim.chan[(L1, F)] if m.get("type") == "apply_command_response"]
    sim.chan[(L1, F)].clear()
    sim.chan[(L1, P)].clear()
    if replies:
        for m in keep:
            sim.inject(L1, F, m)
        waiting = sum(len(v) for v in sim.P(F, "commandsWaitingCommit").values())
    else:
        # the leader is lost before any reply leaves it: the requests wait for a reply that never comes; the requester
        # learns of the leader change only through its OWN election
        waiting = len(sim.P(F, "commandsWaitingReply"))
    sim.disconnect(L1, F)
    sim.disconnect(L1, P)
    for _ in range(400):
        sim.tick(F, 0.0625)
        while sim.deliver(F, P):
            pass
        while sim.deliver(P, F):
            pass
        if sim.objs[F]._isLeader():
            break
    if not sim.objs[F]._isLeader():
        return sim, [], "F did not become leader"
    local = [sim.submit(F, "L%d" % k) for k in range(n_local)]
    sim.run(8, among=[F, P])
    # later traffic fills every position the lost leader had promised (a waiting callback is decided when ITS
    # position is applied; positions nobody has filled yet stay open, which is not a violation)
    local += [sim.submit(F, "fill%d" % k) for k in range(n_first)]
    sim.run(16, among=[F, P])
    viols = monitors.callbacks_contract(sim) + monitors.sm_safety(sim) + monitors.errors(sim)
    fired = {}
    for (_, cid, res, err) in sim.callbacks:
        fired.setdefault(cid, []).append((res, err))
    for k, cid in enumerate(first):
        f = fired.get(cid, [])
        if len(f) != 1:
            viols.append({"signature": "callback:forwarded-command-never-answered" if not f else "callback:fired-twice",
                          "what": "forwarded command A%d was acknowledged by the lost leader %s with a log position that the new "
                                  "leader %s (the requester itself) filled with another entry: its callback fired %d times %s"
                                  % (k, L1, F, len(f), f)})
        elif f[0][1] == 0:
            viols.append({"signature": "callback:success-for-replaced-entry",
                          "what": "forwarded command A%d reported SUCCESS %r although its entry never existed outside %s" % (k, f[0], L1)})
    for k, cid in enumerate(local):
        f = fired.get(cid, [])
        if len(f) != 1 or f[0][1] != 0:
            viols.append({"signature": "callback:local-command-of-new-leader-not-acknowledged",
                          "what": "local command L%d of the new leader %s: callbacks %s" % (k, F, f)})
    return sim, viols, None if waiting else "the follower was not waiting for any position"


def scenario_snapshot_over_waiting(repo, seed, extra=0, observer=False, raising=False):
    """A node forwards a command, is told its log position i by the leader (it now waits for i to commit), loses the
    entries, and is caught up by a SNAPSHOT whose last index is i + extra (extra = 0: exactly i).  Its callback must be
    answered (once): the node never applies position i itself."""
    voters = ["a", "b", "c"]
    sim = Sim(repo, voters, observers=(["o"] if observer else []), seed=seed,
              conf={"logCompactionMinEntries": 10 ** 6, "logCompactionMinTime": 10 ** 6})
    sim.connect_all()
    L = sim.elect(among=voters)
    if L is None:
        return sim, [], "no leader"
    sim.run(6)
    others = [x for x in voters if x != L]
    F = "o" if observer else others[0]
    P = others[1]
    for j in ([v for v in voters if v != L] if observer else [P]):
        if j != F:
            pass
    peers = [x for x in (voters + (["o"] if observer else [])) if x != F]
    for x in peers:
        sim.disconnect(F, x)
    for k in range(5):
        sim.submit(L, "m%d" % k, with_cb=False)
    among = [x for x in peers]
    sim.run(6, among=among)
    sim.connect(F, L)
    cid = sim.submit(F, "fwd")
    sim.tick(F, 0.0)
    if raising:                           # the application's callback fails AFTER it has taken note of the outcome
        waiting = getattr(sim.objs[F], "_SyncObj__commandsWaitingReply")
        for rid, cb0 in list(waiting.items()):
            def cb1(res, err, cb0=cb0):
                cb0(res, err)
                raise RuntimeError("callback of the application failed")
            waiting[rid] = cb1
    while sim.deliver(F, L):
        pass
    sim.tick(L, 0.0)                      # L appends it at index i and answers with i
    m = None
    while True:
        x = sim.deliver(L, F)
        if x is None:
            break
        if x.get("type") == "apply_command_response":
            m = x
            break
    sim.cut(F, L)                         # the entries behind it are lost with the connection
    for k in range(extra):
        sim.submit(L, "x%d" % k, with_cb=False)
    sim.run(6, among=among)
    idx = (m or {}).get("log_idx")
    sim.compact(L)
    sim.run(4, among=among)
    snap_last = sim.log_of(L)[1][0] if len(sim.log_of(L)) > 1 else None
    sim.connect(F, L)
    for _ in range(int(30 / 0.0625)):
        sim.run(1)
        if [c for c in sim.callbacks if c[1] == cid] and sim.objs[F].raftLastApplied == sim.objs[L].raftLastApplied:
            break
    cbs = [(r, e) for (n, c, r, e) in sim.callbacks if c == cid]
    viols = monitors.callbacks_contract(sim) + monitors.errors(sim)
    caught_up = sim.objs[F].raftLastApplied == sim.objs[L].raftLastApplied
    if caught_up and len(cbs) != 1:
        viols.append({"signature": "callback:forwarded-command-never-answered" if not cbs else "callback:fired-twice",
                      "what": "%s %s forwarded a command, was told position %r, and caught up by a snapshot ending at %r: "
                              "its callback fired %d times %s (applied %d everywhere)"
                              % ("read-only node" if observer else "follower", F, idx, snap_last, len(cbs), cbs,
                                 sim.objs[L].raftLastApplied)})
    note = None
    if m is None or snap_last is None or idx is None or not caught_up:
        note = "schedule did not reach the snapshot catch-up over a waiting position"
    elif extra == 0 and snap_last != idx:
        note = "snapshot does not end at the waiting position (%r vs %r)" % (snap_last, idx)
    return sim, viols, note


def scenario_forward_then_local(repo, seed, observer, at="leader", batch=True, n_local=1):
    """ONE pass over a node's command queue takes a command forwarded by another node (its callback entry is the pair
    (requester, request id)) and then the node's OWN command(s) with a callback: each is handled on its own - the own
    command's callback is registered (leader) or the command is forwarded in its turn (non-leader), the requester gets
    exactly one reply."""
    voters = ["a", "b", "c"]
    sim = Sim(repo, voters, observers=(["o"] if observer else []), seed=seed, conf={"appendEntriesUseBatch": batch})
    sim.connect_all()
    L = sim.elect(among=voters)
    if L is None:
        return sim, [], "no leader"
    sim.run(6)
    others = [x for x in voters if x != L]
    R = "o" if observer else others[0]              # requester
    T = L if at == "leader" else others[1]          # the node whose queue holds both
    if at != "leader":
        # a requester that believes T is the leader: T answers NOT_LEADER for the forwarded one, handles its own normally
        sim.objs[R]._SyncObj__raftLeader = sim.objs[T].selfNode
    cid_f = sim.submit(R, "fwd")
    sim.tick(R, 0.0)
    while sim.deliver(R, T):
        pass
    cids = [sim.submit(T, "loc%d" % k) for k in range(n_local)]
    sim.tick(T, 0.0)                                # one pass: forwarded first, then the own ones
    sim.run(30)
    viols = monitors.callbacks_contract(sim) + monitors.errors(sim) + monitors.sm_safety(sim)
    for c in cids + ([cid_f] if at == "leader" else []):
        got = [(r, e) for (n, k, r, e) in sim.callbacks if k == c]
        if len(got) != 1 or got[0][1] != 0:
            viols.append({"signature": "callback:own-command-after-forwarded-one-not-answered-once",
                          "what": "queue of %s (%s) held a command forwarded by %s%s and then %d own command(s): callback of command %d "
                                  "fired %s (expected one SUCCESS)" % (T, at, "read-only node " if observer else "", R, n_local, c, got)})
    if at != "leader":
        got = [(r, e) for (n, k, r, e) in sim.callbacks if k == cid_f]
        if len(got) != 1:
            viols.append({"signature": "callback:forwarded-command-answered-%d-times" % len(got),
                          "what": "command forwarded by %s to the non-leader %s was answered %s" % (R, T, got)})
    return sim, viols, None


def scenario_subscription_over_stale_suffix(repo, seed, n_stale=7, batch=True):
    """A deposed leader C still holds a long uncommitted suffix (positions p+1..p+n of its own old term) when it rejoins
    a leader B of a later term whose log is SHORTER than that suffix is long.  Before B has walked back to the common
    prefix, a client of C submits 'late'; B places it at a position INSIDE C's stale range and tells C (index, B's
    term); then C truncates its stale suffix.  The subscriber of (index, B's term) belongs to B's entry, not to the
    deleted one: it is answered SUCCESS when C applies B's entry - exactly once."""
    voters = ["a", "b", "c"]
    sim = Sim(repo, voters, seed=seed, conf={"appendEntriesUseBatch": batch})
    sim.connect_all()
    C = sim.elect(among=voters)
    if C is None:
        return sim, [], "no leader"
    A, B = [x for x in voters if x != C]
    for k in range(3):
        sim.submit(C, "w%d" % k, with_cb=False)
    sim.run(8)
    for j in (A, B):
        sim.cut(C, j)                       # silent: C keeps believing it leads
    stale = [sim.submit(C, "s%d" % k) for k in range(n_stale)]
    sim.tick(C, 0.0625)
    # A leads the next term, then B the one after (B's next index for C starts behind B's own short log)
    L1 = None
    for _ in range(300):
        sim.run(1, among=[A, B])
        L1 = sim.leader([A, B])
        if L1 is not None:
            break
    if L1 is None:
        return sim, [], "no second leader"
    L2 = B if L1 == A else A
    sim.submit(L1, "y0", with_cb=False)
    sim.run(6, among=[A, B])
    for _ in range(200):                    # only L2's clock runs: it stands for election and wins with L1's vote
        sim.tick(L2, 0.0625)
        sim.deliver_all(among={A, B})
        sim.tick(L1, 0.0)
        sim.deliver_all(among={A, B})
        if sim.objs[L2]._isLeader():
            break
    if not sim.objs[L2]._isLeader():
        return sim, [], "no third leader"
    sim.run(4, among=[A, B])
    if sim.last_index(L2) >= sim.last_index(C):
        return sim, [], "new leader's log is not shorter than the stale suffix"
    for j in (A, B):
        sim.connect(C, j)
    sim.tick(L2, 0.125)                     # first append_entries: rejected by C, which learns the leader
    while sim.deliver(L2, C):
        pass
    sim.tick(C, 0.0)
    late = sim.submit(C, "late")
    sim.tick(C, 0.0)
    while sim.deliver(C, L2):
        pass
    sim.tick(L2, 0.0)
    told = [m for m in list(sim.chan[(L2, C)]) if isinstance(m, dict) and m.get("type") == "apply_command_response"]
    inside = bool(told) and told[0].get("log_idx", 10 ** 9) <= sim.last_index(C)
    sim.run(60)
    viols = monitors.callbacks_contract(sim) + monitors.errors(sim) + monitors.sm_safety(sim)
    got = [(r, e) for (n, k, r, e) in sim.callbacks if k == late]
    ran = dict((n, [x for (_, x) in sim.execs[n]].count("late")) for n in voters)
    if all(v == 1 for v in ran.values()) and (len(got) != 1 or got[0][1] != 0):
        viols.append({"signature": "callback:subscriber-of-new-entry-answered-for-the-deleted-one",
                      "what": "'late' was placed at %s by leader %s inside the stale suffix of %s (log end %d) and applied once on every node, "
                              "but its submitter was told %s" % (told[0].get("log_idx") if told else None, L2, C, sim.last_index(C), got)})
    return sim, viols, None if inside else "the command did not land inside the stale range"


def scenario_snapshot_while_waiting_reply(repo, seed, observer=False):
    """A lagging node learns the leader from the FIRST chunk of a multi-chunk snapshot, forwards a command of its own, and
    only then receives the rest of the snapshot and installs it; the leader's reply arrives afterwards.  What the node
    keeps about its forwarded commands is not part of any snapshot: the reply finds the callback, which fires once with
    the command's result."""
    voters = ["a", "b", "c"]
    sim = Sim(repo, voters, observers=(["o"] if observer else []), seed=seed,
              conf={"logCompactionBatchSize": 48, "logCompactionMinEntries": 10 ** 6, "logCompactionMinTime": 10 ** 6})
    sim.connect_all()
    L = sim.elect(among=voters)
    if L is None:
        return sim, [], "no leader"
    sim.run(6)
    others = [x for x in voters if x != L]
    F = "o" if observer else others[0]
    peers = [x for x in (voters + (["o"] if observer else [])) if x != F]
    for x in peers:
        sim.disconnect(F, x)
    among = list(peers)
    for k in range(14):
        sim.submit(L, "m%02d" % k, with_cb=False)
    sim.run(8, among=among)
    sim.compact(L)
    sim.run(4, among=among)
    sim.connect(F, L)
    sim.tick(L, 0.125)
    while sim.deliver(L, F):
        pass
    sim.tick(F, 0.0)
    while sim.deliver(F, L):
        pass
    sim.tick(L, 0.125)                           # the snapshot goes out in several chunks
    chunks = len([m for m in sim.chan[(L, F)] if isinstance(m, dict) and m.get("serialized") is not None])
    if chunks < 2:
        return sim, [], "snapshot did not go out in several chunks (%d)" % chunks
    sim.deliver(L, F)                            # first chunk only: F now knows the leader
    cid = sim.submit(F, "c1")
    sim.tick(F, 0.0)
    forwarded = len(sim.chan[(F, L)]) > 0
    while sim.deliver(L, F):                     # the rest of the snapshot: installed
        pass
    sim.tick(F, 0.0)
    sim.run(40)
    viols = monitors.callbacks_contract(sim) + monitors.errors(sim) + monitors.sm_safety(sim)
    got = [(r, e) for (n, k, r, e) in sim.callbacks if k == cid]
    ran = dict((n, [x for (_, x) in sim.execs[n]].count("c1")) for n in voters)
    if forwarded and all(v == 1 for v in ran.values()) and len(got) != 1:
        viols.append({"signature": "callback:forwarded-command-forgotten-by-snapshot-install",
                      "what": "%s forwarded 'c1' after the first of %d snapshot chunks, installed the snapshot, then the leader's reply came: "
                              "the command was applied once on every voter, its callback fired %s" % (F, chunks, got)})
    return sim, viols, None if forwarded else "the command was not forwarded between the chunks"


def scenario_sync_call_leader_change(repo, seed):
    """A BLOCKING call (sync=True) made on a follower: the old leader appends the forwarded command and replicates it to
    the node that becomes the next leader, the reply never reaches the caller.  The caller is told LEADER_CHANGED (the
    outcome is open) - the command is applied AT MOST ONCE, whatever the call then returns or raises."""
    import threading
    voters = ["a", "b", "c"]
    sim = Sim(repo, voters, seed=seed)
    sim.connect_all()
    L = sim.elect(among=voters)
    if L is None:
        return sim, [], "no leader"
    sim.run(6)
    F, N = [x for x in voters if x != L]
    out = {}

    def caller():
        try:
            out["result"] = sim.objs[F].add("S", sync=True, timeout=20.0)
        except Exception as e:                      # SyncObjException(reason)
            out["error"] = getattr(e, "errorCode", repr(e))
    th = threading.Thread(target=caller)
    th.daemon = True
    th.start()
    t0 = time.time()
    while len(sim.objs[F]._SyncObj__commandsQueue._FastQueue__queue) == 0 and time.time() - t0 < 5:
        time.sleep(0.001)
    sim.tick(F, 0.0)                                # forwarded to L
    while sim.deliver(F, L):
        pass
    for _ in range(4):                              # L appends S, answers F and (a tick or two later) sends the entry
        sim.tick(L, 0.0625)
        if any(isinstance(m, dict) and m.get("entries") for m in sim.chan[(L, N)]):
            break
    while sim.deliver(L, N):                        # N (the next leader) stores S
        pass
    sim.chan[(L, F)].clear()                        # the reply and the entry for F are lost with the connection
    for j in (F, N):
        sim.disconnect(L, j)
    for _ in range(300):                            # only N's clock runs: it wins with F's vote
        sim.tick(N, 0.0625)
        sim.deliver_all(among={F, N})
        sim.tick(F, 0.0)
        sim.deliver_all(among={F, N})
        if sim.objs[N]._isLeader():
            break
    for _ in range(60):
        sim.run(1, among=[F, N])
        if not th.is_alive():
            break
        time.sleep(0.002)
    sim.run(20, among=[F, N])
    th.join(8.0)
    viols = monitors.errors(sim) + monitors.sm_safety(sim)
    ran = dict((n, [x for (_, x) in sim.execs[n]].count("S")) for n in (F, N))
    if any(v > 1 for v in ran.values()):
        viols.append({"signature": "sync-call:command-applied-twice-after-leader-change",
                      "what": "blocking add('S') on follower %s: leader %s appended it and replicated it to %s, the reply was lost, %s was "
                              "elected: the command was executed %s times; the call %s" % (F, L, N, N, ran, out)})
    if th.is_alive():
        viols.append({"signature": "sync-call:caller-still-blocked", "what": "the blocking call did not return: %s" % (out,)})
    note = None if sim.objs[N]._isLeader() and ran.get(N, 0) >= 1 else "the forwarded command did not survive the leader change"
    return sim, viols, note


def run(ctx):
    t0 = time.time()
    cases, viols, samples, notes = 0, [], [], []
    rng = ctx.rng("c02_forwarding")
    plans = []
    for n_first in (1, 2):
        for stale_first in (True, False):
            for replicate_first in (True, False):
                for batch in (True, False):
                    plans.append((n_first, stale_first, replicate_first, batch))
                    if stale_first:
                        plans.append((n_first, stale_first, replicate_first, batch, True))
    seeds = [ctx.seed * 100 + i for i in range(ctx.scale(2, 12))]
    seen = set()
    for plan in plans:
        for sd in seeds[: ctx.scale(1, 6)]:
            sim, v, note = scenario(ctx.repo, sd, *plan)
            cases += 1
            seen.add((plan, note is None))
            if note:
                notes.append(note)
            for x in v:
                x["replay"] = {"component": "corr.c02_forwarding", "plan": list(plan), "seed": sd}
            viols.extend(v)
            if len(samples) < 2:
                samples.append({"plan": plan, "events": len(sim.trace), "callbacks": sim.callbacks[:4]})
            if viols:
                break
        if viols:
            break
    if not viols:
        for qsize in (1, 2):
            for batch in (True, False):
                sim, v, note = scenario_queue_full(ctx.repo, ctx.seed, qsize, batch)
                cases += 1
                seen.add((("qfull", qsize, batch), note is None))
                for x in v:
                    x["replay"] = {"component": "corr.c02_forwarding", "qfull": [qsize, batch], "seed": ctx.seed}
                viols.extend(v)
    if not viols:
        for n_first in (1, 2, 3):
            for n_local in (1, 2):
                for batch in (True, False):
                    for replies in (True, False):
                        sim, v, note = scenario_requester_becomes_leader(ctx.repo, ctx.seed, n_first, n_local, batch, replies)
                        cases += 1
                        seen.add((("reqlead", n_first, n_local, batch, replies), note is None))
                        if note:
                            notes.append(note)
                        for x in v:
                            x["replay"] = {"component": "corr.c02_forwarding", "reqlead": [n_first, n_local, batch, replies],
                                           "seed": ctx.seed}
                        viols.extend(v)
    if not viols:
        for observer in (False, True):
            for extra in (0, 1, 3):
                sim, v, note = scenario_snapshot_over_waiting(ctx.repo, ctx.seed, extra, observer)
                cases += 1
                seen.add((("snapwait", extra, observer), note is None))
                if note:
                    notes.append(note)
                for x in v:
                    x["replay"] = {"component": "corr.c02_forwarding", "snapwait": [extra, observer], "seed": ctx.seed}
                viols.extend(v)
    if not viols:
        for observer in (False, True):
            for at in ("leader", "follower"):
                for batch in (True, False):
                    for n_local in (1, 2):
                        sim, v, note = scenario_forward_then_local(ctx.repo, ctx.seed, observer, at, batch, n_local)
                        cases += 1
                        seen.add((("fwdlocal", observer, at, batch, n_local), note is None))
                        for x in v:
                            x["replay"] = {"component": "corr.c02_forwarding", "fwdlocal": [observer, at, batch, n_local], "seed": ctx.seed}
                        viols.extend(v)
    if not viols:
        for n_stale in (7, 10, 5):
            for batch in (True, False):
                sim, v, note = scenario_subscription_over_stale_suffix(ctx.repo, ctx.seed, n_stale, batch)
                cases += 1
                seen.add((("stalesub", n_stale, batch), note is None))
                if note:
                    notes.append(note)
                for x in v:
                    x["replay"] = {"component": "corr.c02_forwarding", "stalesub": [n_stale, batch], "seed": ctx.seed}
                viols.extend(v)
    if not viols:
        for observer in (False, True):
            sim, v, note = scenario_snapshot_while_waiting_reply(ctx.repo, ctx.seed, observer)
            cases += 1
            seen.add((("snapreply", observer), note is None))
            if note:
                notes.append(note)
            for x in v:
                x["replay"] = {"component": "corr.c02_forwarding", "snapreply": [observer], "seed": ctx.seed}
            viols.extend(v)
    if not viols:
        for k in range(2):
            sim, v, note = scenario_sync_call_leader_change(ctx.repo, ctx.seed + k)
            cases += 1
            seen.add((("synclc", k), note is None))
            if note:
                notes.append(note)
            for x in v:
                x["replay"] = {"component": "corr.c02_forwarding", "synclc": [ctx.seed + k]}
            viols.extend(v)
    reached = len([1 for (p, ok) in seen if ok])
    r = {"name": "corr.c02_forwarding", "cases": cases, "distinct": len(seen), "violations": viols[:5],
         "coverage": {"plans": len(plans), "plans_reaching_the_point": reached, "notes": sorted(set(notes))[:5]},
         "samples": samples, "wall_s": round(time.time() - t0, 2)}
    if reached == 0:
        r["inconclusive"] = "no plan reached the stale-response point"
    elif not any(ok for (p, ok) in seen if isinstance(p, tuple) and p and p[0] == "snapwait" and p[1] == 0):
        r["inconclusive"] = "no snapshot ending exactly at a waiting position"
    elif not any(ok for (p, ok) in seen if isinstance(p, tuple) and p and p[0] == "snapreply"):
        r["inconclusive"] = "no command forwarded between the chunks of a snapshot"
    elif not any(ok for (p, ok) in seen if isinstance(p, tuple) and p and p[0] == "stalesub"):
        r["inconclusive"] = "no forwarded command landed inside a stale suffix before its truncation"
    elif not any(p[0] == "reqlead" and ok for (p, ok) in seen if isinstance(p, tuple) and p and p[0] == "reqlead"):
        r["inconclusive"] = "requester never became leader while waiting for acknowledged positions"
    return r


def replay(ctx, violation):
    rp = violation.get("replay", {})
    if "synclc" in rp:
        sim, v, note = scenario_sync_call_leader_change(ctx.repo, *rp["synclc"])
        return {"violated": bool(v), "violations": v[:5], "note": note}
    if "snapreply" in rp:
        sim, v, note = scenario_snapshot_while_waiting_reply(ctx.repo, rp.get("seed", 1), *rp["snapreply"])
        return {"violated": bool(v), "violations": v[:5], "note": note}
    if "stalesub" in rp:
        sim, v, note = scenario_subscription_over_stale_suffix(ctx.repo, rp.get("seed", 1), *rp["stalesub"])
        return {"violated": bool(v), "violations": v[:5], "note": note}
    if "fwdlocal" in rp:
        sim, v, note = scenario_forward_then_local(ctx.repo, rp.get("seed", 1), *rp["fwdlocal"])
        return {"violated": bool(v), "violations": v[:5], "note": note}
    if "snapwait" in rp:
        sim, v, note = scenario_snapshot_over_waiting(ctx.repo, rp.get("seed", 1), *rp["snapwait"])
        return {"violated": bool(v), "violations": v[:5], "note": note}
    if "reqlead" in rp:
        sim, v, note = scenario_requester_becomes_leader(ctx.repo, rp.get("seed", 1), *rp["reqlead"])
        return {"violated": bool(v), "violations": v[:5], "note": note}
    if "qfull" in rp:
        sim, v, note = scenario_queue_full(ctx.repo, rp.get("seed", 1), *rp["qfull"])
        return {"violated": bool(v), "violations": v[:5], "note": note}
    sim, v, note = scenario(ctx.repo, rp.get("seed", 1), *rp.get("plan", [1, True, True, True]))
    return {"violated": bool(v), "violations": v[:5], "note": note}
