"""C13 — TCP framing: correspondence (Lean model `PSO.Framing` <-> real `TcpConnection`) and property monitors.

The real `pysyncobj.tcp_connection.TcpConnection` is driven with a fake socket, a fake poller, a fake
`socket` module (for `connect()`) and a patched `monotonicTime`; the same case (one JSON object, see
lean/Driver/Framing.lean) goes to `driver framing`.  After EVERY event both sides are reduced to
  [state, len/adler32 of readBuffer, len/adler32 of writeBuffer, len/adler32 of the bytes the socket
   accepted, number of onMessageReceived calls, number of onDisconnected calls, poller mask, lastReadTime]
and compared, plus the delivered message sequence at the end.

`dec` of the model is a table; the harness fills it with the real `pickle.loads(zlib.decompress(.))`:
the driver reports every payload its table could not decode, the harness asks the real zlib/pickle and
re-submits the case when one of them does decode (e.g. a length field enlarged by a few bytes: zlib
ignores trailing bytes).

Monitors (written against the property text, never against the model):
  * valid stream, any fragmentation            -> delivered == sent, in order, once, connection up, no exception
  * frame i invalid (negative length, or real zlib/pickle rejects the payload named by the length field)
                                               -> delivered == sent[:i], DISCONNECTED, one onDisconnected
  * writer, any short-write/EAGAIN pattern     -> socket bytes are a prefix of the concatenated frames;
                                                  while connected socket bytes + writeBuffer == all frames;
                                                  re-reading the socket bytes with a second real connection
                                                  yields a prefix of the sent messages
  * no exception ever escapes `__processConnection`
  * family "slow" (virtual clock): a frame much larger than the recv size arrives in fragments spaced by a
    fraction of the time-out, the transfer taking a multiple of it (quiet / busy write side) -> no disconnect,
    all frames delivered once in order; a silent connection (no bytes for longer than the time-out) disconnects
  * family "drain" (monitor only, poller simulated faithfully: WRITE events only while subscribed for WRITE): a
    burst of sends whose tail the socket does not take, then silence, the peer keeps reading -> the peer gets
    the frames of all messages sent (D76)
  * family "resend" (monitor only): the write side across successive connections of one object — send() while
    DISCONNECTED then connect(); onDisconnected itself calls connect() and send() (EAGAIN / short / full
    acceptance) -> the bytes socket k accepted are a prefix of the frames of exactly the messages sent while
    connection k was open (all of them after a full flush), nothing of another connection, no torn frame
  * family "reconnect" (monitor only, no model): ONE TcpConnection object used for two successive connections;
    peer 1 writes k frames + a partial frame and closes (data and EOF in one read pass / data, EAGAIN, EOF in the
    next pass / EOF alone); `onDisconnected` calls `connect()` at once (in progress / immediate / refused);
    peer 2 writes its own messages on the new socket -> after the reconnect exactly a prefix of peer 2's
    messages is delivered (nothing of peer 1), one disconnect notification per lost connection, no exception
Private attributes touched: `_TcpConnection__readBuffer`, `__writeBuffer`, `__lastReadTime`, `__socket`
(read only), `__processConnection` (called).
"""
import errno
import hashlib
import importlib
import io
import json
import os
import struct
import sys
import time
import zlib

PROPERTIES = ["C13", "C11"]
ORDER = 50

STATE_NAMES = {0: "DISCONNECTED", 1: "CONNECTING", 2: "CONNECTED"}


# ------------------------------------------------------------------------------------------------
# loading the tree under test
# ------------------------------------------------------------------------------------------------
def load_repo(repo):
    repo = os.path.realpath(repo)
    for k in list(sys.modules):
        if k == "pysyncobj" or k.startswith("pysyncobj."):
            f = getattr(sys.modules[k], "__file__", None) or ""
            if not os.path.realpath(f).startswith(repo + os.sep):
                del sys.modules[k]
    if repo in sys.path:
        sys.path.remove(repo)
    sys.path.insert(0, repo)
    tc = importlib.import_module("pysyncobj.tcp_connection")
    pk = importlib.import_module("pysyncobj.pickle")
    pl = importlib.import_module("pysyncobj.poller")
    assert os.path.realpath(tc.__file__).startswith(repo + os.sep), tc.__file__
    return tc, pk, pl


# ------------------------------------------------------------------------------------------------
# fakes
# ------------------------------------------------------------------------------------------------
class FakePoller(object):
    def __init__(self):
        self.masks = {}
        self.cbs = {}

    def subscribe(self, descr, callback, eventMask):
        self.masks[descr] = eventMask
        self.cbs[descr] = callback

    def unsubscribe(self, descr):
        self.masks.pop(descr, None)
        self.cbs.pop(descr, None)


def _sockerr(code):
    import socket
    e = socket.error(code, os.strerror(code))
    e.errno = code
    return e


class FakeSocket(object):
    _next_fileno = [100]

    def __init__(self, cov, connect_ok=True):
        self.fd = FakeSocket._next_fileno[0]
        FakeSocket._next_fileno[0] += 1
        self.sends = []
        self.recvs = []
        self.so_next = False
        self.wire = bytearray()
        self.closed = False
        self.connect_ok = connect_ok
        self.cov = cov
        # stream mode (family "mixed"): the peer's byte stream is held by the socket; a recv script entry
        # {"n": k, "so": b} hands out the NEXT k unread bytes, so bytes that no recv asked for stay queued
        # (nothing dropped, nothing reordered).  `recv_log` = the concrete answers actually given.
        self.stream = None      # [bytes, pos] shared by all sockets of one case
        self.recv_log = []

    # plumbing
    def fileno(self):
        return self.fd

    def setsockopt(self, *a):
        pass

    def setblocking(self, *a):
        pass

    def ioctl(self, *a):
        pass

    def close(self):
        self.closed = True

    def connect(self, addr):
        if self.connect_ok == "immediate":      # connect() succeeded at once (loopback): no exception
            return None
        raise _sockerr(errno.EINPROGRESS if self.connect_ok else errno.ECONNREFUSED)

    def getsockopt(self, *a):
        r = self.so_next
        self.so_next = False
        if r:
            self.cov["so_error"] = self.cov.get("so_error", 0) + 1
        return errno.ECONNRESET if r else 0

    def send(self, buf):
        assert not self.closed, "send on closed socket"
        if not self.sends:
            self.cov["send:script-end-eagain"] = self.cov.get("send:script-end-eagain", 0) + 1
            raise _sockerr(errno.EAGAIN)
        r = self.sends.pop(0)
        if r == "a":
            self.cov["send:eagain"] = self.cov.get("send:eagain", 0) + 1
            raise _sockerr(errno.EAGAIN)
        if r == "e":
            self.cov["send:error"] = self.cov.get("send:error", 0) + 1
            raise _sockerr(errno.ECONNRESET)
        if r > 0:
            self.wire += bytes(buf[:r])
            k = "send:full" if r >= len(buf) else "send:short"
        else:
            k = "send:zero" if r == 0 else "send:negative"
        self.cov[k] = self.cov.get(k, 0) + 1
        return r

    def recv(self, n):
        assert not self.closed, "recv on closed socket"
        if not self.recvs:
            self.cov["recv:script-end-eagain"] = self.cov.get("recv:script-end-eagain", 0) + 1
            raise _sockerr(errno.EAGAIN)
        r = self.recvs.pop(0)
        if isinstance(r, dict):
            data_all, pos = self.stream
            k = min(r["n"], n, len(data_all) - pos)
            if k <= 0:          # the peer has written nothing more yet
                r = "a"
            else:
                self.stream[1] = pos + k
                r = [data_all[pos:pos + k].hex(), bool(r["so"])]
        self.recv_log.append(r)
        if r == "a":
            self.cov["recv:eagain"] = self.cov.get("recv:eagain", 0) + 1
            raise _sockerr(errno.EWOULDBLOCK)
        if r == "e":
            self.cov["recv:error"] = self.cov.get("recv:error", 0) + 1
            raise _sockerr(errno.ECONNRESET)
        data = bytes.fromhex(r[0])
        assert len(data) <= n, "harness bug: chunk larger than recv size"
        self.so_next = bool(r[1])
        k = "recv:eof" if not data else "recv:data"
        self.cov[k] = self.cov.get(k, 0) + 1
        return data


class SockModuleShim(object):
    """Stands in for the `socket` module inside pysyncobj.tcp_connection: only `socket.socket(...)` differs."""

    def __init__(self, real, factory):
        self._real = real
        self._factory = factory

    def socket(self, *a, **k):
        return self._factory()

    def __getattr__(self, name):
        return getattr(self._real, name)


# ------------------------------------------------------------------------------------------------
# message table (ids <-> python values <-> payloads), real zlib/pickle as the decode oracle
# ------------------------------------------------------------------------------------------------
class Table(object):
    def __init__(self, pk):
        self.pk = pk
        self.by_key = {}
        self.vals = []      # id -> value
        self.payload = []   # id -> zlib(pickle(value)), what TcpConnection.send puts after the length

    def vid(self, value):
        try:
            key = self.pk.dumps(value)
        except Exception:
            key = repr(value).encode()
        i = self.by_key.get(key)
        if i is None:
            i = len(self.vals)
            self.by_key[key] = i
            self.vals.append(value)
            self.payload.append(zlib.compress(self.pk.dumps(value), 3))
        return i

    def real_dec(self, payload):
        """Is `payload` (exactly the bytes named by a length field) a valid frame payload, and of which message?
        The property's reading of "valid": the bytes are EXACTLY one zlib stream holding EXACTLY one pickle —
        zlib.decompress()/pickle.loads() would silently ignore trailing bytes (D83).  -> (ok, id)"""
        try:
            d = zlib.decompressobj()
            raw = d.decompress(payload)
            if not d.eof or d.unused_data:
                return False, None
            f = io.BytesIO(raw)
            v = self.pk.load(f)
            if f.tell() != len(raw):
                return False, None
        except BaseException:
            return False, None
        return True, self.vid(v)

    def frame(self, i):
        p = self.payload[i]
        return struct.pack("<i", len(p)) + p


# ------------------------------------------------------------------------------------------------
# running a case on the real code
# ------------------------------------------------------------------------------------------------
class Env(object):
    """patched module state; use as a context manager"""

    def __init__(self, repo, cov=None):
        self.tc, self.pk, self.pl = load_repo(repo)
        self.cov = cov if cov is not None else {}
        self.clock = [0]
        self.table = Table(self.pk)
        self.connect_ok = [True]
        self.last_sock = [None]
        self.next_sends = []        # send script preloaded into the next socket created by connect()

    def __enter__(self):
        import socket as real_socket
        self._saved = (self.tc.monotonicTime, self.tc.socket)
        self.tc.monotonicTime = lambda: self.clock[0]

        def factory():
            s = FakeSocket(self.cov, self.connect_ok[0])
            s.sends = list(self.next_sends)
            self.last_sock[0] = s
            return s
        self.tc.socket = SockModuleShim(real_socket, factory)
        return self

    def __exit__(self, *a):
        self.tc.monotonicTime, self.tc.socket = self._saved
        return False

    def snapshot(self, conn, sock, poller, delivered, ndisc):
        rb = conn._TcpConnection__readBuffer
        wb = conn._TcpConnection__writeBuffer
        wire = bytes(sock.wire) if sock is not None else b""
        fn = conn.fileno()
        mask = poller.masks.get(fn, -1) if fn is not None else -1
        return [conn.state, len(rb), zlib.adler32(rb), len(wb), zlib.adler32(wb), len(wire), zlib.adler32(wire),
                len(delivered), ndisc[0], mask, conn._TcpConnection__lastReadTime]

    def run_real(self, case, stop_after=None):
        """-> dict(steps, delivered(ids), exc=[(event index, class name)], wire(bytes of current socket),
        state, rbuf, wbuf, per_step_delivered)"""
        tc = self.tc
        POLL = self.pl.POLL_EVENT_TYPE
        poller = FakePoller()
        delivered = []
        ndisc = [0]
        cbdisc = set(case.get("cbdisc", []))
        flags = {"oc": False}
        holder = {}

        def on_msg(m):
            i = self.table.vid(m)
            delivered.append(i)
            if i in cbdisc:
                holder["c"].disconnect()

        ondisc = case.get("ondisc")

        def on_disc():
            ndisc[0] += 1
            if ondisc:          # what TCPTransport._onDisconnected does: dial again at once (and send)
                self.connect_ok[0] = bool(ondisc["ok"])
                self.next_sends[:] = []
                holder["c"].connect("127.0.0.1", 4321)
                self.last_sock[0].stream = stream
                for m in ondisc["msgs"]:
                    holder["c"].send(self.table.vals[m])

        def on_conn():
            if flags["oc"]:
                holder["c"].disconnect()

        self.clock[0] = case["init"]["now"]
        sock = None
        self.last_sock[0] = None
        stream = [case["_stream"], 0] if "_stream" in case else None
        kw = dict(onMessageReceived=on_msg, onDisconnected=on_disc, onConnected=on_conn,
                  timeout=case["timeout"], recvBufferSize=case.get("recvbuf", 2 ** 13))
        if case["init"]["sock"]:
            sock = FakeSocket(self.cov)
            sock.stream = stream
            self.last_sock[0] = sock
            conn = tc.TcpConnection(poller, socket=sock, **kw)
        else:
            conn = tc.TcpConnection(poller, **kw)
        holder["c"] = conn
        last_fd = [sock.fd if sock is not None else 1]
        steps, exc = [], []
        for idx, ev in enumerate(case["evs"]):
            if stop_after is not None and idx >= stop_after:
                break
            k = ev["k"]
            try:
                if k == "send":
                    self.clock[0] = ev["now"]
                    if sock is not None:
                        sock.sends = list(ev["s"])
                    conn.send(self.table.vals[ev["m"]])
                elif k == "poll":
                    self.clock[0] = ev["now"]
                    if sock is not None:
                        sock.sends = list(ev["s"])
                        sock.recvs = list(ev["r"])
                        sock.recv_log = []
                        sock.so_next = bool(ev["so"])
                    flags["oc"] = bool(ev["oc"])
                    mask = (POLL.READ if ev["rd"] else 0) | (POLL.WRITE if ev["wr"] else 0) | \
                           (POLL.ERROR if ev["er"] else 0)
                    descr = last_fd[0] if ev["d"] else 99999
                    try:
                        conn._TcpConnection__processConnection(descr, mask)
                    finally:
                        if any(isinstance(x, dict) for x in ev["r"]):
                            # stream mode: the case now records the answers the socket really gave in this
                            # event (this is what the model and any replay get); unread bytes stay in the stream
                            ev["r"] = list(sock.recv_log) if sock is not None else []
                elif k == "disc":
                    conn.disconnect()
                elif k == "conn":
                    self.clock[0] = ev["now"]
                    self.connect_ok[0] = bool(ev["ok"])
                    conn.connect("127.0.0.1", 4321)
                    sock = self.last_sock[0]
                    sock.stream = stream
                    if conn.fileno() is not None:
                        last_fd[0] = conn.fileno()
                else:
                    raise AssertionError("unknown event " + k)
            except Exception as e:    # noqa  (an escaping exception is an observation, not a crash of the harness)
                if isinstance(e, AssertionError) and "harness bug" in str(e):
                    raise
                exc.append((idx, k, type(e).__name__))
            if ondisc and self.last_sock[0] is not None and self.last_sock[0] is not sock:
                sock = self.last_sock[0]            # the callback dialled again during this event
                if conn.fileno() is not None:
                    last_fd[0] = conn.fileno()
            steps.append(self.snapshot(conn, sock, poller, delivered, ndisc))
            # the two facts that let the model write `self.__socket is not sock` (D53) as `state == DISCONNECTED`
            fn = conn.fileno()
            if (fn is None) != (conn.state == 0) or (fn is not None and conn._TcpConnection__socket is None):
                exc.append((idx, "abstraction", "socket-state-invariant-broken"))
        return {"steps": steps, "delivered": list(delivered), "exc": exc,
                "wire": bytes(sock.wire) if sock is not None else b"",
                "state": conn.state, "rbuf": bytes(conn._TcpConnection__readBuffer),
                "wbuf": bytes(conn._TcpConnection__writeBuffer), "ndisc": ndisc[0]}


# ------------------------------------------------------------------------------------------------
# model side
# ------------------------------------------------------------------------------------------------
def driver_case(case):
    return {k: case[k] for k in ("timeout", "enc", "dec", "none", "cbdisc", "init", "evs", "ondisc") if k in case} | \
           ({"pinned": True} if case.get("pinned") else {})


def call_driver(ctx, lines):
    """ctx.driver with a few retries: the binary is briefly absent while another `lake build` relinks it"""
    for attempt in range(6):
        try:
            return ctx.driver("framing", lines)
        except Exception as e:   # noqa
            if "driver binary missing" not in str(e) or attempt == 5:
                raise
            time.sleep(3)


def run_model(ctx, env, cases):
    """runs all cases through the driver; iterates while the real zlib/pickle decodes a payload the table lacked"""
    results = [None] * len(cases)
    todo = list(range(len(cases)))
    for _round in range(6):
        if not todo:
            break
        out = call_driver(ctx, [json.dumps(driver_case(cases[i]), separators=(",", ":")) for i in todo])
        if len(out) != len(todo):
            raise RuntimeError("driver returned %d lines for %d cases" % (len(out), len(todo)))
        again = []
        for i, line in zip(todo, out):
            r = json.loads(line)
            if "error" in r:
                raise RuntimeError("driver error: " + r["error"])
            results[i] = r
            grew = False
            known = set(h for h, _ in cases[i]["dec"])
            for h in r.get("undec", []):
                if h in known:
                    continue
                ok, vid = env.table.real_dec(bytes.fromhex(h))
                if ok:
                    add_msg(env, cases[i], vid, extra_dec=h)
                    grew = True
                    env.cov["dec:table-grew"] = env.cov.get("dec:table-grew", 0) + 1
            if grew:
                again.append(i)
        todo = again
    return results


def add_msg(env, case, vid, extra_dec=None):
    """make message id `vid` known to the case's enc/dec tables"""
    t = env.table
    if vid not in case["_ids"]:
        case["_ids"].add(vid)
        h = t.payload[vid].hex()
        case["enc"].append([vid, h])
        case["dec"].append([h, vid])
        if t.vals[vid] is None:
            case["none"].append(vid)
    if extra_dec is not None:
        case["dec"].append([extra_dec, vid])


def new_case(env, kind, timeout=1000, sock=True, now=0, recvbuf=2 ** 13):
    return {"kind": kind, "timeout": timeout, "enc": [], "dec": [], "none": [], "cbdisc": [],
            "init": {"sock": sock, "now": now}, "evs": [], "recvbuf": recvbuf, "_ids": set(), "expect": {}}


def read_ev(now, chunks, so=False, rd=True, wr=False, sends=()):
    return {"k": "poll", "d": True, "rd": rd, "wr": wr, "er": False, "now": now, "so": so, "oc": False,
            "s": list(sends), "r": [[c.hex(), False] for c in chunks]}


# ------------------------------------------------------------------------------------------------
# generators
# ------------------------------------------------------------------------------------------------
def gen_value(rng, big=False):
    r = rng.random()
    if big and r < 0.6:
        n = rng.choice([8188, 8192, 8193, 16384, 3 * 8192 + 7, rng.randrange(8000, 40000)])
        return rng.randbytes(n)
    if r < 0.07:        # every unpickled value is a message (D75): None and the other falsy ones too
        return rng.choice([None, 0, "", [], {}, False, (), b"", 0.0])
    if r < 0.15:
        return rng.randrange(-5, 1000)
    if r < 0.3:
        return "s" * rng.randrange(0, 40) + str(rng.randrange(100))
    if r < 0.5:
        return {"type": rng.choice(["append_entries", "request_vote", "next_node_idx"]),
                "term": rng.randrange(0, 50), "idx": rng.randrange(0, 1000)}
    if r < 0.6:
        return b""
    if r < 0.75:
        return rng.randbytes(rng.randrange(0, 300))
    if r < 0.85:
        return ("k", rng.randrange(10), b"x" * rng.randrange(0, 2000))
    if r < 0.9:
        return []
    return rng.randbytes(rng.choice([1, 2, 3, 4, 5, 100, 1000, 5000]))


def chunkings_random(rng, stream, recvbuf, style=None):
    """cut `stream` into chunks (each 1..recvbuf bytes) and group them into READ events"""
    style = style or rng.choice(["tiny", "mixed", "big", "exact"])
    if style == "tiny" and len(stream) > 3000:
        style = "mixed"
    chunks, pos = [], 0
    while pos < len(stream):
        if style == "tiny":
            n = rng.choice([1, 1, 2, 3, 4, 5, 7])
        elif style == "big":
            n = recvbuf
        elif style == "exact":
            n = rng.choice([recvbuf, recvbuf, 4, 1, recvbuf - 1])
        else:
            n = rng.choice([1, 2, 3, 4, 5, 8, 16, 100, 1000, recvbuf, rng.randrange(1, recvbuf + 1)])
        n = max(1, min(n, recvbuf))
        chunks.append(stream[pos:pos + n])
        pos += n
    events = []
    i = 0
    while i < len(chunks):
        g = rng.choice([1, 1, 1, 2, 3, 5, 50])
        events.append(chunks[i:i + g])
        i += g
    return events


def compositions_window(n, lo, hi):
    """all subsets of cut positions inside [lo, hi) (1 <= pos < n)"""
    pos = [p for p in range(max(1, lo), min(n, hi))]
    for bits in range(1 << len(pos)):
        yield [p for j, p in enumerate(pos) if bits >> j & 1]


def cut(stream, cuts):
    out, prev = [], 0
    for p in cuts:
        out.append(stream[prev:p])
        prev = p
    out.append(stream[prev:])
    return [c for c in out if c]


def reader_case(env, kind, ids, stream, events, expect, now0=1, grouping=None):
    c = new_case(env, kind)
    for i in ids:
        add_msg(env, c, i)
    t = now0
    for chunks in events:
        c["evs"].append(read_ev(t, chunks))
        t += 1
    c["expect"] = expect
    return c


def gen_reader_exhaustive(env, rng, n_streams, window):
    """every set of cut points in a window around each frame boundary / length field of short streams"""
    t = env.table
    for _ in range(n_streams):
        ids = []
        while not ids or sum(len(t.frame(i)) for i in ids) > 160:
            ids = [t.vid(gen_value(rng)) for _ in range(rng.choice([1, 2, 2, 3]))]
        stream = b"".join(t.frame(i) for i in ids)
        bounds, pos = [0], 0
        for i in ids[:-1]:
            pos += len(t.frame(i))
            bounds.append(pos)
        b = rng.choice(bounds)
        lo = b - window // 2 + 2
        for cuts in compositions_window(len(stream), lo, lo + window):
            chunks = cut(stream, cuts)
            one_event = rng.random() < 0.5
            events = [chunks] if one_event else [[ch] for ch in chunks]
            yield reader_case(env, "reader-exhaustive", ids, stream, events,
                              {"mon": "valid", "sent": ids})
        # all single cuts and a sample of double cuts of the whole stream
        for p in range(1, len(stream)):
            yield reader_case(env, "reader-1cut", ids, stream, [[ch] for ch in cut(stream, [p])],
                              {"mon": "valid", "sent": ids})
        for _ in range(40):
            p, q = sorted(rng.sample(range(1, len(stream)), 2))
            yield reader_case(env, "reader-2cut", ids, stream, [cut(stream, [p, q])],
                              {"mon": "valid", "sent": ids})


def gen_reader_random(env, rng, n):
    t = env.table
    for _ in range(n):
        big = rng.random() < 0.35
        ids = [t.vid(gen_value(rng, big and rng.random() < 0.5)) for _ in range(rng.randrange(0, 7))]
        stream = b"".join(t.frame(i) for i in ids)
        recvbuf = rng.choice([2 ** 13, 2 ** 13, 64, 5, 4096])
        if len(stream) > 3000:
            recvbuf = rng.choice([2 ** 13, 4096])
        expect = {"mon": "valid", "sent": ids}
        extra = None
        if rng.random() < 0.3:
            # the stream ends inside a frame: that part must stay buffered
            extra = t.vid(gen_value(rng))
            f = t.frame(extra)
            part = f[:rng.randrange(1, len(f))]
            stream += part
            expect["leftover"] = part.hex()
        c = reader_case(env, "reader-random", ids, stream, chunkings_random(rng, stream, recvbuf), expect)
        if extra is not None:
            add_msg(env, c, extra)
        c["recvbuf"] = recvbuf
        yield c


CORRUPTIONS = ["neg1", "neg_small", "neg_min", "neg_len", "neg_exact", "huge", "max", "zero", "shorter",
               "longer", "longer_many", "flip", "garbage", "zlib_bad_pickle", "none_msg", "trunc_tail",
               # D83: the length field raised by k — by one byte, by exactly the next frame, by the next two frames
               "longer_one", "swallow_next", "swallow_two", "pickle_trailing"]


def corrupt_frame(rng, table, frame, how, following=()):
    """-> bytes replacing the frame.  Nothing else in the stream is changed (`following`: the frames behind it)."""
    p = frame[4:]
    n = len(p)
    if how == "longer_one":
        return struct.pack("<i", n + 1) + p
    if how in ("swallow_next", "swallow_two"):
        k = sum(len(f) for f in following[:1 if how == "swallow_next" else 2])
        return struct.pack("<i", n + (k or 1)) + p
    if how == "pickle_trailing":
        # a well-formed zlib stream whose content is a pickle followed by more bytes
        g = zlib.compress(zlib.decompress(p) + rng.choice([b"\x00", b"junk", zlib.decompress(p)]), 3)
        return struct.pack("<i", len(g)) + g
    if how == "neg1":
        return struct.pack("<i", -1) + p
    if how == "neg_small":
        return struct.pack("<i", -rng.randrange(2, 12)) + p
    if how == "neg_min":
        return struct.pack("<i", -2 ** 31) + p
    if how == "neg_len":
        return struct.pack("<i", -n) + p
    if how == "neg_exact":
        # the design-phase witness shape: [len=-k] payload [k junk bytes]: pinned code slices payload exactly
        k = rng.randrange(1, 9)
        return struct.pack("<i", -k) + p + b"Z" * k
    if how == "huge":
        return struct.pack("<i", rng.randrange(2 ** 24, 2 ** 31 - 1)) + p
    if how == "max":
        return struct.pack("<i", 2 ** 31 - 1) + p
    if how == "zero":
        return struct.pack("<i", 0) + p
    if how == "shorter":
        return struct.pack("<i", max(0, n - rng.randrange(1, 5))) + p
    if how == "longer":
        return struct.pack("<i", n + rng.randrange(1, 4)) + p
    if how == "longer_many":
        return struct.pack("<i", n + rng.randrange(4, 40)) + p
    if how == "flip":
        j = rng.randrange(n)
        return frame[:4] + p[:j] + bytes([p[j] ^ (1 << rng.randrange(8))]) + p[j + 1:]
    if how == "garbage":
        g = rng.randbytes(rng.randrange(1, 30))
        return struct.pack("<i", len(g)) + g
    if how == "zlib_bad_pickle":
        g = zlib.compress(rng.choice([b"", b"garbage", b"\x80\x02K", b"\x80\x02}q\x00(U\x04type"]), 3)
        return struct.pack("<i", len(g)) + g
    if how == "none_msg":
        return table.frame(table.vid(None))
    if how == "trunc_tail":
        return frame[:rng.randrange(4, len(frame))]
    raise AssertionError(how)


def classify_bad(table, stream, pos):
    """Independent reading of the property text for the frame starting at `pos` of `stream`:
    -> ("negative", None) | ("undecodable", None) | ("incomplete", None) | ("decodes", (id, next_pos))"""
    if len(stream) - pos < 4:
        return "incomplete", None
    l = struct.unpack("<i", stream[pos:pos + 4])[0]
    if l < 0:
        return "negative", None
    if len(stream) - pos - 4 < l:
        return "incomplete", None
    ok, vid = table.real_dec(stream[pos + 4:pos + 4 + l])
    if not ok:
        return "undecodable", None
    return "decodes", (vid, pos + 4 + l)


def gen_corrupt(env, rng, n, hows=None):
    t = env.table
    for j in range(n):
        how = (hows or CORRUPTIONS)[j % len(hows or CORRUPTIONS)]
        k = rng.randrange(1, 5)
        ids = [t.vid(gen_value(rng, rng.random() < 0.1)) for _ in range(k)]
        bad_i = rng.randrange(k)
        frames = [t.frame(i) for i in ids]
        if how in ("swallow_next", "swallow_two", "longer_one") and k > 1:
            bad_i = rng.randrange(k - 1)                 # something must follow
        bad = corrupt_frame(rng, t, frames[bad_i], how, frames[bad_i + 1:])
        pos = sum(len(f) for f in frames[:bad_i])
        stream = b"".join(frames[:bad_i]) + bad + b"".join(frames[bad_i + 1:])
        cls, info = classify_bad(t, stream, pos)
        recvbuf = rng.choice([2 ** 13, 64, 7])
        style = rng.choice([None, "tiny", "big"])
        if len(stream) > 3000:      # keep the number of recv calls (model: list appends) bounded
            recvbuf, style = 2 ** 13, rng.choice(["big", "exact", "mixed"])
        c = reader_case(env, "corrupt-" + how, ids, stream, chunkings_random(rng, stream, recvbuf, style),
                        {"mon": "corrupt", "sent": ids, "bad": bad_i, "class": cls, "how": how,
                         "then": info[0] if info else None})
        c["recvbuf"] = recvbuf
        if info:
            add_msg(env, c, info[0])
        if how == "none_msg":
            add_msg(env, c, t.vid(None))
        yield c


def gen_send_script(rng, maxlen=10):
    out = []
    for _ in range(rng.randrange(0, maxlen)):
        r = rng.random()
        if r < 0.5:
            out.append(rng.choice([1, 2, 3, 4, 5, 6, 7, 8, 13, 100, 1000, 8192, 10 ** 6]))
        elif r < 0.7:
            out.append(rng.randrange(1, 60))
        elif r < 0.82:
            out.append("a")
        elif r < 0.9:
            out.append(0)
        elif r < 0.95:
            out.append("e")
        else:
            out.append(-1)
    return out


def gen_writer(env, rng, n, benign=True):
    """send / WRITE-poll sequences; benign = no hard errors (connection must stay up)"""
    t = env.table
    for _ in range(n):
        c = new_case(env, "writer-benign" if benign else "writer-faulty", timeout=10 ** 6)
        now = 1
        sent = []
        for _ in range(rng.randrange(1, 9)):
            if rng.random() < 0.6:
                i = t.vid(gen_value(rng, rng.random() < 0.08))
                add_msg(env, c, i)
                s = gen_send_script(rng)
                if benign:
                    s = [x for x in s if x not in ("e", -1)]
                c["evs"].append({"k": "send", "m": i, "now": now, "s": s})
                sent.append(i)
            else:
                s = gen_send_script(rng, 14)
                if benign:
                    s = [x for x in s if x not in ("e", -1)]
                c["evs"].append(read_ev(now, [], rd=False, wr=True, sends=s))
            now += 1
        if benign and rng.random() < 0.5:
            # final flush: accept everything
            c["evs"].append(read_ev(now, [], rd=False, wr=True, sends=[10 ** 9] * 3))
        c["expect"] = {"mon": "writer", "sent": sent, "benign": benign}
        if not benign and rng.random() < 0.35:
            # the onDisconnected callback dials again at once and queues messages of its own (correspondence only;
            # the per-connection property monitor for this situation is the family "resend")
            ms = [t.vid(gen_value(rng)) for _ in range(rng.randrange(0, 3))]
            for i in ms:
                add_msg(env, c, i)
            c["ondisc"] = {"ok": rng.random() < 0.8, "msgs": ms}
            c["kind"] = "writer-faulty-redial"
            c["expect"] = {"mon": "none"}
        yield c


def gen_mixed(env, rng, n):
    """everything at once: peer stream (some frames corrupted) cut over READ events, sends with scripts,
    time-outs, ERROR events, SO_ERROR, EOF, recv errors, foreign descriptors, connect/disconnect,
    callbacks that disconnect, None messages"""
    t = env.table
    for _ in range(n):
        timeout = rng.choice([3, 5, 10, 1000])
        c = new_case(env, "mixed", timeout=timeout, sock=rng.random() < 0.8, now=rng.randrange(0, 5),
                     recvbuf=rng.choice([2 ** 13, 16]))
        now = c["init"]["now"]
        peer_ids = [t.vid(gen_value(rng)) if rng.random() < 0.93 else t.vid(None)
                    for _ in range(rng.randrange(0, 8))]
        frames = [t.frame(i) for i in peer_ids]
        corrupted = False
        if frames and rng.random() < 0.3:
            j = rng.randrange(len(frames))
            frames[j] = corrupt_frame(rng, t, frames[j], rng.choice(CORRUPTIONS), frames[j + 1:])
            corrupted = True
        stream = b"".join(frames)
        for i in peer_ids:
            add_msg(env, c, i)
        if peer_ids and rng.random() < 0.25:
            c["cbdisc"] = [rng.choice(peer_ids)]
        c["_stream"] = stream
        sent = []
        for _ in range(rng.randrange(1, 12)):
            now += rng.choice([0, 1, 1, 1, 2, timeout, timeout + 1]) if rng.random() < 0.9 else 0
            r = rng.random()
            if r < 0.3:
                i = t.vid(gen_value(rng))
                add_msg(env, c, i)
                c["evs"].append({"k": "send", "m": i, "now": now, "s": gen_send_script(rng)})
                sent.append(i)
            elif r < 0.85:
                recvs = []
                for _ in range(rng.randrange(0, 4)):
                    q = rng.random()
                    if q < 0.8:
                        nby = min(rng.choice([1, 2, 3, 4, 5, 9, 30, 200, c["recvbuf"]]), c["recvbuf"])
                        recvs.append({"n": nby, "so": rng.random() < 0.03})
                    elif q < 0.86:
                        recvs.append("a")
                    elif q < 0.9:
                        recvs.append("e")
                    elif q < 0.94:
                        recvs.append(["", False])
                m = rng.random()
                c["evs"].append({"k": "poll", "d": rng.random() < 0.95, "rd": m < 0.8, "wr": 0.4 < m,
                                 "er": rng.random() < 0.04, "now": now, "so": rng.random() < 0.04,
                                 "oc": rng.random() < 0.2, "s": gen_send_script(rng), "r": recvs})
            elif r < 0.92:
                c["evs"].append({"k": "disc"})
            else:
                c["evs"].append({"k": "conn", "ok": rng.random() < 0.8, "now": now})
        if rng.random() < 0.25:
            ms = [t.vid(gen_value(rng)) for _ in range(rng.randrange(0, 3))]
            for i in ms:
                add_msg(env, c, i)
            c["ondisc"] = {"ok": rng.random() < 0.8, "msgs": ms}
        c["expect"] = {"mon": "mixed", "peer": peer_ids, "clean": not corrupted and "ondisc" not in c and
                       not any(e["k"] == "conn" for e in c["evs"])}
        yield c


BURST_SIZES = [129, 255, 1000]


def gen_bursts(env, rng, reps):
    """> 128 complete small frames merged into ONE read pass (or split over two reads with > 128 in the second),
    then the peer is quiet: everything that was received in full must be delivered without further traffic"""
    t = env.table
    pool = [t.vid(x) for x in ("m", 0, None, {"type": "append_entries", "term": 1}, b"", ("k", 1), "x" * 30)]
    for _ in range(reps):
        for n in BURST_SIZES + [rng.randrange(130, 600)]:
            ids = [pool[rng.randrange(len(pool))] for _ in range(n)]
            stream = b"".join(t.frame(i) for i in ids)
            for shape in ("one-read", "two-reads", "with-partial-tail"):
                recvbuf = 2 ** 13
                s2 = stream
                expect = {"mon": "valid", "sent": ids}
                if shape == "with-partial-tail":
                    f = t.frame(pool[3])
                    part = f[:rng.randrange(1, len(f))]
                    s2 = stream + part
                    expect["leftover"] = part.hex()
                chunks = [s2[i:i + recvbuf] for i in range(0, len(s2), recvbuf)]
                if shape == "two-reads":
                    # a handful of frames first, then the rest (> 128 complete frames) in the second read
                    first = sum(len(t.frame(i)) for i in ids[:rng.randrange(0, n - 129 + 1)]) + rng.randrange(0, 4)
                    a, b = s2[:first], s2[first:]
                    events = ([[a[i:i + recvbuf] for i in range(0, len(a), recvbuf)]] if a else []) + \
                        [[b[i:i + recvbuf] for i in range(0, len(b), recvbuf)]]
                else:
                    events = [chunks]
                c = reader_case(env, "burst-" + shape, sorted(set(ids)), s2, events, expect)
                c["burst"] = n
                yield c


SLOW_KINDS = ["slow-quiet", "slow-busy", "silent-send", "silent-write-event", "silent-late-data", "silent-boundary"]


def gen_slow(env, rng, n):
    """virtual clock: a frame much larger than the recv size arrives in fragments spaced by a fraction of the
    time-out, the whole transfer taking a multiple of the time-out (small frames before / after, quiet or busy
    write side); and genuinely silent connections (no bytes for longer than the time-out)"""
    t = env.table
    for j in range(n):
        kind = SLOW_KINDS[j % len(SLOW_KINDS)]
        T = rng.choice([5, 10, 50])
        recvbuf = rng.choice([64, 256])
        c = new_case(env, kind, timeout=T, recvbuf=recvbuf)
        before = [t.vid(gen_value(rng)) for _ in range(rng.randrange(0, 3))]
        after = [t.vid(gen_value(rng)) for _ in range(rng.randrange(0, 3))]
        if kind.startswith("slow"):
            big = t.vid(rng.randbytes(rng.randrange(20, 60) * recvbuf + rng.randrange(0, recvbuf)))
            ids = before + [big] + after
        else:
            ids = before + after or [t.vid(gen_value(rng))]
        for i in ids:
            add_msg(env, c, i)
        stream = b"".join(t.frame(i) for i in ids)
        chunks, pos = [], 0
        while pos < len(stream):
            k = recvbuf if rng.random() < 0.8 else rng.randrange(1, recvbuf + 1)
            chunks.append(stream[pos:pos + k])
            pos += k
        groups, i = [], 0
        while i < len(chunks):
            g = rng.choice([1, 1, 2, 3])
            groups.append(chunks[i:i + g])
            i += g
        now = 0
        if kind.startswith("slow"):
            gaps = [rng.choice([1, max(1, T // 2), T - 1, T]) for _ in groups]
            while sum(gaps) < 3 * T:                       # the transfer takes a multiple of the time-out
                gaps[rng.randrange(len(gaps))] = T
            for grp, gap in zip(groups, gaps):
                if kind == "slow-busy" and rng.random() < 0.6:
                    d = rng.randrange(0, gap + 1)
                    script = [x for x in gen_send_script(rng) if x not in ("e", -1)]
                    if rng.random() < 0.5:
                        m = t.vid(gen_value(rng))
                        add_msg(env, c, m)
                        c["evs"].append({"k": "send", "m": m, "now": now + d, "s": script})
                    else:
                        c["evs"].append(read_ev(now + d, [], rd=False, wr=True, sends=script))
                now += gap
                wr = kind == "slow-busy" and rng.random() < 0.4
                c["evs"].append(read_ev(now, grp, wr=wr,
                                        sends=[x for x in gen_send_script(rng) if x not in ("e", -1)] if wr else ()))
            c["expect"] = {"mon": "slow", "sent": ids, "timeout": T, "span": now}
        else:
            # some complete traffic (gaps within the time-out), possibly ending inside a frame, then silence
            cutg = rng.randrange(1, len(groups) + 1)
            fed = b""
            for grp in groups[:cutg]:
                now += rng.choice([1, T - 1, T])
                c["evs"].append(read_ev(now, grp))
                fed += b"".join(grp)
            done, p = [], 0
            for i in ids:
                p += len(t.frame(i))
                if p <= len(fed):
                    done.append(i)
            rest = groups[cutg:]
            if kind == "silent-boundary":
                now += T                                    # exactly the time-out: still alive
                c["evs"].append(read_ev(now, rest[0]) if rest else read_ev(now, [], rd=False, wr=True, sends=[5]))
                for grp in rest[1:]:
                    now += rng.choice([1, T])
                    c["evs"].append(read_ev(now, grp))
                c["expect"] = {"mon": "slow", "sent": ids, "timeout": T, "span": now}
            else:
                now += T + rng.choice([1, 1, 2, T, 10 * T])
                if kind == "silent-send":
                    m = t.vid(gen_value(rng))
                    add_msg(env, c, m)
                    c["evs"].append({"k": "send", "m": m, "now": now, "s": [10 ** 6]})
                elif kind == "silent-write-event":
                    c["evs"].append(read_ev(now, [], rd=False, wr=True, sends=[10 ** 6]))
                else:
                    c["evs"].append(read_ev(now, rest[0] if rest else []))
                c["expect"] = {"mon": "silent", "done": done, "timeout": T}
        yield c


def gen_directed(env):
    """one case on each side of every guard of the mirrored code (systematic, before the random stream)"""
    t = env.table
    a, b = t.vid({"type": "x", "n": 1}), t.vid(b"hello")
    fa, fb = t.frame(a), t.frame(b)
    out = []

    def rc(name, ids, events, expect, **kw):
        c = reader_case(env, "directed-" + name, ids, b"", events, expect)
        c.update(kw)
        out.append(c)
        return c
    # len(readBuffer) < 4 : 3 / 4 bytes
    rc("len3", [a], [[fa[:3]], [fa[3:]]], {"mon": "valid", "sent": [a]})
    rc("len4", [a], [[fa[:4]], [fa[4:]]], {"mon": "valid", "sent": [a]})
    # len - 4 < l : one byte missing / exactly complete / one byte of the next frame
    rc("missing1", [a, b], [[fa[:-1]], [fa[-1:] + fb]], {"mon": "valid", "sent": [a, b]})
    rc("exact", [a, b], [[fa], [fb]], {"mon": "valid", "sent": [a, b]})
    rc("plus1", [a, b], [[fa + fb[:1]], [fb[1:]]], {"mon": "valid", "sent": [a, b]})
    rc("merged", [a, b], [[fa + fb + fa]], {"mon": "valid", "sent": [a, b, a]})
    # l < 0 boundary: -1, 0
    rc("neg1", [a], [[struct.pack("<i", -1) + fa[4:]]],
       {"mon": "corrupt", "sent": [a], "bad": 0, "class": "negative", "how": "neg1", "then": None})
    rc("zero", [a], [[struct.pack("<i", 0) + fa[4:]]],
       {"mon": "corrupt", "sent": [a], "bad": 0, "class": "undecodable", "how": "zero", "then": None})
    # time-out boundary: now - lastRead == timeout (no disconnect) / timeout + 1 (disconnect)
    c = rc("timeout-eq", [a], [[fa]], {"mon": "valid", "sent": [a]}, timeout=7)
    c["evs"][0]["now"] = 7
    c = rc("timeout-gt", [a], [[fa]], {"mon": "none"}, timeout=7)
    c["evs"][0]["now"] = 8
    # callback disconnects in the middle of a merged read
    c = rc("cbdisc", [a, b], [[fa + fb + fa]], {"mon": "none"})
    c["cbdisc"] = [b]
    # EOF, recv error, SO_ERROR after recv, SO_ERROR at entry, ERROR event, foreign descriptor
    for name, patch in (("eof", {"r": [[fa.hex(), False], ["", False]]}), ("recverr", {"r": [[fa[:5].hex(), False], "e"]}),
                        ("so-after-recv", {"r": [[fa.hex(), True]]}), ("so-entry", {"so": True}),
                        ("errevent", {"er": True}), ("foreign", {"d": False}), ("nomask", {"rd": False}),
                        ("recv-eagain-first", {"r": ["a", [fa.hex(), False]]})):
        c = rc(name, [a], [[fa]], {"mon": "none"})
        c["evs"][0].update(patch)
    # writer: exact / one short / more than asked / zero / negative / EAGAIN / hard error
    for name, s in (("full", [len(fa)]), ("short", [len(fa) - 1]), ("over", [len(fa) + 5]), ("zero", [0, 5]),
                    ("neg", [-1]), ("eagain", ["a", 5]), ("err", ["e"]), ("bytewise", [1] * (len(fa) + 2)),
                    ("none", [])):
        c = new_case(env, "directed-send-" + name)
        add_msg(env, c, a)
        add_msg(env, c, b)
        c["evs"] = [{"k": "send", "m": a, "now": 1, "s": s}, read_ev(2, [], rd=False, wr=True, sends=[3, "a"]),
                    {"k": "send", "m": b, "now": 3, "s": [10 ** 6]}, read_ev(4, [], rd=False, wr=True, sends=[10 ** 6])]
        c["expect"] = {"mon": "writer", "sent": [a, b], "benign": name not in ("neg", "err")}
        out.append(c)
    # connect: in progress -> connected by a WRITE event, buffered frame goes out afterwards; failed connect
    for name, ok, oc in (("ok", True, False), ("refused", False, False), ("onconnected-disconnects", True, True)):
        c = new_case(env, "directed-connect-" + name, sock=False)
        add_msg(env, c, a)
        c["evs"] = [{"k": "send", "m": a, "now": 1, "s": [4]},      # sent while DISCONNECTED: stays in the buffer
                    {"k": "conn", "ok": ok, "now": 2},               # ... and is dropped by connect()
                    {"k": "send", "m": a, "now": 3, "s": ["a"]},
                    dict(read_ev(4, [], rd=False, wr=True, sends=[10 ** 6]), oc=oc),
                    read_ev(5, [fa], rd=True, wr=True, sends=[10 ** 6]),
                    {"k": "disc"}, {"k": "disc"},
                    {"k": "conn", "ok": True, "now": 6}, {"k": "conn", "ok": True, "now": 7}]
        c["expect"] = {"mon": "none"}
        out.append(c)
    # a short write of a big message, then a hard error / negative result in the SAME flush, on an object whose
    # onDisconnected callback dials again at once and queues a message (seeded C13-14)
    bigm = t.vid(bytes(range(256)) * 40)
    for name, tail in (("err", "e"), ("neg", -1)):
        for via in ("send", "wev"):
            for ok in (True, False):
                c = new_case(env, "directed-redial-%s-%s-%s" % (via, name, "ok" if ok else "refused"))
                add_msg(env, c, a)
                add_msg(env, c, b)
                add_msg(env, c, bigm)
                c["ondisc"] = {"ok": ok, "msgs": [b]}
                first = [100, tail] if via == "send" else [100, "a"]
                c["evs"] = [{"k": "send", "m": bigm, "now": 1, "s": first}] + \
                    ([read_ev(2, [], rd=False, wr=True, sends=[50, tail])] if via == "wev" else []) + \
                    [{"k": "send", "m": a, "now": 3, "s": ["a"]}, read_ev(4, [], rd=False, wr=True, sends=[]),
                     read_ev(5, [], rd=False, wr=True, sends=[10 ** 6]), {"k": "disc"},
                     read_ev(6, [], rd=False, wr=True, sends=[10 ** 6])]
                c["expect"] = {"mon": "none"}
                out.append(c)
    # None as a message: the parse loop's sentinel
    n = t.vid(None)
    c = rc("none-message", [a, n, b], [[fa + t.frame(n) + fb], [fa]], {"mon": "valid", "sent": [a, n, b, a]})
    falsy = [t.vid(x) for x in (0, "", [], {}, None, False, b"")]
    c = rc("falsy-messages", falsy, [[b"".join(t.frame(i) for i in falsy)]], {"mon": "valid", "sent": falsy})
    return out


# ------------------------------------------------------------------------------------------------
# monitors: the property statement evaluated on what the REAL code did
# ------------------------------------------------------------------------------------------------
def monitor(env, case, real, rng=None):
    """-> list of violations (dicts with signature/what); only looks at `real`, never at the model"""
    v = []
    ex = case.get("expect", {})
    mon = ex.get("mon")
    for (idx, k, cls) in real["exc"]:
        if k in ("poll", "disc") or (k == "send"):
            v.append({"signature": "tcp_connection.%s:exception-escaped:%s" % (
                "event-loop" if k == "poll" else k, cls),
                "what": "exception %s escaped from %s (event %d)" % (cls, k, idx)})
    if mon == "valid":
        sent = ex["sent"]
        if real["delivered"] != sent:
            d = real["delivered"]
            if d == sent[:len(d)]:
                kind = "lost-or-late"       # a proper prefix: frames received in full are not delivered
                what = "valid frame stream received in full, the peer is quiet: only the first %d of %d messages were " \
                       "delivered (%d bytes left in the read buffer)" % (len(d), len(sent), len(real["rbuf"]))
            else:
                kind = "duplicate-or-reordered"
                fd = next((i for i, (x, y) in enumerate(zip(d, sent)) if x != y), min(len(d), len(sent)))
                what = "valid frame stream: delivered %d messages, sent %d, first difference at position %d: " \
                       "delivered ids %r, sent ids %r" % (len(d), len(sent), fd, d[fd:fd + 8], sent[fd:fd + 8])
            v.append({"signature": "tcp_connection.read:delivered-differs:" + kind, "what": what})
        if real["state"] != 2 or real["ndisc"] != 0:
            v.append({"signature": "tcp_connection.read:valid-stream-disconnected",
                      "what": "valid frame stream left the connection %s (onDisconnected x%d)"
                              % (STATE_NAMES.get(real["state"]), real["ndisc"])})
        left = bytes.fromhex(ex.get("leftover", ""))
        if real["state"] == 2 and real["rbuf"] != left:
            v.append({"signature": "tcp_connection.read:leftover-buffer-wrong",
                      "what": "after a valid stream the read buffer holds %d bytes, expected the %d bytes of the partial frame"
                              % (len(real["rbuf"]), len(left))})
    elif mon == "corrupt":
        sent, bi, cls = ex["sent"], ex["bad"], ex["class"]
        d = real["delivered"]
        if cls in ("negative", "undecodable"):
            if d[:bi] != sent[:bi]:
                v.append({"signature": "tcp_connection.read:delivered-differs:before-invalid-frame",
                          "what": "delivered %r, expected the %d messages before the invalid frame %r" % (d[:8], bi, sent[:bi])})
            elif len(d) > bi:
                v.append({"signature": "tcp_connection.parse:%s-delivered" % ("negative-length" if cls == "negative" else "undecodable-frame"),
                          "what": "frame %d is invalid (%s, corruption %s) but %d message(s) were delivered from it or after it: ids %r"
                                  % (bi, cls, ex["how"], len(d) - bi, d[bi:bi + 4])})
            if real["state"] != 0 or real["ndisc"] != 1:
                v.append({"signature": "tcp_connection.parse:%s-no-disconnect" % ("negative-length" if cls == "negative" else "undecodable-frame"),
                          "what": "frame %d is invalid (%s, corruption %s) but the connection is %s, onDisconnected x%d"
                                  % (bi, cls, ex["how"], STATE_NAMES.get(real["state"]), real["ndisc"])})
        elif cls == "incomplete":
            if d != sent[:bi] or real["state"] != 2:
                v.append({"signature": "tcp_connection.read:incomplete-frame-mishandled",
                          "what": "stream ends inside frame %d: delivered %r (expected %r), state %s"
                                  % (bi, d[:8], sent[:bi], STATE_NAMES.get(real["state"]))})
        else:   # the bytes named by the length field decode: that message is what the frame says
            want = sent[:bi] + [ex["then"]]
            if d[:len(want)] != want:
                v.append({"signature": "tcp_connection.read:delivered-differs:decodable-frame",
                          "what": "delivered %r, expected prefix %r" % (d[:8], want)})
    elif mon == "writer":
        t = env.table
        # messages sent since the last connect (the monitor's own bookkeeping)
        frames = b"".join(t.frame(i) for i in ex["sent"])
        wire = real["wire"]
        if frames[:len(wire)] != wire:
            v.append({"signature": "tcp_connection.write:wire-not-frame-prefix",
                      "what": "bytes accepted by the socket are not a prefix of the concatenated frames (%d wire bytes)" % len(wire)})
        if real["state"] != 0 and wire + real["wbuf"] != frames:
            v.append({"signature": "tcp_connection.write:wire-plus-buffer-differs",
                      "what": "socket bytes (%d) + write buffer (%d) != frames of the sent messages (%d)"
                              % (len(wire), len(real["wbuf"]), len(frames))})
        if ex.get("benign") and real["state"] != 2:
            v.append({"signature": "tcp_connection.write:benign-writes-disconnected",
                      "what": "short writes / EAGAIN only, but the connection is " + STATE_NAMES.get(real["state"], "?")})
        # end to end: a second REAL connection reads the wire bytes in random pieces
        rng = rng or __import__("random").Random(len(wire))
        rcase = new_case(env, "e2e")
        t_ev = 1
        for chunks in chunkings_random(rng, wire, 2 ** 13):
            rcase["evs"].append(read_ev(t_ev, chunks))
            t_ev += 1
        r2 = env.run_real(rcase)
        if r2["exc"] or r2["delivered"] != ex["sent"][:len(r2["delivered"])] or r2["state"] != 2:
            v.append({"signature": "tcp_connection.e2e:wire-read-back-differs",
                      "what": "reading the socket bytes back delivered %r, sent %r, state %s" % (
                          r2["delivered"][:8], ex["sent"][:8], STATE_NAMES.get(r2["state"]))})
        elif real["state"] == 2 and not real["wbuf"] and r2["delivered"] != ex["sent"]:
            v.append({"signature": "tcp_connection.e2e:message-lost",
                      "what": "write buffer empty, connection up, but reading the wire back gives %d of %d messages"
                              % (len(r2["delivered"]), len(ex["sent"]))})
    elif mon == "slow":
        # bytes kept arriving, never more than `timeout` apart: no disconnect, everything delivered once, in order
        if real["state"] != 2 or real["ndisc"] != 0:
            v.append({"signature": "tcp_connection.timeout:disconnect-while-bytes-arriving",
                      "what": "time-out %d, bytes arrived over %d time units with no gap above the time-out, yet the connection is %s "
                              "(onDisconnected x%d) after delivering %d of %d messages"
                              % (ex["timeout"], ex["span"], STATE_NAMES.get(real["state"]), real["ndisc"],
                                 len(real["delivered"]), len(ex["sent"]))})
        if real["delivered"] != ex["sent"][:len(real["delivered"])] or \
                (real["state"] == 2 and real["delivered"] != ex["sent"]):
            v.append({"signature": "tcp_connection.timeout:delivered-differs",
                      "what": "slow valid stream: delivered ids %r, sent ids %r" % (real["delivered"][:8], ex["sent"][:8])})
    elif mon == "silent":
        if real["state"] != 0 or real["ndisc"] != 1:
            v.append({"signature": "tcp_connection.timeout:silent-connection-not-disconnected",
                      "what": "no bytes for longer than the time-out %d, then an event: connection is %s, onDisconnected x%d"
                              % (ex["timeout"], STATE_NAMES.get(real["state"]), real["ndisc"])})
        if real["delivered"] != ex["done"]:
            v.append({"signature": "tcp_connection.timeout:delivered-differs",
                      "what": "silent connection: delivered ids %r, frames completed before the silence %r"
                              % (real["delivered"][:8], ex["done"][:8])})
    elif mon == "mixed":
        # whatever happened: delivered messages are, in order, messages of the peer's stream prefix
        # (until the first corrupted frame this is exact; None is a message like any other)
        peer = [i for i in ex["peer"]]
        d = real["delivered"]
        if ex.get("clean"):
            # one connection, an uncorrupted peer stream, any faults: what was delivered is a prefix of what the peer sent
            want = list(peer)
            if d != want[:len(d)]:
                v.append({"signature": "tcp_connection.read:delivered-differs:not-a-prefix",
                          "what": "delivered %r is not a prefix of the peer's messages %r" % (d[:8], want[:8])})
    return v


# ------------------------------------------------------------------------------------------------
# family "reconnect": one object, two successive connections, reconnect from inside onDisconnected
# ------------------------------------------------------------------------------------------------
RECONNECT_PATTERNS = ["same-pass", "eagain-then-eof", "split-then-eof", "eof-alone"]
RECONNECT_MODES = ["inprogress", "immediate", "refused"]


def split_sizes(rng, total, recvbuf, style=None):
    """sizes (each 1..recvbuf) that sum to `total`"""
    out = []
    style = style or rng.choice(["tiny", "mixed", "big"])
    if style == "tiny" and total > 400:
        style = "mixed"
    while total > 0:
        n = {"tiny": rng.choice([1, 2, 3, 4, 5]), "big": recvbuf}.get(style) or \
            rng.choice([1, 2, 3, 4, 7, 30, 200, recvbuf])
        n = max(1, min(n, recvbuf, total))
        out.append(n)
        total -= n
    return out


def gen_reconnect(env, rng, n):
    t = env.table
    for j in range(n):
        pattern = RECONNECT_PATTERNS[j % len(RECONNECT_PATTERNS)]
        mode = RECONNECT_MODES[(j // len(RECONNECT_PATTERNS)) % len(RECONNECT_MODES)]
        recvbuf = rng.choice([2 ** 13, 64, 16])
        if pattern == "eof-alone":
            peer1, partial = [], b""
        else:
            peer1 = [t.vid(gen_value(rng)) for _ in range(rng.randrange(0, 4))]
            f = t.frame(t.vid(gen_value(rng)))
            partial = f[:rng.randrange(0, len(f))] if rng.random() < 0.8 else b""
            if not peer1 and not partial:
                partial = f[:5]
        n1 = sum(len(t.frame(i)) for i in peer1) + len(partial)
        sizes1 = split_sizes(rng, n1, recvbuf)
        if pattern == "same-pass":
            ev1 = [sizes1 + ["eof"]]
        elif pattern == "eagain-then-eof":
            ev1 = [sizes1, ["eof"]]
        elif pattern == "split-then-eof":
            h = rng.randrange(0, len(sizes1) + 1)
            ev1 = [sizes1[:h], sizes1[h:] + ["eof"]]
        else:
            ev1 = [["eof"]]
        peer2 = [t.vid(gen_value(rng, rng.random() < 0.05)) for _ in range(rng.randrange(1, 5))]
        n2 = sum(len(t.frame(i)) for i in peer2)
        if n2 > 3000:
            recvbuf = 2 ** 13
        sizes2 = split_sizes(rng, n2, recvbuf)
        ev2, i = [], 0
        while i < len(sizes2):
            g = rng.choice([1, 1, 2, 3, 50])
            ev2.append(sizes2[i:i + g])
            i += g
        yield {"kind": "reconnect", "pattern": pattern, "mode": mode, "recvbuf": recvbuf,
               "init": rng.choice(["socket", "connect"]), "first_mask": rng.choice(["w", "rw"]),
               "peer1": peer1, "partial": partial.hex(), "ev1": ev1, "peer2": peer2, "ev2": ev2,
               "extra_polls": rng.randrange(0, 3)}


def run_reconnect(env, rc):
    """drive the REAL class; -> observations (nothing here knows the model)"""
    tc, t = env.tc, env.table
    POLL = env.pl.POLL_EVENT_TYPE
    poller = FakePoller()
    obs = {"delivered": [], "ndisc": 0, "nconn": 0, "exc": [], "reconnect_result": None, "log": []}
    holder = {}
    stream2 = [b"".join(t.frame(i) for i in rc["peer2"]), 0]

    def on_msg(m):
        obs["delivered"].append((obs["ndisc"], t.vid(m)))     # epoch = number of lost connections so far

    def on_disc():
        obs["ndisc"] += 1
        if obs["ndisc"] == 1:                                  # exactly what TCPTransport._onDisconnected does
            env.connect_ok[0] = {"inprogress": True, "immediate": "immediate", "refused": False}[rc["mode"]]
            obs["reconnect_result"] = holder["c"].connect("127.0.0.1", 4321)
            env.last_sock[0].stream = stream2

    def on_conn():
        obs["nconn"] += 1

    env.clock[0] = 0
    kw = dict(onMessageReceived=on_msg, onDisconnected=on_disc, onConnected=on_conn, timeout=10 ** 6,
              recvBufferSize=rc["recvbuf"])
    stream1 = [b"".join(t.frame(i) for i in rc["peer1"]) + bytes.fromhex(rc["partial"]), 0]

    def fire(sock, mask, recvs):
        sock.recvs = [({"n": x, "so": False} if x != "eof" else ["", False]) for x in recvs]
        sock.sends = []
        sock.so_next = False
        try:
            holder["c"]._TcpConnection__processConnection(sock.fd, mask)
        except Exception as e:   # noqa
            if isinstance(e, AssertionError) and "harness bug" in str(e):
                raise
            obs["exc"].append(type(e).__name__)
        obs["log"].append([sock.fd, mask, holder["c"].state, len(holder["c"]._TcpConnection__readBuffer),
                           len(obs["delivered"]), obs["ndisc"]])

    if rc["init"] == "socket":
        sock1 = FakeSocket(env.cov)
        env.last_sock[0] = sock1
        conn = tc.TcpConnection(poller, socket=sock1, **kw)
        holder["c"] = conn
    else:
        conn = tc.TcpConnection(poller, **kw)
        holder["c"] = conn
        env.connect_ok[0] = True
        conn.connect("127.0.0.1", 4321)
        sock1 = env.last_sock[0]
        fire(sock1, POLL.WRITE, [])
    sock1.stream = stream1
    for recvs in rc["ev1"]:
        env.clock[0] += 1
        if sock1.closed:
            break
        fire(sock1, POLL.READ, recvs)
    sock2 = env.last_sock[0] if env.last_sock[0] is not sock1 else None
    if sock2 is not None and rc["mode"] != "refused":
        env.clock[0] += 1
        fire(sock2, POLL.WRITE if rc["first_mask"] == "w" else POLL.READ | POLL.WRITE, [])
        for recvs in rc["ev2"]:
            env.clock[0] += 1
            if sock2.closed:
                break
            fire(sock2, POLL.READ, recvs)
        for _ in range(rc.get("extra_polls", 0)):
            env.clock[0] += 1
            if sock2.closed:
                break
            fire(sock2, POLL.READ | POLL.WRITE, [])
    obs["state"] = conn.state
    obs["rbuf"] = len(conn._TcpConnection__readBuffer)
    obs["peer1_unread"] = len(stream1[0]) - stream1[1]
    return obs


def monitor_reconnect(env, rc, obs):
    """C13 on one object used for two connections: each connection delivers a prefix of what ITS peer sent"""
    v = []
    for cls in obs["exc"]:
        v.append({"signature": "tcp_connection.reconnect:exception-escaped:" + cls,
                  "what": "exception %s escaped from __processConnection around a reconnect from onDisconnected" % cls})
    first = [i for ep, i in obs["delivered"] if ep == 0]
    second = [i for ep, i in obs["delivered"] if ep >= 1]
    if first != rc["peer1"][:len(first)]:
        v.append({"signature": "tcp_connection.reconnect:first-connection-delivered-differs",
                  "what": "first connection delivered %r, its peer sent %r" % (first[:8], rc["peer1"][:8])})
    if rc["mode"] == "refused":
        if second or obs["state"] != 0 or obs["ndisc"] != 1:
            v.append({"signature": "tcp_connection.reconnect:refused-connect-not-quiet",
                      "what": "connect() from onDisconnected was refused, yet delivered %r, state %s, onDisconnected x%d"
                              % (second[:8], STATE_NAMES.get(obs["state"]), obs["ndisc"])})
        return v
    if second != rc["peer2"][:len(second)]:
        stale = [i for i in second if i in rc["peer1"] and i not in rc["peer2"]]
        v.append({"signature": "tcp_connection.reconnect:delivered-not-prefix-of-new-peer" +
                               (":stale-message-of-old-connection" if stale else ""),
                  "what": "after the reconnect the object delivered ids %r; the new peer sent %r (old peer: %r + %d partial bytes, pattern %s)"
                          % (second[:8], rc["peer2"][:8], rc["peer1"][:8], len(rc["partial"]) // 2, rc["pattern"])})
    elif second != rc["peer2"] or obs["state"] != 2 or obs["rbuf"] != 0:
        v.append({"signature": "tcp_connection.reconnect:new-connection-incomplete",
                  "what": "new peer's whole valid stream was read, delivered %d of %d messages, state %s, %d bytes left in the read buffer"
                          % (len(second), len(rc["peer2"]), STATE_NAMES.get(obs["state"]), obs["rbuf"])})
    if obs["ndisc"] != 1:
        v.append({"signature": "tcp_connection.reconnect:disconnect-count",
                  "what": "one connection was lost, onDisconnected fired %d times" % obs["ndisc"]})
    return v


def public_reconnect(env, rc):
    c = dict(rc)
    c["vals"] = {str(i): env.pk.dumps(env.table.vals[i]).hex() for i in sorted(set(rc["peer1"]) | set(rc["peer2"]))}
    return c


def load_reconnect(env, pc):
    remap = {int(k): env.table.vid(env.pk.loads(bytes.fromhex(h))) for k, h in pc.get("vals", {}).items()}
    c = {k: v for k, v in pc.items() if k != "vals"}
    c["peer1"] = [remap.get(i, i) for i in pc["peer1"]]
    c["peer2"] = [remap.get(i, i) for i in pc["peer2"]]
    return c


def run_reconnect_family(env, rng, n, cov, out, seen=None):
    """runs n cases, appends violations (with replay) to `out`; returns number of cases"""
    cnt = 0
    for rc in gen_reconnect(env, rng, n):
        cnt += 1
        obs = run_reconnect(env, rc)
        for key in ("reconnect:" + rc["pattern"], "reconnect:" + rc["mode"], "reconnect:init-" + rc["init"]):
            cov[key] = cov.get(key, 0) + 1
        if obs["peer1_unread"] == 0 and rc["pattern"] != "eof-alone":
            cov["reconnect:old-data-fully-read"] = cov.get("reconnect:old-data-fully-read", 0) + 1
        if [1 for ep, _ in obs["delivered"] if ep >= 1]:
            cov["reconnect:delivered-on-new-connection"] = cov.get("reconnect:delivered-on-new-connection", 0) + 1
        if seen is not None:
            seen.add(hashlib.sha1(json.dumps(rc, sort_keys=True).encode()).hexdigest())
        for x in monitor_reconnect(env, rc, obs):
            cov["violations"] = cov.get("violations", 0) + 1
            if x["signature"] not in [y["signature"] for y in out] and len(out) < 8:
                x["replay"] = public_reconnect(env, rc)
                out.append(x)
    return cnt


# ------------------------------------------------------------------------------------------------
# family "resend": the WRITE side across successive connections of one object
#   (a) send() while DISCONNECTED, then connect(), then sends on the new connection
#   (b) the onDisconnected callback itself calls connect() and send()
# monitor = C13 per connection: the bytes socket k accepted are a prefix of the frames of exactly the messages
# whose send() was called while connection k was the object's open connection (all of them after a full flush)
# ------------------------------------------------------------------------------------------------
RESEND_VARIANTS = ["send-while-disconnected", "send-from-callback"]
RESEND_CAUSES = ["neg", "undec", "eof", "recverr", "timeout",
                 # the connection dies INSIDE a flush, after the socket took a part of a big message:
                 "send-short-then-error", "send-short-then-negative", "wev-short-then-error"]


def gen_resend(env, rng, n):
    t = env.table

    def msg(big=False):
        return t.vid(rng.randbytes(rng.randrange(3000, 20000)) if big else gen_value(rng))

    def benign(maxlen=6):
        return [x for x in gen_send_script(rng, maxlen) if x not in ("e", -1)]
    for j in range(n):
        variant = RESEND_VARIANTS[j % 2]
        cause = RESEND_CAUSES[(j // 2) % len(RESEND_CAUSES)]
        mode = RECONNECT_MODES[(j // (2 * len(RESEND_CAUSES))) % len(RECONNECT_MODES)]
        ops = []
        for _ in range(rng.randrange(0, 3)):
            ops.append(["send", msg(rng.random() < 0.2), benign()])
        if cause.startswith(("send-", "wev-")):
            ops.append(["kill", cause, msg(True), rng.choice([1, 3, 100, 1000, 2500])])
        else:
            ops.append(["kill", cause])
        cb = None
        if variant == "send-from-callback":
            sends = []
            for _ in range(rng.randrange(1, 3)):
                big = rng.random() < 0.5
                script = rng.choice([[], [], [rng.randrange(1, 30)], [rng.choice([100, 1000, 2000])], [10 ** 9]])
                sends.append([msg(big), script])
            cb = {"mode": mode, "sends": sends}
        else:
            for _ in range(rng.randrange(1, 4)):
                ops.append(["send", msg(rng.random() < 0.3), benign()])      # while DISCONNECTED
            ops.append(["connect", mode])
        if mode == "refused":
            for _ in range(rng.randrange(0, 2)):
                ops.append(["send", msg(), benign()])                        # still DISCONNECTED
            ops.append(["connect", rng.choice(["inprogress", "immediate"])])
        for _ in range(rng.randrange(0, 3)):                                 # while CONNECTING
            ops.append(["send", msg(rng.random() < 0.3), rng.choice([[], [], ["a"], [rng.randrange(1, 50)]])])
        ops.append(["wev", []])                                              # connect completes
        for _ in range(rng.randrange(0, 3)):
            ops.append(["send", msg(rng.random() < 0.3), benign()])
            if rng.random() < 0.3:
                ops.append(["wev", benign()])
        flush = rng.random() < 0.8
        if flush:
            ops.append(["wev", [10 ** 9] * 4])
        yield {"kind": "resend", "variant": variant, "cause": cause, "mode": mode, "timeout": 1000,
               "init": rng.choice(["socket", "connect"]), "cb": cb, "ops": ops, "flush": flush}


def run_resend(env, sc):
    tc, t = env.tc, env.table
    POLL = env.pl.POLL_EVENT_TYPE
    poller = FakePoller()
    obs = {"ndisc": 0, "exc": [], "conns": [], "expected_ndisc": 0, "cov": [], "delivered": 0}
    holder = {"cb_used": False}
    MODE = {"inprogress": True, "immediate": "immediate", "refused": False}

    def do_send(mid, script, where):
        conn = holder["c"]
        sock = env.last_sock[0]
        live = conn.state != 0              # public API: is there an open (or opening) connection to send on?
        cur = len(obs["conns"]) - 1         # ... and which one (the callback may dial a new one during this send)
        if sock is not None and not sock.closed:
            sock.sends = list(script)
        before = len(sock.wire) if sock is not None else 0
        try:
            conn.send(t.vals[mid])
        except Exception as e:   # noqa
            obs["exc"].append("send:" + type(e).__name__)
        if live and cur >= 0:
            obs["conns"][cur]["expected"].append(mid)
        took = (len(sock.wire) if sock is not None else 0) - before
        if not live:
            obs["cov"].append("a-send-while-disconnected")
        elif where == "callback":
            flen = len(t.frame(mid))
            obs["cov"].append("callback-send-" + ("eagain" if took == 0 else "partial" if took < flen else "full"))

    def do_connect(mode):
        env.connect_ok[0] = MODE[mode]
        env.next_sends[:] = []
        try:
            ok = holder["c"].connect("127.0.0.1", 4321)
        except Exception as e:   # noqa
            obs["exc"].append("connect:" + type(e).__name__)
            ok = False
        if ok:
            obs["conns"].append({"sock": env.last_sock[0], "expected": [], "how": mode})
        return ok

    def on_disc():
        obs["ndisc"] += 1
        if sc["cb"] and not holder["cb_used"]:
            holder["cb_used"] = True
            if do_connect(sc["cb"]["mode"]):
                if obs["cov"] is not None:
                    obs["cov"].append("callback-connect-ok")
            for mid, script in sc["cb"]["sends"]:
                do_send(mid, script, "callback")

    def on_msg(m):
        obs["delivered"] += 1

    def fire(mask, recvs, sends):
        sock = env.last_sock[0]
        sock.recvs = list(recvs)
        sock.sends = list(sends)
        sock.so_next = False
        try:
            holder["c"]._TcpConnection__processConnection(sock.fd, mask)
        except Exception as e:   # noqa
            if isinstance(e, AssertionError) and "harness bug" in str(e):
                raise
            obs["exc"].append("event-loop:" + type(e).__name__)

    env.clock[0] = 0
    kw = dict(onMessageReceived=on_msg, onDisconnected=on_disc, timeout=sc["timeout"])
    if sc["init"] == "socket":
        sock = FakeSocket(env.cov)
        env.last_sock[0] = sock
        holder["c"] = tc.TcpConnection(poller, socket=sock, **kw)
        obs["conns"].append({"sock": sock, "expected": [], "how": "accepted-socket"})
    else:
        holder["c"] = tc.TcpConnection(poller, **kw)
        do_connect("inprogress")
        fire(POLL.WRITE, [], [])
    conn = holder["c"]
    a = t.vid({"type": "x", "n": 1})
    for op in sc["ops"]:
        env.clock[0] += 1
        sock = env.last_sock[0]
        if op[0] == "send":
            do_send(op[1], op[2], "app")
        elif op[0] == "connect":
            do_connect(op[1])
        elif op[0] == "wev":
            if sock is not None and not sock.closed and conn.state != 0:
                fire(POLL.WRITE, [], op[1])
        elif op[0] == "kill":
            if conn.state == 0 or sock is None or sock.closed:
                continue
            obs["expected_ndisc"] += 1
            cause = op[1]
            if cause == "timeout":
                env.clock[0] += sc["timeout"] + 1
                fire(POLL.WRITE, [], [])
            elif cause == "neg":
                fire(POLL.READ, [[(struct.pack("<i", -7) + t.payload[a]).hex(), False]], [])
            elif cause == "undec":
                fire(POLL.READ, [[(struct.pack("<i", 3) + b"xyz").hex(), False]], [])
            elif cause == "eof":
                fire(POLL.READ, [["", False]], [])
            elif cause == "send-short-then-error":
                do_send(op[2], [op[3], "e"], "app")
            elif cause == "send-short-then-negative":
                do_send(op[2], [op[3], -1], "app")
            elif cause == "wev-short-then-error":
                do_send(op[2], [op[3], "a"], "app")
                env.clock[0] += 1
                fire(POLL.WRITE, [], [1, "e"])
            else:
                fire(POLL.READ, ["e"], [])
    obs["state"] = conn.state
    obs["wbuf"] = len(conn._TcpConnection__writeBuffer)
    return obs


def decode_wire(table, wire):
    """independent reading of a byte stream: -> (ids of the whole decodable frames, description of what follows)"""
    ids, pos = [], 0
    while len(wire) - pos >= 4:
        l = struct.unpack("<i", wire[pos:pos + 4])[0]
        if l < 0:
            return ids, "negative length field at offset %d" % pos
        if len(wire) - pos - 4 < l:
            return ids, "partial frame (%d of %d payload bytes)" % (len(wire) - pos - 4, l)
        ok, vid = table.real_dec(wire[pos + 4:pos + 4 + l])
        if not ok:
            return ids, "undecodable frame of length %d at offset %d" % (l, pos)
        ids.append(vid)
        pos += 4 + l
    return ids, ("%d trailing bytes" % (len(wire) - pos)) if pos < len(wire) else "end"


def monitor_resend(env, sc, obs):
    t = env.table
    v = []
    for x in obs["exc"]:
        v.append({"signature": "tcp_connection.resend:exception-escaped:" + x,
                  "what": "exception escaped (%s) around disconnect / connect / send" % x})
    for k, cn in enumerate(obs["conns"]):
        wire = bytes(cn["sock"].wire)
        F = b"".join(t.frame(i) for i in cn["expected"])
        if wire != F[:len(wire)]:
            got, tail = decode_wire(t, wire)
            stale = [i for i in got if i not in cn["expected"]]
            kind = "message-of-another-connection" if stale else "torn-or-lost-frame"
            v.append({"signature": "tcp_connection.resend:wire-not-prefix-of-sent-on-connection:" + kind,
                      "what": "connection #%d (%s): the peer reads message ids %r then %s; sent on this connection: %r"
                              % (k, cn["how"], got[:8], tail, cn["expected"][:8])})
    if obs["conns"] and sc["flush"] and obs["state"] == 2:
        cn = obs["conns"][-1]
        F = b"".join(t.frame(i) for i in cn["expected"])
        if bytes(cn["sock"].wire) != F or obs["wbuf"] != 0:
            v.append({"signature": "tcp_connection.resend:message-lost-after-flush",
                      "what": "connection up, socket took everything offered, yet the peer has %d of %d bytes (write buffer %d)"
                              % (len(cn["sock"].wire), len(F), obs["wbuf"])})
    if obs["ndisc"] != obs["expected_ndisc"]:
        v.append({"signature": "tcp_connection.resend:disconnect-count",
                  "what": "%d connection(s) were lost, onDisconnected fired %d times" % (obs["expected_ndisc"], obs["ndisc"])})
    return v


def public_resend(env, sc):
    ids = set(op[1] for op in sc["ops"] if op[0] == "send") | set(m for m, _ in (sc["cb"] or {}).get("sends", [])) | \
        set(op[2] for op in sc["ops"] if op[0] == "kill" and len(op) > 2)
    c = json.loads(json.dumps(sc))
    c["vals"] = {str(i): env.pk.dumps(env.table.vals[i]).hex() for i in sorted(ids)}
    return c


def load_resend(env, pc):
    remap = {int(k): env.table.vid(env.pk.loads(bytes.fromhex(h))) for k, h in pc.get("vals", {}).items()}
    c = {k: v for k, v in pc.items() if k != "vals"}
    c["ops"] = [[op[0], remap.get(op[1], op[1]), op[2]] if op[0] == "send" else
                ([op[0], op[1], remap.get(op[2], op[2]), op[3]] if op[0] == "kill" and len(op) > 2 else op)
                for op in pc["ops"]]
    if pc.get("cb"):
        c["cb"] = {"mode": pc["cb"]["mode"], "sends": [[remap.get(m, m), sc] for m, sc in pc["cb"]["sends"]]}
    return c


def run_resend_family(env, rng, n, cov, out, seen=None):
    cnt = 0
    for sc in gen_resend(env, rng, n):
        cnt += 1
        obs = run_resend(env, sc)
        for key in ["resend:" + sc["variant"], "resend:cause-" + sc["cause"], "resend:mode-" + sc["mode"]] + \
                ["resend:" + x for x in set(obs["cov"])]:
            cov[key] = cov.get(key, 0) + 1
        if "a-send-while-disconnected" in obs["cov"] and len(obs["conns"]) >= 2 and obs["conns"][-1]["expected"]:
            cov["resend:send-while-disconnected-then-connect"] = cov.get("resend:send-while-disconnected-then-connect", 0) + 1
        if seen is not None:
            seen.add(hashlib.sha1(json.dumps(sc, sort_keys=True).encode()).hexdigest())
        for x in monitor_resend(env, sc, obs):
            cov["violations"] = cov.get("violations", 0) + 1
            if x["signature"] not in [y["signature"] for y in out] and len(out) < 8:
                x["replay"] = public_resend(env, sc)
                out.append(x)
    return cnt


RESEND_FLOORS = ["resend:" + x for x in RESEND_VARIANTS] + ["resend:cause-" + x for x in RESEND_CAUSES] + \
    ["resend:mode-" + x for x in RECONNECT_MODES] + \
    ["resend:send-while-disconnected-then-connect", "resend:callback-send-partial", "resend:callback-send-eagain",
     "resend:callback-send-full", "resend:callback-connect-ok"]


# ------------------------------------------------------------------------------------------------
# family "drain" (monitor only): a burst of sends whose tail the socket does not take at once, then the
# application is silent.  The poller is simulated faithfully: a WRITE event is delivered only while the
# connection's descriptor is subscribed for WRITE.  The peer keeps reading (every send() takes >= 1 byte).
# monitor: the peer ends up with the frames of ALL messages sent (D76: before the repair the tail waits for the
# next send()).
# ------------------------------------------------------------------------------------------------
DRAIN_LAST = ["eagain", "short", "zero"]


def gen_drain(env, rng, n):
    t = env.table
    for j in range(n):
        last = DRAIN_LAST[j % len(DRAIN_LAST)]
        msgs = []
        for _ in range(rng.randrange(1, 4)):
            big = rng.random() < 0.4
            m = t.vid(rng.randbytes(rng.randrange(3000, 40000)) if big else gen_value(rng))
            script = [x for x in gen_send_script(rng, 5) if x not in ("e", -1)]
            msgs.append([m, script])
        # the last send certainly leaves bytes behind
        msgs[-1][1] = {"eagain": ["a"], "short": [rng.randrange(1, 4), "a"], "zero": [0]}[last]
        dc = {"kind": "drain", "last": last, "init": rng.choice(["socket", "connect"]),
              "warm_write_events": rng.randrange(1, 3), "msgs": msgs,
              "accept": rng.choice([1, 7, 100, 4096, 10 ** 9]), "both_bits": rng.random() < 0.3}
        if j % 2 == 1:
            # an outgoing connection whose onConnected handler queues more than the socket takes at once
            # (sizes 10 ... 300000); afterwards the application is silent (or sends one more burst)
            oc = []
            for _ in range(rng.randrange(1, 4)):
                size = rng.choice([10, 100, 5000, 70000, 300000])
                oc.append([t.vid(rng.randbytes(size)), [x for x in gen_send_script(rng, 4) if x not in ("e", -1)]])
            oc[-1][1] = {"eagain": ["a"], "short": [rng.choice([1, 3, 1000, 8192]), "a"], "zero": [0]}[last]
            dc.update({"init": "connect", "onconn": oc, "warm_write_events": 0,
                       "msgs": msgs if rng.random() < 0.3 else []})
        yield dc


def run_drain(env, dc, rounds=400):
    tc, t = env.tc, env.table
    POLL = env.pl.POLL_EVENT_TYPE
    poller = FakePoller()
    obs = {"exc": [], "ndisc": 0, "write_events": 0}

    def on_disc():
        obs["ndisc"] += 1
    env.clock[0] = 0
    holder = {}

    def on_conn():
        for m, script in dc.get("onconn") or []:
            holder["sock"].sends = list(script)
            holder["c"].send(t.vals[m])
    kw = dict(onDisconnected=on_disc, onConnected=on_conn, timeout=10 ** 6)
    if dc["init"] == "socket":
        sock = FakeSocket(env.cov)
        env.last_sock[0] = sock
        conn = tc.TcpConnection(poller, socket=sock, **kw)
    else:
        conn = tc.TcpConnection(poller, **kw)
        env.connect_ok[0] = True
        env.next_sends[:] = []
        conn.connect("127.0.0.1", 4321)
        sock = env.last_sock[0]
    holder["c"], holder["sock"] = conn, sock

    def fire(mask, sends):
        sock.sends = list(sends)
        sock.recvs = []
        sock.so_next = False
        try:
            conn._TcpConnection__processConnection(sock.fd, mask)
        except Exception as e:   # noqa
            if isinstance(e, AssertionError) and "harness bug" in str(e):
                raise
            obs["exc"].append(type(e).__name__)

    def poll_once(sends):
        """what a real poller does for a writable, not readable socket"""
        m = poller.masks.get(sock.fd, 0)
        if m & POLL.WRITE:
            obs["write_events"] += 1
            fire(POLL.WRITE, sends)
            return True
        return False
    for _ in range(dc["warm_write_events"] + (1 if dc["init"] == "connect" else 0)):
        poll_once([10 ** 9])
    obs["mask_before_burst"] = poller.masks.get(sock.fd, -1)
    obs["pending_after_onconnected"] = len(conn._TcpConnection__writeBuffer)
    for m, script in dc["msgs"]:
        env.clock[0] += 1
        sock.sends = list(script)
        try:
            conn.send(t.vals[m])
        except Exception as e:   # noqa
            obs["exc"].append("send:" + type(e).__name__)
    obs["pending_after_burst"] = len(conn._TcpConnection__writeBuffer)
    obs["mask_after_burst"] = poller.masks.get(sock.fd, -1)
    total = sum(len(t.frame(m)) for m, _ in (dc.get("onconn") or []) + dc["msgs"])
    k = max(dc["accept"], total // (rounds // 2) + 1)
    n = 0
    while n < rounds and conn.state == 2:
        n += 1
        env.clock[0] += 1
        if not poll_once([k]):          # nothing subscribed for WRITE: a real poller sleeps
            break
    obs["rounds"] = n
    obs["state"] = conn.state
    obs["wbuf"] = len(conn._TcpConnection__writeBuffer)
    obs["wire"] = bytes(sock.wire)
    obs["mask_end"] = poller.masks.get(sock.fd, -1)
    return obs


def monitor_drain(env, dc, obs):
    t = env.table
    v = []
    for x in obs["exc"]:
        v.append({"signature": "tcp_connection.drain:exception-escaped:" + x, "what": "exception escaped: " + x})
    allmsgs = (dc.get("onconn") or []) + dc["msgs"]
    F = b"".join(t.frame(m) for m, _ in allmsgs)
    if obs["wire"] != F:
        if obs["wire"] == F[:len(obs["wire"])] and obs["state"] == 2:
            v.append({"signature": "tcp_connection.write:partial-write-never-flushed",
                      "what": ("%d of them from inside onConnected; " % len(dc["onconn"]) if dc.get("onconn") else "") +
                              "%d messages sent, the last send() left %d bytes in the write buffer (%s); the peer keeps reading "
                              "and the poller keeps running (%d WRITE events delivered, subscription mask %s), nothing further is "
                              "sent: the peer has %d of %d bytes, %d bytes still pending"
                              % (len(allmsgs), obs["pending_after_burst"], dc["last"], obs["write_events"],
                                 obs["mask_after_burst"], len(obs["wire"]), len(F), obs["wbuf"])})
        else:
            v.append({"signature": "tcp_connection.drain:wire-differs",
                      "what": "peer has %d bytes, frames of the sent messages are %d bytes, state %s"
                              % (len(obs["wire"]), len(F), STATE_NAMES.get(obs["state"]))})
    elif obs["state"] != 2 or obs["ndisc"]:
        v.append({"signature": "tcp_connection.drain:disconnected",
                  "what": "benign writes only, connection is %s" % STATE_NAMES.get(obs["state"])})
    return v


def public_drain(env, dc):
    c = json.loads(json.dumps(dc))
    c["vals"] = {str(m): env.pk.dumps(env.table.vals[m]).hex() for m, _ in (dc.get("onconn") or []) + dc["msgs"]}
    return c


def load_drain(env, pc):
    remap = {int(k): env.table.vid(env.pk.loads(bytes.fromhex(h))) for k, h in pc.get("vals", {}).items()}
    c = {k: v for k, v in pc.items() if k != "vals"}
    c["msgs"] = [[remap.get(m, m), sc] for m, sc in pc["msgs"]]
    if pc.get("onconn"):
        c["onconn"] = [[remap.get(m, m), sc] for m, sc in pc["onconn"]]
    return c


def run_drain_family(env, rng, n, cov, out, seen=None):
    cnt = 0
    for dc in gen_drain(env, rng, n):
        cnt += 1
        obs = run_drain(env, dc)
        for key in ("drain:last-" + dc["last"], "drain:init-" + dc["init"]):
            cov[key] = cov.get(key, 0) + 1
        if obs["mask_before_burst"] == 5 and obs["pending_after_burst"] > 0:
            cov["drain:tail-pending-with-write-interest-dropped"] = cov.get("drain:tail-pending-with-write-interest-dropped", 0) + 1
        if obs["pending_after_burst"] > 8192:
            cov["drain:tail>8192"] = cov.get("drain:tail>8192", 0) + 1
        if dc.get("onconn") and obs["pending_after_onconnected"] > 0:
            cov["drain:backlog-queued-by-onconnected"] = cov.get("drain:backlog-queued-by-onconnected", 0) + 1
            if obs["pending_after_onconnected"] > 100000:
                cov["drain:onconnected-backlog>100000"] = cov.get("drain:onconnected-backlog>100000", 0) + 1
        if seen is not None:
            seen.add(hashlib.sha1(json.dumps(dc, sort_keys=True).encode()).hexdigest())
        for x in monitor_drain(env, dc, obs):
            cov["violations"] = cov.get("violations", 0) + 1
            if x["signature"] not in [y["signature"] for y in out] and len(out) < 8:
                x["replay"] = public_drain(env, dc)
                out.append(x)
    return cnt


DRAIN_FLOORS = ["drain:last-" + x for x in DRAIN_LAST] + ["drain:init-socket", "drain:init-connect",
                                                          "drain:tail-pending-with-write-interest-dropped", "drain:tail>8192",
                                                          "drain:backlog-queued-by-onconnected",
                                                          "drain:onconnected-backlog>100000"]


# ------------------------------------------------------------------------------------------------
# compare / shrink
# ------------------------------------------------------------------------------------------------
def first_diff(model, real):
    ms, rs = model["steps"], real["steps"]
    for i in range(max(len(ms), len(rs))):
        a = ms[i] if i < len(ms) else None
        b = rs[i] if i < len(rs) else None
        if a != b:
            return i, a, b
    if model["delivered"] != real["delivered"]:
        return len(ms), model["delivered"], real["delivered"]
    if real["exc"]:
        return real["exc"][0][0], "no exception", real["exc"][0]
    return None


STEP_FIELDS = ["state", "rlen", "radler", "wlen", "wadler", "wirelen", "wireadler", "ndelivered", "ndisc", "mask",
               "lastRead"]


def shrink(ctx, env, case):
    """greedy: drop events while model and implementation still disagree"""
    cur = case
    budget = 60
    changed = True
    while changed and budget > 0:
        changed = False
        for i in range(len(cur["evs"]) - 1, -1, -1):
            budget -= 1
            if budget <= 0:
                break
            cand = dict(cur)
            cand["evs"] = cur["evs"][:i] + cur["evs"][i + 1:]
            cand["dec"] = list(cur["dec"])
            cand["enc"] = list(cur["enc"])
            cand["none"] = list(cur["none"])
            cand["_ids"] = set(cur["_ids"])
            try:
                m = run_model(ctx, env, [cand])[0]
                r = env.run_real(cand)
            except Exception:
                continue
            if first_diff(m, r) is not None:
                cur = cand
                changed = True
                break
    return cur


def public_case(env, case, maxhex=400):
    """JSON-able copy for reports/replays (values travel as pickles so that a replay can re-send them)"""
    c = {k: v for k, v in case.items() if not k.startswith("_")}
    c["vals"] = {str(i): env.pk.dumps(env.table.vals[i]).hex() for i in sorted(case["_ids"])}
    return c


def case_hash(case):
    h = hashlib.sha1()
    h.update(json.dumps([case["timeout"], case["init"], case["cbdisc"], case["evs"],
                         sorted(case["_ids"])], sort_keys=True).encode())
    return h.hexdigest()


def nontrivial(case):
    return any(e["k"] == "send" or (e["k"] == "poll" and (e["r"] or e["s"])) for e in case["evs"])


# ------------------------------------------------------------------------------------------------
# entry points
# ------------------------------------------------------------------------------------------------
def all_cases(ctx, env):
    """generator: corpus, then the systematic enumerators, then the random streams"""
    rng = ctx.rng("tcp_framing")
    corpus_dir = os.path.join(ctx.verif, "corpus", "framing")
    if os.path.isdir(corpus_dir):
        for fn in sorted(os.listdir(corpus_dir)):
            if fn.endswith(".json"):
                yield load_public_case(env, json.load(open(os.path.join(corpus_dir, fn))))
    for c in gen_directed(env):
        yield c
    for g in (gen_reader_exhaustive(env, rng, ctx.scale(4, 40), ctx.scale(9, 12)),
              gen_reader_random(env, rng, ctx.scale(300, 6000)),
              gen_corrupt(env, rng, ctx.scale(640, 12800)),
              gen_writer(env, rng, ctx.scale(300, 6000), benign=True),
              gen_writer(env, rng, ctx.scale(200, 4000), benign=False),
              gen_mixed(env, rng, ctx.scale(1500, 40000)),
              gen_slow(env, ctx.rng("tcp_framing/slow"), ctx.scale(120, 3000)),
              gen_bursts(env, ctx.rng("tcp_framing/bursts"), ctx.scale(1, 8))):
        for c in g:
            yield c


def batches(it, n):
    buf = []
    for x in it:
        buf.append(x)
        if len(buf) >= n:
            yield buf
            buf = []
    if buf:
        yield buf


def load_public_case(env, pc):
    """inverse of public_case: re-register the values, remap ids"""
    remap = {}
    for k, h in pc.get("vals", {}).items():
        remap[int(k)] = env.table.vid(env.pk.loads(bytes.fromhex(h)))
    c = new_case(env, pc.get("kind", "replay"), timeout=pc["timeout"], sock=pc["init"]["sock"], now=pc["init"]["now"],
                 recvbuf=pc.get("recvbuf", 2 ** 13))
    for old, new in remap.items():
        add_msg(env, c, new)
    for h, i in pc.get("dec", []):
        if [h, remap.get(i, i)] not in c["dec"]:
            c["dec"].append([h, remap.get(i, i)])
    c["cbdisc"] = [remap.get(i, i) for i in pc.get("cbdisc", [])]
    evs = []
    for e in pc["evs"]:
        e = dict(e)
        if e["k"] == "send":
            e["m"] = remap.get(e["m"], e["m"])
        evs.append(e)
    c["evs"] = evs
    ex = dict(pc.get("expect", {}))
    for key in ("sent", "peer"):
        if key in ex:
            ex[key] = [remap.get(i, i) for i in ex[key]]
    if ex.get("then") is not None:
        ex["then"] = remap.get(ex["then"], ex["then"])
    c["expect"] = ex
    if pc.get("pinned"):
        c["pinned"] = True
    return c


def run(ctx):
    t0 = time.time()
    cov = {}
    res = {"cases": 0, "distinct": 0, "coverage": cov, "samples": [], "disagreements": [], "violations": []}
    with Env(ctx.repo, cov) as env:
        seen = set()
        mrng = ctx.rng("tcp_framing/monitor")
        kinds = {}
        sample_src = []

        def triples():
            for cases in batches(all_cases(ctx, env), 1000):
                reals = [env.run_real(c) for c in cases]
                models = run_model(ctx, env, cases)
                for c in cases:
                    if c["kind"] in ("reader-random", "corrupt-neg_exact", "writer-benign") and \
                            c["kind"] not in [x["kind"] for x in sample_src]:
                        sample_src.append(c)
                for t3 in zip(cases, models, reals):
                    yield t3
        for c, m, r in triples():
            res["cases"] += 1
            kk = c["kind"] if c["kind"].startswith(("reader", "writer", "mixed")) else c["kind"].split("-")[0]
            kinds[kk] = kinds.get(kk, 0) + 1
            if nontrivial(c):
                seen.add(case_hash(c))
            ex = c.get("expect", {})
            if c.get("burst"):
                cov["burst:" + c["kind"][6:]] = cov.get("burst:" + c["kind"][6:], 0) + 1
                if c["burst"] >= 1000:
                    cov["burst:1000-frames-in-one-pass"] = cov.get("burst:1000-frames-in-one-pass", 0) + 1
            if c["kind"] in SLOW_KINDS:
                cov["timeout:" + c["kind"]] = cov.get("timeout:" + c["kind"], 0) + 1
            if ex.get("mon") == "corrupt":
                cov["class:" + ex["class"]] = cov.get("class:" + ex["class"], 0) + 1
            for e in c["evs"]:
                cov["ev:" + e["k"]] = cov.get("ev:" + e["k"], 0) + 1
            for s_prev, s in zip([None] + r["steps"][:-1], r["steps"]):
                if s_prev is not None and s[8] > s_prev[8]:
                    cov["disconnects"] = cov.get("disconnects", 0) + 1
            cov["delivered"] = cov.get("delivered", 0) + len(r["delivered"])
            mx = max([len(env.table.payload[i]) for i in c["_ids"]] or [0])
            b = "payload<=64" if mx <= 64 else "payload<=8192" if mx <= 8192 else "payload>8192"
            cov[b] = cov.get(b, 0) + 1
            d = first_diff(m, r)
            viol = monitor(env, c, r, mrng)
            for x in viol:
                if len(res["violations"]) < 8 and x["signature"] not in [y["signature"] for y in res["violations"]]:
                    x["replay"] = public_case(env, c)
                    res["violations"].append(x)
                cov["violations"] = cov.get("violations", 0) + 1
            if d is not None:
                cov["disagreements"] = cov.get("disagreements", 0) + 1
                if len(res["disagreements"]) < 3:
                    small = shrink(ctx, env, c)
                    m2 = run_model(ctx, env, [small])[0]
                    r2 = env.run_real(small)
                    d2 = first_diff(m2, r2) or d
                    res["disagreements"].append({
                        "input": public_case(env, small),
                        "model": dict(zip(STEP_FIELDS, d2[1])) if isinstance(d2[1], list) and len(d2[1]) == 11 else d2[1],
                        "impl": dict(zip(STEP_FIELDS, d2[2])) if isinstance(d2[2], list) and len(d2[2]) == 11 else d2[2],
                        "note": "first difference after event %d of kind %s (case kind %s)" % (
                            d2[0], small["evs"][d2[0]]["k"] if d2[0] < len(small["evs"]) else "end", c["kind"])})
        nrec = run_reconnect_family(env, ctx.rng("tcp_framing/reconnect"), ctx.scale(240, 6000), cov,
                                    res["violations"], seen)
        res["cases"] += nrec
        kinds["reconnect"] = nrec
        nres = run_resend_family(env, ctx.rng("tcp_framing/resend"), ctx.scale(300, 6000), cov,
                                 res["violations"], seen)
        res["cases"] += nres
        kinds["resend"] = nres
        ndr = run_drain_family(env, ctx.rng("tcp_framing/drain"), ctx.scale(150, 3000), cov, res["violations"], seen)
        res["cases"] += ndr
        kinds["drain"] = ndr
        res["distinct"] = len(seen)
        cov["kinds"] = kinds
        for c in sample_src:
            if True:
                pc = public_case(env, c)
                pc["evs"] = pc["evs"][:3]
                pc.pop("vals", None)
                pc["enc"] = [[i, h[:40]] for i, h in pc["enc"]][:3]
                pc["dec"] = [[h[:40], i] for h, i in pc["dec"]][:3]
                for e in pc["evs"]:
                    if "r" in e:
                        e["r"] = [[x[0][:40], x[1]] if isinstance(x, list) else x for x in e["r"]][:4]
                res["samples"].append(pc)
        # coverage floors (met by construction: gen_directed + the round-robin over CORRUPTIONS)
        floors = ["send:full", "send:short", "send:zero", "send:negative", "send:eagain", "send:error",
                  "recv:data", "recv:eof", "recv:error", "recv:eagain", "so_error", "class:negative",
                  "class:undecodable", "class:incomplete", "class:decodes", "ev:send", "ev:poll", "ev:disc", "ev:conn",
                  "payload>8192", "disconnects"] + ["reconnect:" + x for x in RECONNECT_PATTERNS + RECONNECT_MODES] + \
                 ["reconnect:old-data-fully-read", "reconnect:delivered-on-new-connection"] + \
                 ["timeout:" + x for x in SLOW_KINDS] + RESEND_FLOORS + DRAIN_FLOORS + \
                 ["burst:one-read", "burst:two-reads", "burst:with-partial-tail", "burst:1000-frames-in-one-pass"]
        missing = [f for f in floors if not cov.get(f)]
        if missing:
            res["inconclusive"] = "coverage floor missed: " + ", ".join(missing)
    res["wall_s"] = round(time.time() - t0, 2)
    return res


def search(ctx, unproved):
    """look for a concrete input on which the REAL code breaks the property statement (monitors only)"""
    out = []
    cov = {}
    with Env(ctx.repo, cov) as env:
        for salt in range(ctx.scale(3, 20)):
            rng = ctx.rng("tcp_framing/search/%d" % salt)
            cases = gen_directed(env) + list(gen_corrupt(env, rng, 320)) + list(gen_reader_random(env, rng, 100)) + \
                list(gen_writer(env, rng, 100, True)) + list(gen_writer(env, rng, 60, False)) + \
                list(gen_reader_exhaustive(env, rng, 1, 8)) + list(gen_slow(env, rng, 60)) + \
                (list(gen_bursts(env, rng, 1)) if salt == 0 else [])
            for c in cases:
                r = env.run_real(c)
                for x in monitor(env, c, r, rng):
                    if x["signature"] not in [y["signature"] for y in out]:
                        x["replay"] = public_case(env, c)
                        out.append(x)
            run_reconnect_family(env, ctx.rng("tcp_framing/search-reconnect/%d" % salt), 240, cov, out)
            run_resend_family(env, ctx.rng("tcp_framing/search-resend/%d" % salt), 300, cov, out)
            run_drain_family(env, ctx.rng("tcp_framing/search-drain/%d" % salt), 90, cov, out)
            if out:
                break
    return out


def replay(ctx, violation):
    pc = violation.get("replay")
    if not pc:
        return {"violated": False, "note": "no replay data in the violation record"}
    if pc.get("kind") == "drain":
        with Env(ctx.repo, {}) as env:
            dc = load_drain(env, pc)
            obs = run_drain(env, dc)
            viol = monitor_drain(env, dc, obs)
            return {"violated": bool(viol), "violations": viol,
                    "implementation": {k: (v if k != "wire" else len(v)) for k, v in obs.items()},
                    "expect": "peer receives %d bytes = frames of %d messages" % (
                        sum(len(env.table.frame(m)) for m, _ in (dc.get("onconn") or []) + dc["msgs"]),
                        len((dc.get("onconn") or []) + dc["msgs"])),
                    "model": "theorems write_interest_armed / write_buffer_drains; this family is a monitor on the real "
                             "code with a faithfully simulated poller"}
    if pc.get("kind") == "resend":
        with Env(ctx.repo, {}) as env:
            sc = load_resend(env, pc)
            obs = run_resend(env, sc)
            viol = monitor_resend(env, sc, obs)
            return {"violated": bool(viol), "violations": viol,
                    "implementation": {"connections": [{"how": cn["how"], "sent_on_it": cn["expected"],
                                                        "peer_reads": decode_wire(env.table, bytes(cn["sock"].wire))}
                                                       for cn in obs["conns"]],
                                       "state": STATE_NAMES.get(obs["state"]), "onDisconnected": obs["ndisc"],
                                       "write_buffer_len": obs["wbuf"], "exceptions": obs["exc"]},
                    "scenario": {k: sc[k] for k in ("variant", "cause", "mode", "init", "flush")},
                    "model": "not modelled (sends / connects from inside onDisconnected are outside the model's alphabet): monitor only"}
    if pc.get("kind") == "reconnect":
        with Env(ctx.repo, {}) as env:
            rc = load_reconnect(env, pc)
            obs = run_reconnect(env, rc)
            viol = monitor_reconnect(env, rc, obs)
            return {"violated": bool(viol), "violations": viol,
                    "implementation": {"delivered_(epoch,id)": obs["delivered"], "state": STATE_NAMES.get(obs["state"]),
                                       "onDisconnected": obs["ndisc"], "onConnected": obs["nconn"],
                                       "connect()_returned": obs["reconnect_result"], "exceptions": obs["exc"],
                                       "read_buffer_len": obs["rbuf"],
                                       "events_[fd,mask,state,rbuf,ndelivered,ndisc]": obs["log"][:40]},
                    "expect": {"first connection": "prefix of %r" % rc["peer1"], "after reconnect": rc["peer2"],
                               "pattern": rc["pattern"], "mode": rc["mode"]},
                    "model": "not modelled (callback that reconnects is outside the model's alphabet): monitor only"}
    with Env(ctx.repo, {}) as env:
        c = load_public_case(env, pc)
        r = env.run_real(c)
        viol = monitor(env, c, r, ctx.rng("replay"))
        try:
            m = run_model(ctx, env, [c])[0]
        except Exception as e:   # noqa
            m = {"error": str(e)}
        return {"violated": bool(viol), "violations": [{k: v for k, v in x.items() if k != "replay"} for x in viol],
                "implementation": {"delivered": r["delivered"], "state": STATE_NAMES.get(r["state"]),
                                   "onDisconnected": r["ndisc"], "exceptions": r["exc"],
                                   "steps": [dict(zip(STEP_FIELDS, s)) for s in r["steps"][:20]]},
                "model": {"delivered": m.get("delivered"),
                          "steps": [dict(zip(STEP_FIELDS, s)) for s in m.get("steps", [])[:20]], "error": m.get("error")},
                "expect": c.get("expect")}
