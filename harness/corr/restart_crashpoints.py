"""Kills INSIDE a step, between two storage writes, on the REAL code (C06; the vote / term part: C07).

For ONE real handler call (message handler, tick, submission, constructor) of a journaled `SyncObj` node
running under harness/sim.py the primitive storage writes are intercepted:

  journal.resize / journal.record-store / journal.header-store   the mmap of `ResizableFile` is a proxy
        (module global `pysyncobj.journal.mmap` replaced by a shim for the whole run of this component)
  journal.tmp-remove / journal.tmp-create / journal.tmp-write     the head drop (`FileJournal.deleteEntriesTo`, repair
  journal.tmp-resize / journal.tmp-record-store /                 D15) builds `<journal>.tmp` and moves it over the
  journal.tmp-header-store / journal.rename / journal.reopen      journal: `pysyncobj.journal.os` (proxy: `remove`),
        `pysyncobj.journal.open` ('wb' of a non-meta file = creation with the default header), the mmap proxy of the
        tmp file, `shutil.move(tmp, journal)`, and the mapping of the replaced journal (no write; a crash point)
  meta.tmp-create / meta.tmp-write / meta.move                   `pysyncobj.journal.open` (only `*.meta.tmp`,
        'wb') and `pysyncobj.journal.shutil` (proxy: `move`)
  dump.tmp-create / dump.tmp-write / dump.rename                 `pysyncobj.serializer.open` (only 'wb': the
  snapin.tmp-create / snapin.tmp-write / snapin.rename            files are opened unbuffered so every write is
        a primitive) and `pysyncobj.serializer.atomicReplace`     (`*.tmp` = own dump, `*.1.tmp` = incoming)

Before every primitive write (and once more in the middle of every tearable one: record bytes, tmp file
data) the node's files are copied together with the number of messages it had handed to the transport
by then: that is the disk a kill at this point leaves (mmap stores are page-cache stores: they survive
kill -9; nothing the process has not written yet does).  Nothing is raised inside the real handler; it
completes, then for EVERY such crash point a second real `SyncObj` is started on the copy (inert
transport, same clock) and ticked twice, and the C06 / C07 statements are evaluated for it:

 C06  acknowledged ⊆ journal   entries of the node's log that survive the step and were acknowledged
                               before the step, or by a reply of THIS step that was handed to the transport
                               before the crash point, are in the recovered journal or under the loaded
                               dump                                   restart:acknowledged-entries-lost
      recovered state = replay the object state after the first ticks is the execution of the common
                               command sequence up to the recovered applied position; applied reaches the
                               recovered commit index; no gap between applied and the journal head; the
                               commit index is not beyond what the node knew
                                   restart:state-not-replay-of-committed-prefix, restart:commit-index-beyond-known,
                                   restart:journal-only-compaction-wedges, restart:position-executed-twice-in-generation
      dump readable or absent  restart:dump-file-torn
      recovery does not raise  restart:recovery-raises:<Exc>
      a crash point inside `FileJournal.deleteEntriesTo` that loses entries is reported with the journal
      component's signature journal.deleteEntriesTo:kill-between-clear-and-readd (D15, repaired in /repo 4be213c:
      before the rename the complete old journal is recovered, after it the new one).  Crash images contain
      `<journal>.tmp` where it exists; on every image that holds one the recovered node is additionally made to
      drop its journal head again (forced compaction) and its journal is reopened: a stale tmp file is harmless
      restart:stale-journal-tmp-harmful.
      with `dynamicMembershipChange`: after the first ticks `otherNodes` == the membership commands of the journal
      after the dump position folded over the dump's member list   restart:members-not-fold-of-journal-over-dump
 C07  a vote (`response_vote`, own `request_vote`) or a term (any message carrying `term`) that was on the
      wire before the crash point is what the recovered node has: term not lower
      restart:term-moved-backwards; a competing candidate of that term, asked right after the recovery,
      gets no vote   restart:vote-granted-twice-in-term.

`coverage` lists handler kind × primitive kind crash-tested (`crash:<handler>|<primitive>`).
Private attributes read: `_SyncObj__raftLog`; the injected probe reads nothing else.  Module globals
replaced for the duration of `run`: pysyncobj.journal.{mmap,open,shutil,os}, pysyncobj.serializer.{open,
atomicReplace}, and the methods FileJournal.{deleteEntriesTo,deleteEntriesFrom,clear} are wrapped (flag
only) — all restored in a finally.
"""
import builtins
import collections
import gc
import gzip
import hashlib
import json
import mmap as _real_mmap
import multiprocessing
import os
import pickle
import random as _random
import shutil as _real_shutil
import tempfile
import time

from harness.corr import restart_schedules as rs

PROPERTIES = ["C06", "C07"]
ORDER = 62

D15_SIGNATURE = "journal.deleteEntriesTo:kill-between-clear-and-readd"
HEADER_OFF = 36


# ------------------------------------------------------------------------------------------------------
# interception
# ------------------------------------------------------------------------------------------------------
class Tap(object):
    def __init__(self):
        self.listener = None        # object with .before(kind, path, torn) while a step is crash-tested
        self.flags = set()          # which journal operations ran in the current step
        self.depth_headdrop = 0
        self.saved = None

    def note(self, kind, path, torn=False):
        if self.listener is not None:
            self.listener.before(kind, path, torn)

    # -- installation -------------------------------------------------------------------------------
    def install(self, jm, sermod):
        tap = self
        self.jm, self.sermod = jm, sermod
        self.saved = {"j.open": jm.__dict__.get("open"), "j.shutil": jm.shutil, "j.mmap": jm.mmap, "j.os": jm.os,
                      "s.open": sermod.__dict__.get("open"), "s.ar": sermod.atomicReplace,
                      "delto": jm.FileJournal.deleteEntriesTo, "delfrom": jm.FileJournal.deleteEntriesFrom,
                      "clear": jm.FileJournal.clear}

        class MmapProxy(object):
            def __init__(self, mm, path):
                self._mm, self._path = mm, path

            def size(self):
                return self._mm.size()

            def __len__(self):
                return len(self._mm)

            def _k(self, kind):
                return ("journal.tmp-" if self._path.endswith(".tmp") else "journal.") + kind

            def resize(self, n):
                tap.note(self._k("resize"), self._path)
                self._mm.resize(n)

            def __getitem__(self, key):
                return self._mm[key]

            def __setitem__(self, key, values):
                values = bytes(values)
                start = key.start
                if not isinstance(key, slice) or start is None or key.stop - start != len(values):
                    self._mm[key] = values
                    return
                if start == HEADER_OFF and len(values) == 4:
                    tap.note(self._k("header-store"), self._path)
                else:
                    tap.note(self._k("record-store"), self._path)
                    if len(values) > 1 and tap.listener is not None:
                        h = len(values) // 2
                        self._mm[start:start + h] = values[:h]
                        tap.note(self._k("record-store"), self._path, torn=True)
                self._mm[key] = values

            def flush(self, *a):
                return self._mm.flush(*a)

            def close(self):
                return self._mm.close()

        class MmapShim(object):
            def mmap(self, fileno, length, *a, **k):
                try:
                    path = os.readlink("/proc/self/fd/%d" % fileno)
                except OSError:
                    path = "?"
                if tap.depth_headdrop and not path.endswith(".tmp"):
                    tap.note("journal.reopen", path)          # the replaced journal is mapped again
                return MmapProxy(_real_mmap.mmap(fileno, length, *a, **k), path)

            def __getattr__(self, name):
                return getattr(_real_mmap, name)

        class W(object):
            """a file opened 'wb' by the code under test: unbuffered, every write is a primitive"""

            def __init__(self, path, kind):
                self._path, self._kind = path, kind
                tap.note(kind + "-create", path)
                self._f = builtins.open(path, "wb", buffering=0)
                self._buf = b""
                self._buffered = kind == "meta.tmp"      # storeMeta: write(); flush() -> one write reaches the file

            def _put(self, data):
                tap.note(self._kind + "-write", self._path)
                if len(data) > 1 and tap.listener is not None:
                    h = len(data) // 2
                    self._f.write(data[:h])
                    tap.note(self._kind + "-write", self._path, torn=True)
                    self._f.write(data[h:])
                else:
                    self._f.write(data)

            def write(self, data):
                data = bytes(data)
                if self._buffered:
                    self._buf += data
                elif data:
                    self._put(data)
                return len(data)

            def flush(self):
                if self._buf:
                    data, self._buf = self._buf, b""
                    self._put(data)

            def close(self):
                if self._f.closed:
                    return
                self.flush()
                self._f.close()

            @property
            def closed(self):
                return self._f.closed

            def __enter__(self):
                return self

            def __exit__(self, *exc):
                self.close()
                return False

        def j_open(path, mode="r", *a, **k):
            if isinstance(path, str) and path.endswith(".meta.tmp") and mode == "wb":
                return W(path, "meta.tmp")
            if isinstance(path, str) and path.endswith(".tmp") and mode == "wb":
                return W(path, "journal.tmp")          # ResizableFile creating the new journal with its header
            return builtins.open(path, mode, *a, **k)

        class ShutilProxy(object):
            def move(self, src, dst, *a, **k):
                tap.note("meta.move" if dst.endswith(".meta") else "journal.rename", dst)
                return _real_shutil.move(src, dst, *a, **k)

            def __getattr__(self, name):
                return getattr(_real_shutil, name)

        class OsProxy(object):
            path = os.path

            def remove(self, path_):
                tap.note("journal.tmp-remove", path_)
                return os.remove(path_)

            def __getattr__(self, name):
                return getattr(os, name)

        def s_open(path, mode="r", *a, **k):
            if isinstance(path, str) and "w" in mode:
                return W(path, "snapin.tmp" if path.endswith(".1.tmp") else "dump.tmp")
            return builtins.open(path, mode, *a, **k)

        def s_replace(src, dst):
            tap.note("snapin.rename" if src.endswith(".1.tmp") else "dump.rename", dst)
            os.rename(src, dst)

        def delto(self_, n, _orig=self.saved["delto"]):
            tap.flags.add("headdrop")
            tap.depth_headdrop += 1
            try:
                return _orig(self_, n)
            finally:
                tap.depth_headdrop -= 1

        def delfrom(self_, n, _orig=self.saved["delfrom"]):
            tap.flags.add("truncate")
            return _orig(self_, n)

        def clear(self_, _orig=self.saved["clear"]):
            if not tap.depth_headdrop:
                tap.flags.add("clear")
            return _orig(self_)

        jm.open, jm.shutil, jm.mmap, jm.os = j_open, ShutilProxy(), MmapShim(), OsProxy()
        sermod.open, sermod.atomicReplace = s_open, s_replace
        jm.FileJournal.deleteEntriesTo, jm.FileJournal.deleteEntriesFrom, jm.FileJournal.clear = delto, delfrom, clear

    def uninstall(self):
        jm, sermod, sv = self.jm, self.sermod, self.saved
        for mod, name, key in ((jm, "open", "j.open"), (sermod, "open", "s.open")):
            if sv[key] is None:
                if name in mod.__dict__:
                    delattr(mod, name)
            else:
                setattr(mod, name, sv[key])
        jm.shutil, jm.mmap, jm.os = sv["j.shutil"], sv["j.mmap"], sv["j.os"]
        sermod.atomicReplace = sv["s.ar"]
        jm.FileJournal.deleteEntriesTo, jm.FileJournal.deleteEntriesFrom, jm.FileJournal.clear = sv["delto"], sv["delfrom"], sv["clear"]


TAP = None


def ensure_tap(repo):
    """one Tap per process, installed in the pysyncobj modules of the tree under test"""
    global TAP
    if TAP is None:
        from harness.sim import load_pysyncobj
        load_pysyncobj(repo)
        import pysyncobj.journal as jm
        import pysyncobj.serializer as sermod
        TAP = Tap()
        TAP.install(jm, sermod)
    return TAP


def drop_tap():
    global TAP
    if TAP is not None:
        TAP.uninstall()
        TAP = None


# ------------------------------------------------------------------------------------------------------
# crash-testing runner
# ------------------------------------------------------------------------------------------------------
class StepListener(object):
    def __init__(self, runner, node):
        self.r, self.node = runner, node
        self.points = []
        self.seen = set()
        self.k = 0

    def files(self):
        out = {}
        d = self.r.dir
        pre = self.node + "."
        for fn in sorted(os.listdir(d)):
            if fn.startswith(pre):
                with builtins.open(os.path.join(d, fn), "rb") as f:
                    out[fn] = f.read()
        return out

    def before(self, kind, path, torn):
        base = os.path.basename(path)
        if not base.startswith(self.node + "."):
            return                       # another node's file (cannot happen inside this node's step)
        self.snap(kind, torn)
        if not torn:
            self.k += 1

    def snap(self, kind, torn):
        files = self.files()
        n_sent = len(self.r.sim.sent)
        h = hashlib.sha1(repr((sorted((k, hashlib.sha1(v).hexdigest()) for k, v in files.items()), n_sent)).encode()).hexdigest()
        if h in self.seen:
            return
        self.seen.add(h)
        self.points.append({"k": self.k, "next": kind, "torn": torn, "files": files, "n_sent": n_sent,
                            "headdrop": TAP.depth_headdrop > 0})


class CrashRunner(rs.Runner):
    """a Runner whose every storage-writing step is crash-tested at every primitive write"""

    def __init__(self, repo, spec, tmpdir, stride=1, offset=0, label=""):
        ensure_tap(repo)
        rs.Runner.__init__(self, repo, spec, tmpdir)
        self.stride, self.offset = stride, offset
        self.probe_dir = tempfile.mkdtemp(prefix="probe-", dir=tmpdir)
        self.n_probe = 0
        self.n_step = 0
        self.steps_tested = 0
        self.label = label
        self.crash_viol = []
        self.crash_sigs = collections.Counter()
        self.step_hashes = set()
        sim = self.sim
        self.members = bool((spec.get("conf") or {}).get("dynamicMembershipChange"))

        class ProbeTransport(sim.tr.Transport):
            def __init__(self):
                sim.tr.Transport.__init__(self, None, None, [])
                self.out = []

            def addNode(self, n):
                pass

            def dropNode(self, n):
                pass

            def send(self, node, message):
                self.out.append((node.id, message))
                return True

            @property
            def ready(self):
                return True

            def destroy(self):
                pass
        self.ProbeTransport = ProbeTransport

    def close(self):
        rs.Runner.close(self)
        _real_shutil.rmtree(self.probe_dir, ignore_errors=True)

    # -- one step ------------------------------------------------------------------------------------
    def ev(self, *e):
        k = e[0]
        node = {"tick": 1, "deliver": 2, "submit": 1, "restart": 1}.get(k)
        if node is None or self.viol:
            return rs.Runner.ev(self, *e)
        i = e[node]
        sim = self.sim
        if k == "restart":
            if self.live(i):
                return False
        elif not self.live(i) or (k == "deliver" and not sim.chan[(e[1], i)]):
            return False
        pre = self._pre_step(i, e)
        lis = StepListener(self, i)
        TAP.flags = set()
        TAP.listener = lis
        try:
            ok = rs.Runner.ev(self, *e)
        finally:
            TAP.listener = None
        if not ok or not self.live(i):
            return ok
        if lis.k == 0:
            self.cov["steps-without-storage-write"] += 1
            return ok
        self.n_step += 1
        interesting = bool(TAP.flags) or pre["fresh"] or k == "restart"
        if not interesting and (self.n_step + self.offset) % self.stride:
            self.cov["steps-with-writes-not-sampled"] += 1
            return ok
        lis.snap("end-of-step", False)
        self._crash_test(i, e, pre, lis)
        return ok

    def _pre_step(self, i, e):
        sim = self.sim
        o = sim.objs.get(i)
        pre = {"n_sent": len(sim.sent), "fresh": i in self.fresh, "msg": None}
        if e[0] == "deliver":
            pre["msg"] = sim.chan[(e[1], i)][0]
        if o is None:                       # restart: what the node knew when it was killed
            b = self.before.get(i) or {"log": [], "term": 0, "commit": 1}
            pre.update(log=b["log"], term=b["term"], commit=b["commit"], ack_hi=self.ack_hi[i])
        else:
            pre.update(log=sim.log_of(i), term=o.raftCurrentTerm, commit=o.raftCommitIndex, ack_hi=self.ack_hi[i])
        return pre

    def _handler_kind(self, e, pre):
        hk = e[0]
        m = pre["msg"]
        if m is not None:
            hk += ":" + m["type"]
            if m["type"] == "append_entries":
                if "serialized" in m:
                    hk += "(snapshot)"
                elif m.get("transmission"):
                    hk += "(chunk)"
        if e[0] == "tick":
            if pre["fresh"]:
                hk += "(first-after-restart)"
            elif self.sim.objs[e[1]]._isLeader():
                hk += "(leader)"
        for f in sorted(TAP.flags):
            hk += "+" + f
        return hk

    def _crash_test(self, i, e, pre, lis):
        sim = self.sim
        o = sim.objs[i]
        hk = self._handler_kind(e, pre)
        self.steps_tested += 1
        post_log = sim.log_of(i)
        post_set = set(post_log)
        said = [(n, d, m) for n, (s, d, m) in enumerate(sim.sent[pre["n_sent"]:], pre["n_sent"]) if s == i]
        survivors = [x for x in pre["log"] if x in post_set]
        hi0 = max(pre["ack_hi"], pre["commit"])
        common = {}
        for n, ex in sim.execs.items():
            for (pos, cmd) in ex:
                common.setdefault(pos, cmd)
        step = {"hk": hk, "post_log": post_log, "survivors": survivors, "hi0": hi0, "said": said, "common": common,
                "commit_after": o.raftCommitIndex, "term_before": pre["term"], "event": list(e)}
        self.step_hashes.add(hashlib.sha1(repr((hk, [(p["next"], p["torn"]) for p in lis.points])).encode()).hexdigest())
        for p in lis.points:
            self.cov["crash:%s|%s%s" % (hk, p["next"], "(torn)" if p["torn"] else "")] += 1
            self.cov["crash-points"] += 1
            for (sig, what) in self._probe(i, step, p):
                if p["headdrop"] and sig in ("restart:acknowledged-entries-lost", "restart:state-not-replay-of-committed-prefix"):
                    what = "kill inside the journal head drop (%s): %s" % (sig, what)
                    sig = D15_SIGNATURE
                self.crash_sigs[sig] += 1
                if len([v for v in self.crash_viol if v["signature"] == sig]) < 2:
                    self.crash_viol.append({"signature": sig, "event_no": len(self.events),
                                            "what": "step %r of node %s [%s] killed before primitive write #%d (%s%s), %d of the "
                                                    "step's %d messages already handed to the transport: %s"
                                                    % (e, i, hk, p["k"] + 1, p["next"], ", torn" if p["torn"] else "",
                                                       len([1 for (n, d, m) in said if n < p["n_sent"]]), len(said), what),
                                            "point": {"k": p["k"], "next": p["next"], "torn": p["torn"]}})

    # -- recovery of one crash point -----------------------------------------------------------------
    def _probe(self, i, step, p):
        sim = self.sim
        out = []
        self.n_probe += 1
        d = os.path.join(self.probe_dir, "p%d" % self.n_probe)
        os.mkdir(d)
        for fn, data in p["files"].items():
            with builtins.open(os.path.join(d, fn), "wb") as f:
                f.write(data)
        kw = dict(sim.conf)
        kw.update(sim.per_node_conf.get(i, {}))
        kw["journalFile"] = os.path.join(d, "%s.journal" % i)
        dump_path = None
        if sim.dump:
            dump_path = kw["fullDumpFile"] = os.path.join(d, "%s.dump" % i)
        elif os.path.exists(kw["journalFile"] + ".dump"):
            dump_path = kw["journalFile"] + ".dump"
        # the dump file is readable or absent
        members0 = rs.dump_members(sim, dump_path) if self.members else None
        if dump_path and os.path.exists(dump_path):
            try:
                with builtins.open(dump_path, "rb") as f:
                    with gzip.GzipFile(fileobj=f) as g:
                        pickle.load(g)
            except Exception as x:
                out.append(("restart:dump-file-torn", "the dump file cannot be read: %r" % (x,)))
        said = [(d_, m) for (n, d_, m) in step["said"] if n < p["n_sent"]]
        nid = ("probe", i, self.n_probe)
        rng_state = sim.rng.getstate()
        script = list(sim.rand_script)
        prev_cur = sim.cur
        sim.cur = i
        obj = None
        t = self.ProbeTransport()
        try:
            try:
                obj = sim.Obj(nid, sim.Node(i), [sim.Node(j) for j in self.V if j != i], sim.so.SyncObjConf(**kw), t)
            except Exception as x:
                out.append(("restart:recovery-raises:%s" % type(x).__name__,
                            "the constructor raises %r on the files left by the kill" % (x,)))
                return out
            # C07: what was on the wire before the kill
            term = obj.raftCurrentTerm
            need_term = step["term_before"]
            voted = {}
            for (dst, m) in said:
                if "term" in m and m["type"] != "response_vote":
                    need_term = max(need_term, m["term"])
                if m["type"] == "response_vote":
                    need_term = max(need_term, m["term"])
                    voted[m["term"]] = dst
                elif m["type"] == "request_vote":
                    voted[m["term"]] = i
            if term < need_term:
                out.append(("restart:term-moved-backwards",
                            "term %d was on the wire / held before the kill, the recovered node has term %d" % (need_term, term)))
            if term in voted:
                other = [j for j in self.V if j not in (i, voted[term])]
                if other:
                    n0 = len(t.out)
                    obj._SyncObj__onMessageReceived(sim.Node(other[0]),
                                                    {"type": "request_vote", "term": term, "last_log_index": 10 ** 6, "last_log_term": 10 ** 6})
                    if any(m["type"] == "response_vote" for (_, m) in t.out[n0:]):
                        out.append(("restart:vote-granted-twice-in-term",
                                    "the vote of term %d for %s was on the wire before the kill; the recovered node grants %s in that term"
                                    % (term, voted[term], other[0])))
                    self.cov["crash:vote-on-wire-probed"] += 1
            # first ticks: dump load, apply
            try:
                obj.doTick(0.0)
                obj.doTick(0.0)
            except Exception as x:
                out.append(("restart:recovery-raises:%s" % type(x).__name__, "the first tick raises %r" % (x,)))
                return out
            lg = obj._SyncObj__raftLog
            after = [(e[1], e[2], e[0]) for e in lg[:]]
            have = set(after)
            first, lastidx = after[0][0], after[-1][0]
            la, c = obj.raftLastApplied, obj.raftCommitIndex
            hi = step["hi0"]
            need = [x for x in step["survivors"] if x[0] <= hi]
            hi_said = max([m["next_node_idx"] - 1 for (_, m) in said if m["type"] == "next_node_idx" and m.get("success")] or [0])
            need += [x for x in step["post_log"] if x[0] <= hi_said and x not in need]
            lost = [x for x in need if x not in have and not (x[0] < first and x[0] <= la)]
            self.cov["crash:acked-entries-checked"] += len(need)
            if lost:
                out.append(("restart:acknowledged-entries-lost",
                            "acknowledged / known committed up to index %d; the recovered node (applied=%d) holds journal %d..%d — "
                            "missing indices %s" % (max(hi, hi_said), la, first, lastidx, sorted(x[0] for x in lost)[:8])))
            if c > step["commit_after"]:
                out.append(("restart:commit-index-beyond-known",
                            "the node knew commit index <= %d, the recovered node claims %d" % (step["commit_after"], c)))
            if first > la + 1:
                if not self.has_dump_conf:
                    out.append(("restart:journal-only-compaction-wedges",
                                "recovered with applied=%d while the journal starts at %d (no dump file configured)" % (la, first)))
                else:
                    out.append(("restart:state-not-replay-of-committed-prefix",
                                "recovered with applied=%d while the journal starts at %d: entries %d..%d are in neither the dump nor the journal"
                                % (la, first, la + 1, first - 1)))
            elif la < min(c, lastidx):
                out.append(("restart:state-not-replay-of-committed-prefix",
                            "after the first ticks applied=%d but the recovered node knows commit=%d (journal %d..%d)" % (la, c, first, lastidx)))
            ex = sim.execs.get(nid, [])
            for a, b in zip(ex, ex[1:]):
                if b[0] <= a[0]:
                    out.append(("restart:position-executed-twice-in-generation", "recovered node executed position %d after %d" % (b[0], a[0])))
            common = dict(step["common"])
            for (pos, cmd) in ex:
                if pos in common and common[pos] != cmd:
                    out.append(("sm-safety:different-command-at-position",
                                "position %d: the recovered node executes %r, %r was executed there before" % (pos, cmd, common[pos])))
                common.setdefault(pos, cmd)
            expect = [common[q] for q in sorted(common) if q <= la]
            if list(obj.log) != expect:
                out.append(("restart:state-not-replay-of-committed-prefix",
                            "recovered state (applied=%d) is %r, the committed prefix executes to %r" % (la, list(obj.log)[-6:], expect[-6:])))
            if self.members:
                bad = rs.members_mismatch(sim, obj, i, self.V, members0)
                if bad:
                    out.append(("restart:members-not-fold-of-journal-over-dump", bad))
                self.cov["crash:members-checked"] += 1
            if (os.path.basename(kw["journalFile"]) + ".tmp") in p["files"]:
                # a tmp file of an interrupted head drop is lying around: the next head drop must cope with it
                self.cov["crash:stale-journal-tmp-images"] += 1
                try:
                    obj.forceLogCompaction()
                    obj.doTick(0.0)
                    obj.doTick(0.0)
                    mem = [(e[1], e[2], e[0]) for e in obj._SyncObj__raftLog[:]]
                    j2 = sim.so.createJournal(kw["journalFile"])       # what is on the disk now
                    disk = [(e[1], e[2], e[0]) for e in j2[:]]
                    j2._destroy()
                    la2 = obj.raftLastApplied
                    lost2 = [x for x in need if x not in set(disk) and not (disk and x[0] < disk[0][0] and x[0] <= la2)]
                    if disk != mem or lost2:
                        out.append(("restart:stale-journal-tmp-harmful",
                                    "recovered on an image with a stale journal tmp file, then dropped the journal head again: "
                                    "journal on disk %s, in memory %s, acknowledged entries missing %s"
                                    % ([x[0] for x in disk][:12], [x[0] for x in mem][:12], [x[0] for x in lost2][:8])))
                except Exception as x:
                    out.append(("restart:recovery-raises:%s" % type(x).__name__,
                                "head drop on an image with a stale journal tmp file raises %r" % (x,)))
            return out
        finally:
            sim.execs.pop(nid, None)
            sim.results.pop(nid, None)
            sim.rng.setstate(rng_state)
            sim.rand_script.clear()
            sim.rand_script.extend(script)
            sim.cur = prev_cur
            if obj is not None:
                try:
                    obj._SyncObj__raftLog._destroy()
                except Exception:
                    pass
            _real_shutil.rmtree(d, ignore_errors=True)
            if self.n_probe % 200 == 0:
                gc.collect()


# ------------------------------------------------------------------------------------------------------
# base schedules that are crash-tested step by step
# ------------------------------------------------------------------------------------------------------
def base_untrimmed(r):
    """follower killed between dump write and journal trim, restarted: the first tick drops the journal head"""
    V = r.V
    r.ev("connect_all")
    L = r.elect()
    if L is None:
        return {}
    F = [i for i in V if i != L][0]
    for k in range(5):
        r.ev("submit", L, "u%d" % k)
    r.rounds(7)                      # the follower has applied everything: the dump is at the last entry
    r.ev("compact", F)
    r.ev("tick", F, 0.0625)
    for k in range(5, 8):
        r.ev("submit", L, "u%d" % k)
    r.ev("tick", L, 0.0625)
    while r.ev("deliver", L, F):
        pass
    r.ev("kill", F)
    r.ev("restart", F)
    r.ev("tick", F, 0.0625)
    for j in V:
        if j != F:
            r.ev("connect", F, j)
    r.rounds(4)
    for v in V:                      # everybody at once, then again after a compaction everywhere
        r.ev("kill", v)
    for v in V:
        r.ev("restart", v)
    r.ev("connect_all")
    L = r.elect()
    if L is None:
        return {}
    r.ev("submit", L, "u8")
    r.rounds(3)
    for v in V:
        r.ev("compact", v)
    r.rounds(1)
    r.ev("submit", L, "u9")
    r.ev("tick", L, 0.0625)
    r.deliver_all()
    r.rounds(2)
    r.ev("submit", L, "big" + "B" * 900)     # the journal file has to grow; sent in chunks
    r.rounds(3)
    return {"leader": L}


BASES = dict(rs.BASES)
BASES["untrimmed"] = base_untrimmed
CONF = dict(rs.BASE_CONF)
CONF["untrimmed"] = {"appendEntriesBatchSizeBytes": 24}
CONF["conflict"] = {"appendEntriesBatchSizeBytes": 2 ** 16}


def _work(args):
    repo, item, base_seed, deadline, tmp = args
    if time.time() > deadline and item[0] != "base":
        return []
    os.makedirs(tmp, exist_ok=True)
    out = []
    try:
        if item[0] == "base":
            _, name, n, dump, stride = item
            conf = dict(CONF.get(name, {}))
            spec = {"n": n, "dump": dump, "conf": conf, "seed": base_seed * 31 + n}
            r = CrashRunner(repo, spec, tmp, stride=stride, offset=base_seed, label="%s/%d/%s" % (name, n, "dump" if dump else "journal"))
            try:
                BASES[name](r)
                if not r.viol and not r.crash_viol:
                    r.finale()
            finally:
                r.close()
        else:
            _, k, n_events, stride = item
            rng = _random.Random("%d/restart-crash/random/%d" % (base_seed, k))
            spec = {"n": [3, 2, 3, 5, 4][k % 5], "dump": k % 3 != 1, "conf": rs.draw_conf(rng), "seed": base_seed * 7919 + k}
            r = CrashRunner(repo, spec, tmp, stride=stride, offset=k, label="random/%d" % k)
            try:
                rs.random_schedule(r, rng, n_events)
            finally:
                r.close()
        viol = list(r.crash_viol) + list(r.viol)
        out.append({"label": r.label, "n_events": len(r.events), "cov": dict(r.cov), "violations": viol[:6],
                    "spec": spec, "events": r.events if viol else None, "steps": r.steps_tested, "probes": r.n_probe,
                    "hashes": sorted(r.step_hashes), "sigs": dict(r.crash_sigs)})
    finally:
        _real_shutil.rmtree(tmp, ignore_errors=True)
    return out


def plan(ctx):
    quick = ctx.tier == "quick"
    items = []
    if ctx.pid == "C07":
        items += [("base", "snapshot_late", 3, True, 1),
                  ("base", "vote", 3, False, 1), ("base", "vote", 3, True, 1), ("base", "vote", 5, True, 1),
                  ("base", "replication", 3, True, 3 if quick else 1), ("base", "conflict", 3, False, 3 if quick else 1)]
        n_random, stride = ctx.scale(16, 400), 2
    else:
        items += [("base", "untrimmed", 2, True, 1), ("base", "replication", 3, True, 1), ("base", "snapshot", 3, True, 1),
                  ("base", "members", 3, True, 1), ("base", "snapshot_partial", 3, True, 1),
                  ("base", "conflict", 3, True, 1), ("base", "vote", 3, True, 1), ("base", "replication", 2, False, 2 if quick else 1),
                  ("base", "untrimmed", 3, False, 2 if quick else 1)]
        if not quick:
            items += [("base", "snapshot", 3, False, 1), ("base", "conflict", 5, False, 1), ("base", "replication", 5, True, 1),
                      ("base", "members", 3, False, 1), ("base", "members", 4, True, 1),
                      ("base", "snapshot", 5, True, 1), ("base", "untrimmed", 5, True, 1)]
        n_random, stride = ctx.scale(20, 800), ctx.scale(3, 1)
    for k in range(n_random):
        items.append(("random", k, ctx.scale(160, 300), stride))
    return items


def run(ctx):
    rs.CURRENT_PID = ctx.pid
    t0 = time.time()
    items = plan(ctx)
    deadline = t0 + ctx.scale(17.0, 270.0) * max(1.0, ctx.budget_s / float(ctx.scale(25, 420)))
    root = ctx.tmpdir()
    args = [(ctx.repo, it, ctx.seed, deadline, os.path.join(root, "w%d" % n)) for n, it in enumerate(items)]
    results = []
    skipped = 0
    mp = multiprocessing.get_context("fork")
    with mp.Pool(max(1, ctx.jobs), maxtasksperchild=8) as pool:
        pending = [pool.apply_async(_work, (a,)) for a in args]
        for p in pending:
            try:
                results.extend(p.get(timeout=max(5.0, deadline + 45 - time.time())))
            except multiprocessing.TimeoutError:
                skipped += 1
    return assemble(ctx, results, t0, len(items), skipped)


def assemble(ctx, results, t0, planned, skipped):
    cov = collections.Counter()
    viols = []
    hashes = set()
    probes = steps = 0
    samples = []
    for r in results:
        cov.update(r["cov"])
        probes += r["probes"]
        steps += r["steps"]
        hashes.update((r["label"].split("/")[0], h) for h in r["hashes"])
        for s, n in r["sigs"].items():
            cov["crash-violations:" + s] += n
        for v in r["violations"]:
            if not rs.for_property(ctx.pid, v["signature"]) and v["signature"] != D15_SIGNATURE:
                cov["other-property-violation:" + v["signature"]] += 1
                continue
            if v["signature"] == D15_SIGNATURE and ctx.pid != "C06":
                continue
            if len([x for x in viols if x["signature"] == v["signature"]]) >= 2:
                continue
            viols.append({"signature": v["signature"], "what": "[%s] %s" % (r["label"], v["what"]),
                          "replay": {"spec": r["spec"], "events": (r["events"] or [])[:v.get("event_no", 10 ** 9) + 1],
                                     "label": r["label"], "point": v.get("point")}})
        if len(samples) < 2:
            samples.append({"label": r["label"], "events": r["n_events"], "steps_crash_tested": r["steps"], "crash_points": r["probes"]})
    matrix = {k[6:]: v for k, v in cov.items() if k.startswith("crash:") and "|" in k}
    prim_kinds = sorted(set(k.split("|")[1] for k in matrix))
    handler_kinds = sorted(set(k.split("|")[0] for k in matrix))
    coverage = {"crash_points_recovered": probes, "steps_crash_tested": steps, "primitive_kinds": prim_kinds,
                "handler_kinds": handler_kinds, "matrix": dict(sorted(matrix.items())),
                "other": {k: v for k, v in sorted(cov.items()) if not (k.startswith("crash:") and "|" in k) and not k.startswith("ev:")}}
    out = {"cases": probes, "distinct": len(hashes), "coverage": coverage, "samples": samples, "disagreements": [],
           "violations": viols, "wall_s": round(time.time() - t0, 2),
           "notes": "planned schedules %d, run %d, cut by the deadline %d" % (planned, len(results), planned - len(results))}
    if ctx.pid == "C06":
        need = ["journal.record-store", "journal.header-store", "meta.tmp-write", "meta.move", "dump.tmp-write", "dump.rename",
                "snapin.tmp-write", "snapin.rename"]
        missing = [k for k in need if k not in prim_kinds]
        need += ["journal.resize", "journal.tmp-create", "journal.tmp-write", "journal.tmp-record-store",
                 "journal.tmp-header-store", "journal.rename", "journal.reopen"]
        if not cov.get("crash:stale-journal-tmp-images") or not cov.get("crash:members-checked"):
            need.append("stale-journal-tmp-images / members-checked")
        hneed = ["headdrop", "truncate", "deliver:request_vote", "deliver:append_entries", "(snapshot)", "(chunk)",
                 "(first-after-restart)", "tick(leader)", "deliver:response_vote"]
        missing += [h for h in hneed if not any(h in k for k in handler_kinds)]
    else:
        missing = [k for k in ("meta.tmp-write", "meta.move") if k not in prim_kinds]
        if not cov.get("crash:vote-on-wire-probed"):
            missing.append("vote-on-wire-probed")
    if missing and not viols:
        out["inconclusive"] = "coverage floor missed: %s" % missing
    return out


def search(ctx, unproved):
    return []


def replay(ctx, violation):
    rs.CURRENT_PID = ctx.pid
    rp = violation.get("replay") or {}
    tmp = ctx.tmpdir()
    try:
        r = CrashRunner(ctx.repo, rp["spec"], tmp)
        try:
            want = violation.get("signature")
            for e in rp["events"]:
                r.ev(*e)
                if any(v["signature"] == want for v in r.crash_viol + r.viol):
                    break
        finally:
            r.close()
    finally:
        _real_shutil.rmtree(tmp, ignore_errors=True)
        drop_tap()
    allv = list(r.crash_viol) + list(r.viol)
    hit = [v for v in allv if v["signature"] == violation.get("signature")]
    return {"violated": bool(hit), "violations": (hit or allv)[:5], "tree": ctx.repo}
