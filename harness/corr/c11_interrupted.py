"""C11 monitor `c11.interrupted`: oversized arguments whose chunked transfer is INTERRUPTED and repeated (REAL clusters).

Real 2-3 node clusters under harness/sim.py, `appendEntriesBatchSizeBytes` in {64, 256, 1000, 4096}, batched and
unbatched append mode, memory and file journals.  A replicated call with an argument of ~3.3 batch sizes is sent as a
`start/process/finish` chunk burst; the link leader -> follower is cut while the leader is inside the chunk loop, at
chunk j, for EVERY j of the burst (the chunks before j have reached the follower, chunk j and the rest are lost; the
real `__sendAppendEntries` leaves the loop because the node is no longer connected).  After a few ticks the link comes
back and the leader repeats the entry from `start`.  FOLLOWER BEHIND: the ordinary `append_entries` carrying the entries
before an oversized entry is lost with its connection (the leader's nextIndex has already moved on), or the follower is
restarted with an empty (memory) journal, and then the chunk burst of the oversized entry arrives at a follower whose log
ends before `prevLogIdx`.  On 3 nodes additionally a LEADER CHANGE in the middle of a transfer: the follower holds the first chunk of the old leader's burst, the old leader is isolated, the new leader
(which holds the entry) sends it again from `start`.  After every interruption a second oversized call follows.

Monitor = the property statement: every replica executes each call exactly once with equal arguments, no exception
escapes any entry point (`sim.errors`), every callback fires at most once and - where the leader keeps its office - with
SUCCESS.
"""
import collections
import time

from harness.sim import Sim

PROPERTIES = ["C11"]
ORDER = 46

SIG_EXC = "c11:exception-escaped-after-interrupted-chunk-transfer"
SIG_LOST = "c11:argument-not-executed-exactly-once-after-interrupted-chunk-transfer"
SIG_CB = "c11:callback-not-once-with-success-after-interrupted-chunk-transfer"


class Fault(object):
    """cuts the link src -> dst at the j-th chunk message of a burst"""

    def __init__(self, sim):
        self.sim = sim
        self.armed = None          # (src, dst, j, notice_both)
        self.count = 0
        self.fired = False
        self.max_seen = 0
        orig = sim._send
        fault = self

        def hooked(a, b, msg):
            f = fault.armed
            if f is not None and f[2] == "lose-regular" and a == f[0] and b == f[1] and msg.get("type") == "append_entries" \
                    and msg.get("transmission") is None and msg.get("entries"):
                # the ordinary append_entries is lost with its connection; the link is back at once
                fault.armed = None
                fault.fired = True
                sim.cut(a, b)
                sim.notice(a, b)
                sim.notice(b, a)
                sim.connect(a, b)
                return False
            if f is not None and f[2] != "lose-regular" and a == f[0] and b == f[1] and msg.get("transmission") is not None:
                if msg["transmission"] == "start":
                    fault.count = 0
                fault.count += 1
                fault.max_seen = max(fault.max_seen, fault.count)
                if fault.count == f[2]:
                    fault.armed = None
                    fault.fired = True
                    while sim.deliver(a, b):      # what is on the wire already still arrives
                        pass
                    sim.cut(a, b)
                    sim.notice(a, b)
                    sim.notice(b, a)
                    return False
            return orig(a, b, msg)
        sim._send = hooked

    def arm(self, src, dst, j):
        self.armed = (src, dst, j)
        self.count = 0
        self.fired = False


class Run(object):
    def __init__(self, ctx, cfg, seed):
        self.ctx, self.cfg = ctx, cfg
        conf = {"appendEntriesBatchSizeBytes": cfg["batch"], "appendEntriesUseBatch": cfg["use_batch"]}
        jd = ctx.tmpdir() if cfg["journal"] else None
        self.sim = Sim(ctx.repo, list(cfg["nodes"]), conf=conf, seed=seed, journal_dir=jd)
        self.fault = Fault(self.sim)
        self.viols = []
        self.steps = []
        self.n = 0
        self.sim.connect_all()

    def arg(self, tag):
        self.n += 1
        n = int(self.cfg["batch"] * 3.3) + 7
        head = "%s#%d|" % (tag, self.n)
        return head + "x" * max(0, n - len(head))

    def where(self):
        c = self.cfg
        return "batch %d %s journal=%s nodes=%d" % (c["batch"], "batched" if c["use_batch"] else "unbatched",
                                                    "file" if c["journal"] else "memory", len(c["nodes"]))

    def report(self, sig, what):
        self.viols.append({"signature": sig, "what": "%s: %s; steps %s" % (self.where(), what, self.steps[-4:]),
                           "replay": {"cfg": self.cfg}})

    def settle(self, args, among=None, ticks=60):
        sim = self.sim
        ids = among if among is not None else sim.voters
        for _ in range(ticks):
            sim.run(1, among=ids if among is not None else None)
            if all(all(any(x == a for (_, x) in sim.execs[i]) for a in args) for i in ids):
                break

    def check(self, args, cids, need_success, among=None):
        sim = self.sim
        ids = among if among is not None else sim.voters
        if sim.errors:
            e = sim.errors[0]
            self.report(SIG_EXC + ":" + e[1], "%s escaped on node %s (%s)" % (e[1], e[0], e[2][:80]))
            return False
        for a in args:
            got = [len([1 for (_, x) in sim.execs[i] if x == a]) for i in ids]
            if any(g != 1 for g in got):
                self.report(SIG_LOST, "argument %s... executed %s times on %s" % (a[:14], got, ids))
                return False
        fired = collections.Counter(c[1] for c in sim.callbacks)
        for cid in cids:
            errs = [c[3] for c in sim.callbacks if c[1] == cid]
            if fired[cid] > 1 or (need_success and errs != [0]):
                self.report(SIG_CB, "callback %d fired %s" % (cid, errs))
                return False
        return True

    # ------------------------------------------------------------------------------------------
    def link_cut_at_every_chunk(self, cov):
        sim = self.sim
        L = sim.elect()
        if L is None:
            self.report("c11:no-leader", "no leader elected")
            return
        sim.run(3)
        F = [i for i in sim.voters if i != L][0]
        # an undisturbed oversized call first
        a0 = self.arg("plain")
        c0 = sim.submit(L, a0)
        self.settle([a0])
        if not self.check([a0], [c0], True):
            return
        j = 1
        while j <= 40:
            a = self.arg("cut%d" % j)
            self.fault.arm(L, F, j)
            self.steps.append("cut %s->%s at chunk %d" % (L, F, j))
            cid = sim.submit(L, a)
            for _ in range(6):
                sim.run(1)
                if self.fault.fired:
                    break
            fired = self.fault.fired
            self.fault.armed = None
            if fired:
                cov["cut-at-chunk"] += 1
                cov["cut-at-chunk-%s" % ("first" if j == 1 else "later")] += 1
                sim.run(3)
                sim.connect(L, F)
                self.steps.append("reconnect")
            self.settle([a])
            if not self.check([a], [cid], True):
                return
            # a second oversized entry afterwards
            b = self.arg("after%d" % j)
            cb = sim.submit(L, b)
            self.settle([b])
            if not self.check([b], [cb], True):
                return
            if not fired:          # the burst has fewer than j chunks: every j was covered
                break
            j += 1
        cov["bursts-max-chunks:%d" % self.fault.max_seen] += 1

    def follower_behind(self, cov):
        """the chunk burst of an oversized entry reaches a follower whose log ends before prevLogIdx"""
        sim = self.sim
        L = sim.leader() or sim.elect()
        if L is None:
            return
        F = [i for i in sim.voters if i != L][0]
        # (a) the message with the preceding small entry is lost with its connection, then the oversized call
        small = "small#%d" % self.n
        self.n += 1
        self.fault.arm(L, F, "lose-regular")
        self.steps.append("lose the append_entries %s->%s that carries the entry before the oversized one" % (L, F))
        c1 = sim.submit(L, small)
        for _ in range(6):
            sim.tick(L, 0.0625)
            if self.fault.fired:
                break
        fired = self.fault.fired
        self.fault.armed = None
        a = self.arg("behind")
        c2 = sim.submit(L, a)
        if fired:
            cov["follower-behind-lost-message"] += 1
            # the leader sends the burst before any reply of the follower can correct its nextIndex
            sim.tick(L, 0.0625)
            sim.tick(L, 0.125)
            chunks = [m for m in sim.chan[(L, F)] if m.get("transmission") is not None]
            if chunks:
                cov["follower-behind-burst-in-flight"] += 1
        self.settle([small, a])
        if not self.check([small, a], [c1, c2], True):
            return
        # (b) the follower restarts with an empty memory journal and gets a burst at once
        if not self.cfg["journal"]:
            done = [x for (_, x) in sim.execs[L]]
            sim.kill(F)
            sim.restart(F)
            sim.execs[F] = []
            for j in sim.voters:
                if j != F:
                    sim.connect(F, j)
            b = self.arg("restarted")
            self.steps.append("%s restarted empty, oversized call at once" % F)
            c3 = sim.submit(L, b)
            sim.tick(L, 0.0625)
            sim.tick(L, 0.125)
            cov["follower-behind-restarted-empty"] += 1
            self.settle(done + [b], ticks=120)
            if sim.errors:
                e = sim.errors[0]
                self.report(SIG_EXC + ":" + e[1], "%s escaped on node %s (%s)" % (e[1], e[0], e[2][:80]))
                return
            if not self.check(done + [b], [c3], True):
                return

    def leader_change_mid_transfer(self, cov):
        sim = self.sim
        if len(sim.voters) < 3:
            return
        L = sim.leader()
        if L is None:
            L = sim.elect()
        if L is None:
            return
        F, G = [i for i in sim.voters if i != L]
        sim.disconnect(F, G)                       # F hears the leader only
        a = self.arg("lchg")
        self.fault.arm(L, F, 2)                    # F gets the first chunk of L's burst, then loses L
        self.steps.append("leader change: %s keeps chunk 1 of %s's burst" % (F, L))
        cid = sim.submit(L, a)
        for _ in range(8):
            sim.run(1, among=[L, G, F])
            if self.fault.fired:
                break
        if not self.fault.fired:
            self.fault.armed = None
            sim.connect(F, G)
            self.settle([a])
            self.check([a], [cid], False)
            return
        cov["leader-change-mid-transfer"] += 1
        self.settle([a], among=[L, G], ticks=30)   # replicated to G, committed, acknowledged on L
        sim.disconnect(L, G)                       # the old leader is isolated
        sim.connect(F, G)
        N = sim.elect(among=[F, G])
        self.steps.append("new leader %s re-sends from start" % N)
        self.settle([a], among=[F, G], ticks=80)
        if not self.check([a], [cid], False, among=[F, G]):
            return
        sim.connect(L, F)
        sim.connect(L, G)
        b = self.arg("afterlchg")
        N = sim.elect()
        cb = sim.submit(N if N is not None else G, b)
        self.settle([a, b], ticks=80)
        self.check([a, b], [cid, cb], False)


def configs(ctx, rng):
    out = []
    batches = [64, 256, 1000] if ctx.tier == "quick" else [64, 100, 256, 1000, 4096]
    for b in batches:
        for use_batch in (True, False):
            for journal in (False, True):
                nodes = ["a", "b", "c"] if (len(out) % 2 == 0) else ["a", "b"]
                out.append({"batch": b, "use_batch": use_batch, "journal": journal, "nodes": nodes})
    if ctx.tier != "quick":
        out += [dict(c, nodes=(["a", "b"] if len(c["nodes"]) == 3 else ["a", "b", "c"])) for c in out]
    return out


def one(ctx, cfg, seed, cov):
    r = Run(ctx, cfg, seed)
    r.link_cut_at_every_chunk(cov)
    if not r.viols:
        r.follower_behind(cov)
    if not r.viols:
        r.leader_change_mid_transfer(cov)
    cov["mode:" + ("batched" if cfg["use_batch"] else "unbatched")] += 1
    cov["journal:" + ("file" if cfg["journal"] else "memory")] += 1
    cov["nodes:%d" % len(cfg["nodes"])] += 1
    cov["batch:%d" % cfg["batch"]] += 1
    return r


def family(ctx, limit_s):
    t0 = time.time()
    rng = ctx.rng("c11.interrupted")
    cov = collections.Counter()
    viols, cases = [], 0
    for cfg in configs(ctx, rng):
        if time.time() - t0 > limit_s:
            break
        r = one(ctx, cfg, rng.randrange(1 << 30), cov)
        cases += r.n
        viols += r.viols
        if viols:
            break
    return cases, viols, cov


def run(ctx):
    t0 = time.time()
    cases, viols, cov = family(ctx, ctx.budget_s * (0.5 if ctx.tier == "quick" else 0.8))
    res = {"name": "corr.c11_interrupted", "cases": cases, "distinct": cases, "coverage": dict(sorted(cov.items())),
           "samples": [{"scenario": "cut the link at chunk j of the burst for every j, reconnect, second oversized call; "
                                    "leader change mid-transfer on 3 nodes"}],
           "disagreements": [], "violations": viols[:3], "wall_s": round(time.time() - t0, 2)}
    need = ["cut-at-chunk-first", "cut-at-chunk-later", "leader-change-mid-transfer", "follower-behind-lost-message",
            "follower-behind-burst-in-flight", "follower-behind-restarted-empty", "mode:batched", "mode:unbatched",
            "journal:file", "journal:memory"]
    missing = [k for k in need if cov[k] == 0]
    if missing and not viols:
        res["inconclusive"] = "coverage floor missed: " + ", ".join(missing)
    return res


def search(ctx, unproved):
    """a broken correspondence (e.g. the follower's chunk buffer, `fappend`) -> look for a concrete failing schedule"""
    cases, viols, cov = family(ctx, 60)
    return viols[:3]


def replay(ctx, violation):
    cfg = (violation.get("replay") or {}).get("cfg") or {"batch": 256, "use_batch": True, "journal": False, "nodes": ["a", "b"]}
    cov = collections.Counter()
    r = one(ctx, cfg, 1, cov)
    return {"violated": bool(r.viols), "violations": r.viols[:3], "steps": r.steps[-8:]}
