"""C12 property monitor for raising replicated methods of every argument shape and exception kind.

Real 3-node clusters (journal + dump files, inline serializer) under harness/sim.py.  Commands that raise
deterministically on every replica — with no argument, one, two positional arguments, keyword arguments
only, built-in exceptions and an application exception whose constructor takes two arguments — are
submitted on leader and followers between ordinary commands; then log compaction on a follower, kill and
restart of that follower (replay from dump + journal), more commands.  Monitors (property statement):
every callback fires exactly once; every replica moves past every raising command (equal lastApplied,
equal state incl. the partial effects recorded by the raising methods); no exception escapes doTick or
message handling; the restarted node recovers the same state.
"""
import logging
import time

from harness.sim import Sim
from harness import monitors

PROPERTIES = ["C12"]
ORDER = 40

SHAPES = [("boom0", (), {}), ("boom", ("v1",), {}), ("boom2", ("v2", "w"), {}), ("boomkw", (), {"x": "v3", "y": 5}),
          ("boomkw", ("v4",), {"y": 1}), ("boomc", ("v5",), {}), ("booms", ("v6",), {"sync": False})]

# exception classes: OS/environment errors, MemoryError, StopIteration, ... (every `Exception` subclass a replicated
# method may raise is the outcome of the command, whatever its family)
from harness.sim import EXC_KINDS
KIND_SHAPES = [("boomx", ("k_%s" % k, k), {}) for k in sorted(EXC_KINDS)]


RUN_LEN = 150


def scenario(repo, seed, tmpdir, order):
    sim = Sim(repo, ["a", "b", "c"], seed=seed, journal_dir=tmpdir, dump=True, conf={"useFork": False})
    sim.connect_all()
    L = sim.elect()
    if L is None:
        return sim, [], "no leader"
    F, G = [i for i in sim.voters if i != L]
    cids = {}
    k = 0
    for (method, args, kw) in order:
        who = [L, F, G][k % 3]
        cids[sim.submit(who, "ok%d" % k)] = ("add", "ok%d" % k)
        cids[sim.submit_call(who, method, args, kw)] = (method, args, kw)
        k += 1
        sim.run(3)
    # the last failure before the snapshot is the application exception with the two-argument constructor
    cids[sim.submit_call(L, "boomc", ("presnap",), {})] = ("boomc", ("presnap",), {})
    sim.run(10)
    viols = []
    # compaction on a follower, then kill + restart it (replay from dump + journal), then more commands
    sim.compact(F)
    sim.tick(F, 0.0625)
    sim.tick(F, 0.0625)
    cids[sim.submit(L, "mid")] = ("add", "mid")
    sim.run(6)
    sim.kill(F)
    cids[sim.submit_call(L, "boom2", ("late", 1), {})] = ("boom2", ("late", 1), {})
    cids[sim.submit(L, "missed")] = ("add", "missed")
    sim.run(6, among=[L, G])
    sim.restart(F)
    sim.connect(F, L)
    sim.connect(F, G)
    cids[sim.submit_call(L, "boomc", ("after",), {})] = ("boomc", ("after",), {})
    cids[sim.submit(L, "end")] = ("add", "end")
    sim.run(40)
    # a committed command whose method id no node knows (e.g. all nodes were restarted without the consumer that owned
    # it): the KeyError of the lookup is the command's outcome on every replica like any other exception
    import pysyncobj.pickle as _pk

    def _ghost(who, tag):
        sim.cb_seq += 1
        cid = sim.cb_seq

        def cb(res, err, cid=cid, who=who):
            sim.callbacks.append((who, cid, res, err))
        sim._call(who, sim.objs[who]._applyCommand, _pk.dumps((9000 + len(cids), (tag,))), cb, 0)
        return cid
    cids[_ghost(L, "ghost-at-leader")] = ("<unknown method id>", ("ghost-at-leader",), {})
    cids[_ghost(F, "ghost-at-follower")] = ("<unknown method id>", ("ghost-at-follower",), {})
    cids[sim.submit(L, "after-ghost")] = ("add", "after-ghost")
    sim.run(20)
    # a failing command (with a partial effect), then one replica compacts exactly there and is restarted from dump +
    # journal, then the byte-identical command again: every replica must execute it again (same partial effect)
    cids[sim.submit_call(L, "boom", ("dup",), {})] = ("boom", ("dup",), {})
    sim.run(10)
    sim.compact(G)
    sim.tick(G, 0.0625)
    sim.tick(G, 0.0625)
    sim.kill(G)
    sim.restart(G)
    sim.connect(G, L)
    sim.connect(G, F)
    sim.run(10)
    cids[sim.submit_call(L, "boom", ("dup",), {})] = ("boom", ("dup",), {})
    sim.run(20)
    cids[sim.submit(L, "end2")] = ("add", "end2")
    sim.run(20)
    # a long run of raising commands with no successful one in between (a client polling for something that is
    # not there): every one of them is an outcome, however many follow each other
    for k in range(RUN_LEN):
        cids[sim.submit_call([L, F, G][k % 3], "boom", ("run%d" % k,), {})] = ("boom", ("run%d" % k,), {})
        if k % 8 == 7:
            sim.run(2)
    sim.run(20)
    cids[sim.submit(L, "end3")] = ("add", "end3")
    sim.run(20)
    # monitors
    viols += monitors.errors(sim)
    fired = {}
    for (n, cid, res, err) in sim.callbacks:
        fired.setdefault(cid, []).append((res, err))
    for cid, what in cids.items():
        f = fired.get(cid, [])
        if len(f) != 1:
            viols.append({"signature": "apply-loop:callback-not-once",
                          "what": "callback of %r fired %d times" % (what, len(f))})
    las = {i: sim.objs[i].raftLastApplied for i in sim.voters}
    states = {i: list(sim.objs[i].log) for i in sim.voters}
    if len(set(las.values())) != 1:
        viols.append({"signature": "apply-loop:replica-stays-behind",
                      "what": "lastApplied %r after a quiet period (commit %r)" % (las, {i: sim.objs[i].raftCommitIndex for i in sim.voters})})
    ref = states[L]
    for i in sim.voters:
        if states[i] != ref:
            viols.append({"signature": "apply-loop:replicas-differ",
                          "what": "node %s state %r, leader %s state %r" % (i, states[i][-6:], L, ref[-6:])})
            break
    if ("end" not in ref) or ("missed" not in ref) or ("end3" not in ref) or ("after-ghost" not in ref):
        viols.append({"signature": "apply-loop:later-command-not-applied", "what": "leader state %r" % (ref[-6:],)})
    return sim, viols, None


def run(ctx):
    logging.getLogger("pysyncobj").setLevel(logging.CRITICAL)
    logging.getLogger().setLevel(logging.CRITICAL)
    t0 = time.time()
    rng = ctx.rng("c12_shapes")
    viols, cases, notes, samples = [], 0, [], []
    reached = 0
    for r in range(ctx.scale(3, 24)):
        order = list(SHAPES) + rng.sample(KIND_SHAPES, 5 if r else len(KIND_SHAPES))   # first round: every class
        rng.shuffle(order)
        sim, v, note = scenario(ctx.repo, ctx.seed * 100 + r, ctx.tmpdir(), order)
        cases += 1
        if note:
            notes.append(note)
        else:
            reached += 1
        for x in v:
            x["replay"] = {"component": "corr.c12_shapes", "seed": ctx.seed * 100 + r, "order": [o[0] if o[0] != "boomx" else "boomx:" + o[1][1] for o in order]}
        viols.extend(v)
        if len(samples) < 2:
            samples.append({"order": [o[0] for o in order], "events": len(sim.trace), "callbacks": len(sim.callbacks)})
        if v:
            break
    res = {"name": "corr.c12_shapes", "cases": cases, "distinct": reached, "violations": viols[:6],
           "coverage": {"shapes": [s[0] for s in SHAPES], "exception_classes": sorted(EXC_KINDS), "scenarios_completed": reached, "notes": sorted(set(notes))[:4]},
           "samples": samples, "wall_s": round(time.time() - t0, 2)}
    if reached == 0:
        res["inconclusive"] = "no scenario reached its end: %s" % notes[:3]
    return res


def replay(ctx, violation):
    rp = violation.get("replay", {})
    names = rp.get("order") or [s[0] for s in SHAPES]
    order = []
    pool = list(SHAPES) + list(KIND_SHAPES)
    for nm in names:
        for s in pool:
            if s[0] == nm or (s[0] == "boomx" and nm == "boomx:" + s[1][1]):
                order.append(s)
                pool.remove(s)
                break
    sim, v, note = scenario(ctx.repo, rp.get("seed", 1), ctx.tmpdir(), order or list(SHAPES))
    return {"violated": bool(v), "violations": v[:5], "note": note}
