"""C02 monitor `c02.membership_ack`: the callback contract for MEMBERSHIP commands on real clusters.

`addNodeToCluster` / `removeNodeFromCluster` are submissions like any other (C02: "for all submissions"): a callback
that reports SUCCESS stands for ONE membership entry of its own that some node applied.  The schedules are those of
`corr.c10_membership` (dynamic membership, requests on any node, the same request repeated back to back, leader isolated
or deposed while a change is uncommitted, compactions, snapshots); of its monitors only the one that speaks about the
callback is reported here (`membership:request-acknowledged-without-an-applied-entry`), the others belong to C10.

Added after seeded change C02-16 (a refused request that "asks for what the member set already looks like" answered
SUCCESS although nothing is appended): the handler-level correspondence noticed the change but the search for a failing
input of C02 had no membership submissions and ended with no-failing-input-found; with this component the report
carries the schedule.
"""
import time

from harness.corr import c10_membership as M

PROPERTIES = ["C02"]
ORDER = 46

SIG = M.SIG_ACK


def run(ctx):
    t0 = time.time()
    r = M.run(ctx)
    keep = [v for v in r.get("violations", []) if v.get("signature") == SIG]
    cov = {k: v for k, v in r.get("coverage", {}).items()
           if k.startswith("callback:") or k.startswith("request:") or k in ("back-to-back", "isolate-leader", "overlap-resend",
                                                                               "long-conflict-truncated")}
    res = {"name": "corr.c02_membership_ack", "cases": r.get("cases", 0), "distinct": r.get("distinct", 0), "coverage": cov,
           "samples": r.get("samples", []), "disagreements": [], "violations": keep, "wall_s": round(time.time() - t0, 2)}
    need = ["request:add", "request:rem", "callback:0", "callback:6", "back-to-back", "isolate-leader"]
    missing = [k for k in need if not cov.get(k)]
    if missing and not keep:
        # a violation of another monitor ends the schedules early: C10's business, but then nothing was shown here
        res["inconclusive"] = "coverage floor missed: " + ", ".join(missing)
    return res


def replay(ctx, violation):
    rp = violation.get("replay", {})
    if "seed" in rp:
        ctx.seed = rp["seed"]
    r = run(ctx)
    same = [v for v in r["violations"] if v["signature"] == violation.get("signature")]
    return {"violated": bool(same), "violations": (same or r["violations"])[:3], "replayed": rp.get("directed", "run %s" % rp.get("run"))}
