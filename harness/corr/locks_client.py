"""C16 correspondence `locks.client`: the real wrapper `ReplLockManager` (its own thread replaced by
synchronous passes of the real `_autoAcquireThread` body, `time.time` virtual) against the model's wrapper
(`Client.tryAcquireCmd/tryAcquireFinish/tick/isAcquired/releaseCmd`).  The wrapper talks to a fake
SyncObj that captures what it submits and answers `acquire` after a chosen delay with a chosen result
(sync path: inside the call; async path: later) -- delays at U/2-1, U/2, U/2+1, prolongation guard at
U/4 on both sides, `_syncObj is None`, no leader.  Also checks the late-acquire clause of the property on
the real wrapper directly."""
import hashlib
import time

from harness.corr import locks_common as lc

PROPERTIES = ["C16"]
ORDER = 41

FLOORS = ["try.sync.ontime", "try.sync.late", "try.sync.refused", "try.sync.boundary", "try.async.ontime",
          "try.async.late", "try.async.refused", "try.async.none", "try.async.boundary", "tick.skip.recent", "tick.skip.noobj",
          "tick.skip.noleader", "tick.prolong", "tick.boundary", "isacq.true", "isacq.false", "release", "try.sync.error",
          "try.sync.timeout", "try.sync.leader-changed", "try.async.leader-changed"]

OPEN = (5, "timeout")       # FAIL_REASON.LEADER_CHANGED, SyncObjException('Timeout'): the command may still be committed


def res_str(r):
    return "T" if r is True else "F" if r is False else "N" if r is None else "?%r" % (r,)


def gen_script(rng, U):
    """events: ('apply', cmd) | ('try_sync', l, delay, res, err) | ('try_async', l, delay, res, err)
    | ('tick', obj, leader, d1, d2, d3) | ('isacq', l) | ('release', l) | ('adv', dt)"""
    evs = []
    half = U // 2
    for _ in range(rng.randrange(4, 25)):
        r = rng.random()
        l = rng.randrange(1, 3)
        if r < 0.15:
            c = rng.randrange(1, 4)
            k = rng.random()
            evs.append(("apply", k))            # resolved at run time against the clock
            evs[-1] = ("apply", ("acq", l, c, None) if k < 0.6 else ("pro", c, None) if k < 0.8 else ("rel", l, c))
        elif r < 0.4:
            delay = rng.choice((0, 1, max(0, half - 1), half, half + 1, U, U + 1))
            res, err = rng.choice(((True, 0), (True, 0), (True, 0), (False, 0), (None, 1), (None, 5), (None, "timeout"), (None, 4)))
            evs.append(("try_sync", l, delay, res, err))
        elif r < 0.6:
            delay = rng.choice((0, 1, max(0, half - 1), half, half + 1, U, U + 1))
            res, err = rng.choice(((True, 0), (True, 0), (True, 0), (False, 0), (None, 3), (None, 5), (None, 2)))
            evs.append(("try_async", l, delay, res, err))
        elif r < 0.8:
            q = U // 4
            d1 = rng.choice((0, max(0, q - 1), q, q + 1, U))
            obj = rng.random() < 0.85
            leader = rng.random() < 0.8
            d2, d3 = rng.choice(((0, 0), (0, 0), (1, 2), (0, 3)))
            evs.append(("tick", obj, leader, d1, d2, d3))
        elif r < 0.9:
            evs.append(("isacq", l))
        elif r < 0.95:
            evs.append(("release", l))
        else:
            evs.append(("adv", rng.choice((1, half, U, U + 1))))
    return evs


def systematic():
    scripts = []
    for U in (0, 1, 4, 5, 8, 10):
        half = U // 2
        for delay in sorted(set((0, max(0, half - 1), half, half + 1, half + 2))):
            for (res, err) in ((True, 0), (False, 0)):
                scripts.append((U, [("try_sync", 1, delay, res, err), ("isacq", 1)]))
                scripts.append((U, [("try_async", 1, delay, res, err), ("isacq", 1)]))
            scripts.append((U, [("try_async", 1, delay, None, 3)]))
            scripts.append((U, [("try_sync", 1, delay, None, 1)]))
            scripts.append((U, [("try_async", 1, delay, None, 5), ("isacq", 1)]))
            scripts.append((U, [("try_sync", 1, delay, None, 5), ("isacq", 1)]))
            scripts.append((U, [("try_sync", 1, delay, None, "timeout"), ("isacq", 1)]))
            for e in (1, 2, 3, 4, 6):
                scripts.append((U, [("try_async", 1, delay, None, e), ("try_sync", 1, delay, None, e)]))
        q = U // 4
        for d1 in sorted(set((0, max(0, q - 1), q, q + 1, q + 2))):
            scripts.append((U, [("tick", True, True, 40, 0, 0), ("tick", True, True, d1, 1, 2), ("tick", True, True, d1, 0, 0)]))
            scripts.append((U, [("tick", False, True, 40, 0, 0), ("tick", True, False, 40, 0, 0)]))
        scripts.append((U, [("apply", ("acq", 1, 1, None)), ("isacq", 1), ("adv", U - 1 if U else 0), ("isacq", 1),
                            ("adv", 1), ("isacq", 1), ("release", 1), ("apply", ("rel", 1, 1)), ("isacq", 1)]))
    return scripts


def run_script(bat, U, evs, me=1, cov=None):
    """run on the real wrapper; returns (driver lines, expected replies)"""
    def hit(k):
        if cov is not None:
            cov[k] = cov.get(k, 0) + 1
    lines = ["conf %d 1" % U, "cnew %d 0" % me]
    exp = ["ok", "ok"]
    clock = lc.VClock(50)
    with lc.Patched(bat, clock):
        mgr, impl, so = lc.make_manager(bat, U, me)
        for ev in evs:
            k = ev[0]
            n0 = len(so.submitted)
            if k == "adv":
                clock.now += ev[1]
            elif k == "apply":
                cmd = ev[1]
                if cmd[0] == "acq":
                    cmd = cmd[:3] + (clock.now,)
                elif cmd[0] == "pro":
                    cmd = cmd[:2] + (clock.now,)
                r = lc.apply_cmd(impl, cmd)
                lines.append(" ".join(str(x) for x in cmd))
                exp.append("%s %s" % ("1" if r is True else "0" if r is False else "-", lc.table_str(lc.table_of(impl))))
            elif k in ("try_sync", "try_async"):
                _, l, delay, res, err = ev
                att = clock.now
                got = []
                if k == "try_sync":
                    def answer(cmd, cb, delay=delay, res=res, err=err):
                        if cmd[0] == "acq":
                            clock.now += delay
                            if err != "timeout":          # "timeout": nobody answers, the sync call gives up
                                cb(res, err)
                        elif cb is not None:
                            cb(None, 0)
                        return True
                    so.on_submit = answer
                    try:
                        got.append(mgr.tryAcquire(lc.lock_name(l), sync=True, timeout=0.001 if err == "timeout" else None))
                    except Exception as e:
                        got.append("raised:" + type(e).__name__)
                    so.on_submit = None
                else:
                    mgr.tryAcquire(lc.lock_name(l), callback=lambda r, e: got.append((r, e)))
                    assert len(so.queue) == 1
                    cmd, cb = so.queue.pop(0)
                    clock.now += delay
                    cb(res, err)
                    so.queue[:] = []          # a late release is only captured (so.submitted)
                acq = clock.now
                sub = so.submitted[n0:]
                lines.append("ctry %d %d" % (l, att))
                exp.append(lc.cmds_str(sub[:1]))
                lines.append("cfin %d %d %d %s" % (l, att, acq, "O" if res is None and err in OPEN else res_str(res)))
                if k == "try_sync":
                    if err != 0:
                        # the replicated call raises, tryAcquire does not catch: nothing further is submitted
                        ans = "N" if got[0] == "raised:SyncObjException" else "?" + repr(got)
                    else:
                        ans = res_str(got[0])
                else:
                    ans = res_str(got[0][0]) if len(got) == 1 and got[0][1] == err else "?" + repr(got)
                exp.append("%s %s" % (ans, lc.cmds_str(sub[1:])))
                tag = "try.sync" if k == "try_sync" else "try.async"
                if err != 0:
                    hit("try.sync.error" if k == "try_sync" else "try.async.none")
                    if err in OPEN:
                        hit(("try.sync." if k == "try_sync" else "try.async.") + ("timeout" if err == "timeout" else "leader-changed"))
                elif res is False:
                    hit(tag + ".refused")
                else:
                    hit(tag + (".late" if len(sub) > 1 else ".ontime"))
                    if 2 * (acq - att) - U in (-1, 0, 1, 2):
                        hit(tag + ".boundary")
            elif k == "tick":
                _, obj, leader, d1, d2, d3 = ev
                last = getattr(mgr, "_ReplLockManager__lastProlongateTime")
                clock.now += d1
                n1, n2, n3 = clock.now, clock.now + d2, clock.now + d3
                clock.script = [n1, n2, n3]
                impl._syncObj = so if obj else None
                so.leader = leader
                lc.tick_once(bat, mgr, clock)
                clock.script = []
                clock.now = n3
                impl._syncObj = so
                so.leader = True
                so.queue[:] = []
                sub = so.submitted[n0:]
                lines.append("ctick %d %d %d %d %d" % (int(obj), int(leader), n1, n2, n3))
                exp.append("%d %s" % (getattr(mgr, "_ReplLockManager__lastProlongateTime"), lc.cmds_str(sub)))
                if sub:
                    hit("tick.prolong")
                elif 4 * (n1 - last) < U:
                    hit("tick.skip.recent")
                elif not obj:
                    hit("tick.skip.noobj")
                else:
                    hit("tick.skip.noleader")
                if 4 * (n1 - last) - U in (-4, -3, -2, -1, 0, 1, 2, 3, 4):
                    hit("tick.boundary")
            elif k == "isacq":
                r = mgr.isAcquired(lc.lock_name(ev[1]))
                lines.append("cisacq %d %d" % (ev[1], clock.now))
                exp.append("1" if r is True else "0" if r is False else "?%r" % (r,))
                hit("isacq.true" if r else "isacq.false")
            elif k == "release":
                mgr.release(lc.lock_name(ev[1]))
                so.queue[:] = []
                lines.append("crel %d" % ev[1])
                exp.append(lc.cmds_str(so.submitted[n0:]))
                hit("release")
        mgr.destroy()
    return lines, exp


def late_clause(bat, rng, n):
    """Property text on the real wrapper: 'a client whose acquisition took longer than half the auto-unlock
    time is told it failed and does not keep the lock' -- and one that was not late is told the truth."""
    viols = []
    for i in range(n):
        U = rng.choice((1, 2, 5, 8, 10, 30))
        took = rng.choice((0, U // 2, U // 2 + 1, U, 2 * U))
        sync = rng.random() < 0.5
        clock = lc.VClock(rng.randrange(0, 100))
        with lc.Patched(bat, clock):
            mgr, impl, so = lc.make_manager(bat, U, 1)
            got = []

            def commit_and_apply():
                out = []
                while so.queue:
                    cmd, cb = so.queue.pop(0)
                    out.append((lc.apply_cmd(impl, cmd), cb))
                return out
            if sync:
                def answer(cmd, cb):
                    if cmd[0] == "acq":
                        clock.now += took
                    cb(lc.apply_cmd(impl, cmd), 0)
                    return True
                so.on_submit = answer
                got.append(mgr.tryAcquire(lc.lock_name(1), sync=True))
            else:
                mgr.tryAcquire(lc.lock_name(1), callback=lambda r, e: got.append(r))
                clock.now += took
                for r, cb in commit_and_apply():
                    cb(r, 0)
                commit_and_apply()             # the release, if any
            keeps = mgr.isAcquired(lc.lock_name(1))
            late = 2 * took > U
            timely = 2 * took < U              # exactly U/2: the property text decides nothing, the model does
            mgr.destroy()
        if late and (got != [False] or keeps):
            viols.append({"signature": "batteries.ReplLockManager.tryAcquire:late-acquire-kept",
                          "what": "U=%d, acquisition took %d (> U/2): told %r, isAcquired afterwards %r (sync=%r)" % (U, took, got, keeps, sync),
                          "replay": {"kind": "late", "U": U, "took": took, "sync": sync}})
        if timely and (got != [True] or not keeps):
            viols.append({"signature": "batteries.ReplLockManager.tryAcquire:timely-acquire-denied",
                          "what": "U=%d, acquisition of a free lock took %d (< U/2): told %r, isAcquired afterwards %r (sync=%r)"
                                  % (U, took, got, keeps, sync),
                          "replay": {"kind": "late", "U": U, "took": took, "sync": sync}})
    return viols, n


SIG_FAILED_KEPT = "batteries.ReplLockManager.tryAcquire:failed-acquire-kept"


def failed_clause(bat, rng, n):
    """Property text on the real wrapper + a real replica: a client that is told its acquisition failed does
    not keep the lock -- also when the failure reported is one after which the command is committed anyway
    (sync `Timeout`, `LEADER_CHANGED`).  The commands the wrapper submitted are committed in submission order,
    the acquire `took` later than the attempt; the client's prolongation passes run; afterwards the client must
    not consider the lock held and a competitor must get it."""
    viols = []
    for i in range(n):
        U = rng.choice((4, 8, 10, 30))
        took = rng.choice((0, 1, U // 2, U // 2 + 1, U - 1, U))
        how = rng.choice(("sync-timeout", "sync-leader-changed", "async-leader-changed"))
        clock = lc.VClock(rng.randrange(0, 100))
        t_att = clock.now
        with lc.Patched(bat, clock):
            mgr, impl, so = lc.make_manager(bat, U, 1)
            told = []
            if how.startswith("sync"):
                def hold(cmd, cb, how=how):
                    so.queue.append((cmd, None))          # stays in the pipeline, will be committed
                    if cmd[0] == "acq" and how == "sync-leader-changed":
                        cb(None, 5)
                    elif cmd[0] != "acq" and cb is not None:
                        cb(None, 0)
                    return True
                so.on_submit = hold
                try:
                    told.append(mgr.tryAcquire(lc.lock_name(1), sync=True, timeout=0.001))
                except Exception as e:
                    told.append("raised %s(%s)" % (type(e).__name__, getattr(e, "errorCode", "")))
                so.on_submit = None
            else:
                mgr.tryAcquire(lc.lock_name(1), callback=lambda r, e: told.append((r, e)))
                cmd, cb = so.queue[0]
                so.queue[0] = (cmd, None)
                cb(None, 5)
            clock.now += took
            committed = []
            while so.queue:
                cmd, cb = so.queue.pop(0)
                lc.apply_cmd(impl, cmd)
                committed.append(lc.cmd_str(cmd))
            held_after_commit = mgr.isAcquired(lc.lock_name(1))
            for _ in range(5):                            # the client lives on: its prolongation passes run
                clock.now += max(1, U // 4)
                lc.tick_once(bat, mgr, clock)
                while so.queue:
                    cmd, cb = so.queue.pop(0)
                    lc.apply_cmd(impl, cmd)
                    committed.append(lc.cmd_str(cmd))
            keeps = mgr.isAcquired(lc.lock_name(1))
            other = impl.acquire(lc.lock_name(1), lc.client_name(2), clock.now, _doApply=True)
            mgr.destroy()
        if keeps or other is not True:
            viols.append({"signature": SIG_FAILED_KEPT,
                          "what": "U=%d, tryAcquire at %d (%s) told %s; the acquire was committed %d later; committed commands %s; at %d the "
                                  "client's isAcquired is %r (%r right after the commit) and a competitor's acquire answers %r"
                                  % (U, t_att, how, told, took, committed, clock.now, keeps, held_after_commit, other),
                          "replay": {"kind": "failed", "U": U, "took": took, "how": how}})
    return viols, n


def run(ctx):
    t0 = time.time()
    bat = lc.load_batteries(ctx.repo)
    rng = ctx.rng("locks.client")
    scripts = systematic()
    for _ in range(ctx.scale(600, 20000)):
        U = rng.choice((0, 1, 2, 4, 5, 8, 10, 12))
        scripts.append((U, gen_script(rng, U)))
    cov, seen = {}, set()
    all_lines, all_exp, spans = [], [], []
    for (U, evs) in scripts:
        lines, exp = run_script(bat, U, evs, me=rng.randrange(1, 4), cov=cov)
        spans.append((len(all_lines), len(lines)))
        all_lines += lines
        all_exp += exp
        seen.add(hashlib.sha1(repr((U, evs)).encode()).hexdigest())
    out = ctx.driver("locks", all_lines)
    disagreements = []
    for (U, evs), (a, n) in zip(scripts, spans):
        if out[a:a + n] != all_exp[a:a + n] and len(disagreements) < 3:
            j = next(i for i in range(n) if out[a + i] != all_exp[a + i])
            disagreements.append({"input": {"U": U, "events": [list(map(str, e)) for e in evs], "request": all_lines[a + j]},
                                  "model": out[a + j], "impl": all_exp[a + j],
                                  "note": "first differing reply of the script (request shown); earlier requests: %s" % all_lines[a:a + j][-6:]})
    viols, nl = late_clause(bat, ctx.rng("locks.client.late"), ctx.scale(200, 5000))
    v2, n2 = failed_clause(bat, ctx.rng("locks.client.failed"), ctx.scale(60, 1000))
    viols, nl = viols + v2, nl + n2
    res = {"cases": len(scripts) + nl, "distinct": len(seen), "coverage": dict(sorted(cov.items())),
           "samples": [{"U": scripts[-1][0], "requests": all_lines[spans[-1][0]:][:8], "replies": all_exp[spans[-1][0]:][:8]}],
           "disagreements": disagreements, "violations": viols[:3], "wall_s": round(time.time() - t0, 2)}
    missing = [k for k in FLOORS if not cov.get(k)]
    if missing:
        res["inconclusive"] = "coverage floor missed: " + ",".join(missing)
    return res


def search(ctx, unproved):
    """Each clause on its own: a change that makes the harness of one clause unusable (an exception out of the wrapper
    under the fake SyncObj) must not hide what the other clause can show (seeded change C16-18)."""
    bat = lc.load_batteries(ctx.repo)
    out = []
    for fn, salt, n, keep in ((late_clause, "locks.client.search", ctx.scale(2000, 20000), 2),
                              (failed_clause, "locks.client.search2", ctx.scale(200, 2000), 2)):
        try:
            out += fn(bat, ctx.rng(salt), n)[0][:keep]
        except Exception:
            pass
    return out


def replay(ctx, violation):
    bat = lc.load_batteries(ctx.repo)
    rp = violation.get("replay") or {}
    if rp.get("kind") == "failed":
        vs = failed_clause(bat, ctx.rng("locks.client.failed"), ctx.scale(60, 1000))[0]
        vs += failed_clause(bat, ctx.rng("locks.client.search2"), ctx.scale(200, 2000))[0]
        same = [v for v in vs if all(v["replay"].get(k) == rp.get(k) for k in ("U", "took", "how"))]
        return {"violated": bool(same), "first": same[:1]}
    viols = late_clause(bat, ctx.rng("locks.client.late"), ctx.scale(200, 5000))[0]
    viols += late_clause(bat, ctx.rng("locks.client.search"), ctx.scale(2000, 20000))[0]
    same = [v for v in viols if v["signature"] == violation.get("signature")
            and all(v["replay"].get(k) == rp.get(k) for k in ("U", "took", "sync"))]
    return {"violated": bool(same), "first": same[:1]}
