"""Correspondence `storage.dump` + "never torn" monitor for the dump file (C09, used by C06 too).

The primitive file operations of the real `Serializer` — `open(.., 'wb')`, every `write` reaching the file,
`close`, `atomicReplace` — are intercepted by replacing the names `open` and `atomicReplace` in the module
`pysyncobj.serializer` (no repository change).  For every operation that writes the dump file
(inline `serialize` with the built-in writer, with user serializer functions, failing writers; a REAL fork
child; an incoming chunked transfer followed by `finishIncoming(True)` = install, or `(False)` = reject, D70) and every prefix k of its primitive operations = crash point:
the process is "killed" after k operations (inline: nothing after the k-th operation reaches the disk; fork:
the REAL child dies there — by `_exit(9)` and by real signals SIGKILL / SIGTERM / SIGABRT; the parent's
`checkSerializing()` must then report FAILED (model: `childKill`), never SUCCESS for a dump that was not written), then
  * the three file images (dump, .tmp, .1.tmp) and the operation list are compared with the Lean model
    (`driver serializer`, case kind `crash`: `serializeOps` / `acceptOps` and `FS.crashAt`);
  * monitor (property text): a fresh `Serializer` on the directory sees no dump, the complete old snapshot or
    the complete new snapshot — `deserialize()` never fails on an existing file and never returns anything else.
"""
import contextlib
import json
import os
import pickle
import shutil
import signal
import time

from harness.corr import serializer_common as sc

PROPERTIES = ["C09", "C06"]
ORDER = 55


@contextlib.contextmanager
def frozen_time():
    """gzip stamps `time.time()` into its header: freeze it so that repeated runs write identical bytes."""
    real = time.time
    time.time = lambda: 1700000000.0
    try:
        yield
    finally:
        time.time = real


_REAL = {("os", n): getattr(os, n) for n in ("rename", "replace", "remove", "unlink")}
_REAL.update({("shutil", n): getattr(shutil, n) for n in ("copy", "copy2", "copyfile")})
_REAL_OPEN = open
TAPPED_MODULES = ("pysyncobj.atomic_replace", "pysyncobj.serializer")


class Interceptor(object):
    """Taps the file-system PRIMITIVES while a serializer operation runs: `os.rename/replace/remove/unlink`,
    `shutil.copy/copy2/copyfile` (globally, and every name in `pysyncobj.atomic_replace` / `pysyncobj.serializer`
    that was bound to one of them at import time — on the pinned tree `atomicReplace` IS `os.rename`), and
    `open(.., 'w'/'a')` as looked up by these two modules.  `atomicReplace` itself is NOT a primitive here: whatever
    it does is seen operation by operation.  A kill point lies before every primitive (and in the middle of a copy);
    the only atomicity assumed is that of one `os.rename` / `os.replace` call."""

    def __init__(self, sermod, fn, kill_at=None, hard_exit=False):
        import sys
        self.sermod = sermod
        self.mods = [sys.modules[m] for m in TAPPED_MODULES if m in sys.modules]
        self.fn = fn
        self.dir = os.path.dirname(fn)
        self.names = {fn: "dump", fn + ".tmp": "tmp", fn + ".1.tmp": "tmp1"}
        self.ops = []             # recorded primitive operations (also the ones after the kill)
        self.kill_at = kill_at
        self.hard_exit = hard_exit
        self.dead = False
        self.saved = []
        self.owner = os.getpid()

    def name(self, path):
        path = os.fspath(path) if not isinstance(path, (str, bytes)) else path
        return self.names.get(path, os.path.basename(path) if isinstance(path, str) else repr(path))

    def ours(self, *paths):
        return any(isinstance(p, str) and os.path.dirname(os.path.abspath(p)) == self.dir for p in paths)

    def _gate(self, op):
        """Returns True when the operation is to be performed."""
        if self.kill_at is not None and len(self.ops) >= self.kill_at:
            if self.hard_exit and os.getpid() != self.owner:         # the fork child dies here, for real
                if self.hard_exit in ("SIGKILL", "SIGTERM", "SIGABRT"):
                    if self.hard_exit != "SIGKILL":
                        signal.signal(getattr(signal, self.hard_exit), signal.SIG_DFL)
                    os.kill(os.getpid(), getattr(signal, self.hard_exit))
                    time.sleep(30)
                os._exit(9)
            self.dead = True
        self.ops.append(op)
        return not self.dead

    # -- primitives ------------------------------------------------------------------------------
    def _rename(self, kind):
        real = _REAL[("os", kind)]

        def f(src, dst, *a, **kw):
            if not self.ours(src, dst):
                return real(src, dst, *a, **kw)
            if self._gate("rename %s %s" % (self.name(src), self.name(dst))):
                real(src, dst, *a, **kw)
        return f

    def _remove(self, kind):
        real = _REAL[("os", kind)]

        def f(path, *a, **kw):
            if not self.ours(path):
                return real(path, *a, **kw)
            if self._gate("remove %s" % self.name(path)):
                real(path, *a, **kw)
        return f

    def _copy(self, kind):
        real = _REAL[("shutil", kind)]

        def f(src, dst, *a, **kw):
            if not self.ours(src, dst) or os.path.isdir(dst):
                return real(src, dst, *a, **kw)
            data = sc.read_file(src) or b""
            half = len(data) // 2
            if self._gate("copy-begin %s %s" % (self.name(src), self.name(dst))):
                with _REAL_OPEN(dst, "wb", buffering=0) as g:     # a copy is tearable: first half ...
                    g.write(data[:half])
            if self._gate("copy-end %s %s" % (self.name(src), self.name(dst))):
                with _REAL_OPEN(dst, "ab", buffering=0) as g:     # ... second half
                    g.write(data[half:])
            return dst
        return f

    def open(self, path, mode="r", *a, **kw):
        if ("w" not in mode and "a" not in mode and "x" not in mode and "+" not in mode) or not self.ours(path):
            return _REAL_OPEN(path, mode, *a, **kw)
        name = self.name(path)
        ic = self
        append = "a" in mode

        class W(object):
            def __init__(self):
                self.f = None
                if ic._gate("%s %s" % ("openA" if append else "openW", name)):
                    self.f = _REAL_OPEN(path, "ab" if append else "wb", buffering=0)

            def write(self, b):
                b = b.encode() if isinstance(b, str) else bytes(b)
                if ic._gate("write %s %s" % (name, sc.hx(b))) and self.f is not None:
                    self.f.write(b)
                return len(b)

            def flush(self):
                pass

            def close(self):
                if ic._gate("close %s" % name) and self.f is not None:
                    self.f.close()
                elif self.f is not None:
                    self.f.close()     # release the descriptor; content is unaffected (unbuffered)

            def __enter__(self):
                return self

            def __exit__(self, *exc):
                self.close()
                return False
        return W()

    # -- installation ----------------------------------------------------------------------------
    def _set(self, obj, attr, val):
        d = obj.__dict__
        self.saved.append((obj, attr, d[attr] if attr in d else _MISSING))
        setattr(obj, attr, val)

    def __enter__(self):
        wrappers = {}
        for (mod, n), real in _REAL.items():
            w = self._rename(n) if n in ("rename", "replace") else self._remove(n) if n in ("remove", "unlink") else self._copy(n)
            wrappers[id(real)] = w
            self._set(os if mod == "os" else shutil, n, w)
        for m in self.mods:
            for k, v in list(m.__dict__.items()):
                if id(v) in wrappers and any(v is r for r in _REAL.values()):
                    self._set(m, k, wrappers[id(v)])       # e.g. serializer.atomicReplace = os.rename
            self._set(m, "open", self.open)
        return self

    def __exit__(self, *exc):
        for obj, attr, val in reversed(self.saved):
            if val is _MISSING:
                delattr(obj, attr)
            else:
                setattr(obj, attr, val)
        self.saved = []
        return False


_MISSING = object()


def user_serializer(ic, fail_after=None):
    def ser(path, data):
        with ic.open(path, "wb") as f:
            blob = pickle.dumps(data)
            third = max(1, len(blob) // 3)
            for i, pos in enumerate(range(0, len(blob), third)):
                if fail_after is not None and i >= fail_after:
                    raise ValueError("user serializer gives up")
                f.write(blob[pos:pos + third])
    return ser


def user_deserializer(path):
    with open(path, "rb") as f:
        return pickle.load(f)


def images(fn):
    return {"dump": sc.hx(sc.read_file(fn)), "tmp": sc.hx(sc.read_file(fn + ".tmp")), "tmp1": sc.hx(sc.read_file(fn + ".1.tmp")),
            "snap": None}


def classify(sermod, fn, user, old_data, new_data, own_data=None):
    """What a fresh Serializer sees in the directory."""
    s = sermod.Serializer(fn, 16, False, (lambda p, d: None) if user else None, user_deserializer if user else None, None)
    if not os.path.exists(fn):
        return "absent"
    try:
        got = s.deserialize()
    except Exception as e:
        return "torn:" + type(e).__name__
    if old_data is not None and repr(got) == repr(old_data):
        return "old"
    if new_data is not None and repr(got) == repr(new_data):
        return "new"
    if own_data is not None and repr(got) == repr(own_data):
        return "own"
    return "torn:other-value"


def expect_tuple(data, user):
    return ((None,) + tuple(data[1:])) if user else data


class Scenario(object):
    """One dump-writing operation, from a given directory state."""

    def __init__(self, name, what, old, user=False, fork=False, bad=False, n=4, fail_after=None, chunk=16, big=False):
        self.name, self.what, self.old, self.user, self.fork = name, what, old, user, fork
        self.bad, self.n, self.fail_after, self.chunk, self.big = bad, n, fail_after, chunk, big

    def key(self):
        return [self.name, self.what, self.old, self.user, self.fork, self.bad, self.n, self.fail_after, self.chunk, self.big]

    def new_data(self):
        d = sc.mk_data(7, self.n, self.bad)
        if self.big:
            import random
            d[0]["blob"] = random.Random(5).randbytes(300000)
        return d

    def fin(self):
        return self.name != "receive-reject"

    def own_between(self):
        """The node runs a log compaction of its own (inline dump + checkSerializing) between two chunks."""
        return self.name.startswith("receive-own-dump-between")

    def own_data(self):
        return sc.mk_data(5, 3, False) if self.own_between() else None

    def old_data(self):
        return sc.mk_data(3, 2, False) if self.old else None

    def prepare(self, sermod, d):
        """Fresh directory with the complete old snapshot (or nothing); returns the dump file name."""
        fn = os.path.join(d, "node.dump")
        if self.old:
            with frozen_time():
                if self.user:
                    ic = Interceptor(sermod, fn)
                    s = sermod.Serializer(fn, 16, False, user_serializer(ic), user_deserializer, None)
                else:
                    s = sermod.Serializer(fn, 16, False, None, None, None)
                s.serialize(self.old_data(), 3)
            assert os.path.exists(fn)
        if self.name.endswith("-stale-tmp"):
            with open(fn + ".tmp", "wb") as f:      # left over by a writer of an earlier incarnation (D84)
                f.write(b"left over by an earlier writer")
        return fn

    def execute(self, sermod, fn, kill_at, death="exit"):
        """Run the operation with a kill after `kill_at` primitive operations (None = no kill).
        Returns (ops recorded, return values / final pid)."""
        rets = []
        if self.what == "serialize":
            hard = death if (self.fork and kill_at is not None) else False
            with Interceptor(sermod, fn, kill_at, hard_exit=hard) as ic, frozen_time():
                if self.user:
                    s = sermod.Serializer(fn, self.chunk, False, user_serializer(ic, self.fail_after), user_deserializer, None)
                else:
                    s = sermod.Serializer(fn, self.chunk, self.fork, None, None, None)
                with sc.guard_exit():
                    s.serialize(self.new_data(), 7)
                pid = sc.priv(s, "pid")
                if pid > 0:
                    os.waitid(os.P_PID, pid, os.WEXITED | os.WNOWAIT)
                    st, _ = s.checkSerializing()
                    rets.append(sc.STATUS[st])
                else:
                    rets.append(sc.PIDS[pid])
                return ic.ops, rets
        # incoming transfer: the chunks of a real image, produced by a real sender
        snd = sermod.Serializer(None, self.chunk, False, None, None, None)
        with frozen_time():
            snd.serialize(self.new_data(), 7)
        snd.checkSerializing()
        chunks = []
        while True:
            c = snd.getTransmissionData("f")
            chunks.append(c)
            if c[2]:
                break
        if self.name == "receive-restart-mid":
            chunks = chunks[:2] + chunks      # two chunks of an abandoned transfer, then a whole one
        if self.name == "receive-no-first":
            chunks = chunks[1:]               # refused: nothing may be written
        with Interceptor(sermod, fn, kill_at) as ic:
            rcv = sermod.Serializer(fn, self.chunk, False, None, None, None)
            own_at = len(chunks) // 2 if self.own_between() else None
            for i, c in enumerate(chunks):
                if ic.dead:
                    break
                if i == own_at:
                    with frozen_time():
                        rcv.serialize(self.own_data(), 5)
                    if not ic.dead:
                        rets.append(sc.STATUS[rcv.checkSerializing()[0]])
                    if ic.dead:
                        break
                rets.append(bool(rcv.setTransmissionData(c)))
            self.own_at = own_at
            if not ic.dead:
                # what SyncObj.__loadDumpFile(clearJournal=True) does with a received snapshot (D70): install or reject
                rets.append(bool(rcv.finishIncoming(self.fin())))
            inc = sc.priv(rcv, "incomingTransmissionFile")
            if inc is not None and getattr(inc, "f", None) is not None:
                inc.f.close()
        self.chunks = chunks
        return ic.ops, rets


def scenarios(tier):
    out = []
    for old in (False, True):
        out.append(Scenario("inline", "serialize", old))
        out.append(Scenario("inline-fail", "serialize", old, bad=True))
        out.append(Scenario("inline-stale-tmp", "serialize", old))
        out.append(Scenario("user", "serialize", old, user=True))
        out.append(Scenario("user-fail", "serialize", old, user=True, fail_after=1))
        out.append(Scenario("receive", "receive", old, chunk=24))
        out.append(Scenario("receive-restart-mid", "receive", old, chunk=32))
        out.append(Scenario("receive-no-first", "receive", old, chunk=32))
        out.append(Scenario("receive-reject", "receive", old, chunk=32))
        out.append(Scenario("receive-own-dump-between", "receive", old, chunk=32))
        if hasattr(os, "fork"):
            out.append(Scenario("fork", "serialize", old, fork=True))
            out.append(Scenario("fork-stale-tmp", "serialize", old, fork=True))
    out.append(Scenario("inline-big", "serialize", True, big=True))
    if tier != "quick":
        for n in (0, 1, 50, 500):
            for chunk in (1, 7, 4096):
                out.append(Scenario("receive", "receive", True, n=n, chunk=chunk))
            out.append(Scenario("inline", "serialize", True, n=n))
            out.append(Scenario("fork-fail", "serialize", True, fork=True, bad=True, n=n))
    return out


def model_case(sc_, fs0, ops_real):
    """The driver input describing the same operation."""
    if sc_.what == "serialize":
        pieces = [o.split(" ")[2] if len(o.split(" ")) > 2 else "" for o in ops_real if o.startswith("write tmp")]
        fail = not any(o.startswith("rename") for o in ops_real)
        return {"k": "crash", "fs": fs0, "inc": False, "what": "serialize", "p": pieces, "fail": fail, "fork": bool(sc_.fork)}
    extra = {}
    if sc_.own_between():
        extra = {"own_at": sc_.own_at, "own_p": [o.split(" ")[2] if len(o.split(" ")) > 2 else "" for o in ops_real
                                                 if o.startswith("write tmp ")]}
    return {"k": "crash", "fs": fs0, "inc": False, "what": "receive", "fin": sc_.fin(), **extra,
            "chunks": [sc.chunk_repr(c) for c in sc_.chunks]}


def judge(sc_, cls, k, ops_full):
    """Property text on one crash image: the dump is a complete old or new snapshot — never torn, and never
    missing when one existed before the operation."""
    at = "after a kill before primitive operation %d of %d (%s done last) of %s (%s)" % (
        k + 1, len(ops_full), (ops_full[k - 1][:40] if k else "nothing"), sc_.what, sc_.name)
    if cls.startswith("torn"):
        return {"signature": "serializer.dump:torn-at-crash-point:" + sc_.what,
                "what": "%s a fresh Serializer finds a dump file that is not ONE complete snapshot (neither the old one, nor the "
                        "node's own new one, nor the received one): %s" % (at, cls),
                "replay": {"component": "corr.storage_dump", "scenario": sc_.key(), "crash_after": k}}
    if cls == "absent" and sc_.old:
        return {"signature": "serializer.dump:missing-at-crash-point:" + sc_.what,
                "what": "%s there is NO dump file although a complete snapshot was on disk before the operation "
                        "(operations: %s)" % (at, [o[:24] for o in ops_full if not o.startswith("write")]),
                "replay": {"component": "corr.storage_dump", "scenario": sc_.key(), "crash_after": k}}
    return None


def run_scenario(ctx, sermod, sc_, base):
    """Returns (cases, disagreements, violations, coverage-dict)."""
    cov = {"ops": 0, "classes": {}, "prims": {}}
    dis, viols = [], []
    d0 = os.path.join(base, "full")
    os.makedirs(d0)
    fn = sc_.prepare(sermod, d0)
    fs0 = images(fn)
    # reference run (inline even for the fork scenario: same operations, observable from here)
    ref = sc_
    if sc_.fork:
        ref = Scenario(sc_.name, sc_.what, sc_.old, bad=sc_.bad, n=sc_.n)
    ops_full, rets_full = ref.execute(sermod, fn, None)
    if sc_.what == "receive":
        sc_.chunks = ref.chunks
    new_img = images(fn)["dump"]
    shutil.rmtree(d0)
    for o in ops_full:
        kind = o.split(" ")[0]
        if kind == "rename":
            kind = {"rename tmp dump": "rename tmp->dump over existing dump" if sc_.old else "rename tmp->dump creating first dump",
                    "rename tmp1 dump": "rename incoming tmp1->dump"}.get(o, "rename other: " + o)
        elif kind in ("openW", "openA", "close", "remove", "copy-begin", "copy-end"):
            kind = o
        cov["prims"][kind] = cov["prims"].get(kind, 0) + 1
    mc = model_case(sc_, fs0, ops_full)
    mout = json.loads(ctx.driver("serializer", [json.dumps(mc)])[0])
    ops_agree = mout.get("ops") == ops_full
    if not ops_agree:
        # the crash points are still enumerated below, under the property monitor alone
        dis.append({"input": {"scenario": sc_.key()}, "model": [o[:60] for o in (mout.get("ops") or [])],
                    "impl": [o[:60] for o in ops_full], "note": "primitive operation list of the dump write differs"})
    completes = any(o.startswith("rename") for o in ops_full)
    old_data = expect_tuple(sc_.old_data(), sc_.user) if sc_.old else None
    new_data = expect_tuple(sc_.new_data(), sc_.user) if (completes and not sc_.bad) else None
    own_img = "".join(o.split(" ")[2] for o in ops_full if o.startswith("write tmp ") and len(o.split(" ")) > 2) \
        if sc_.own_between() else None
    cases = 0
    DEATHS = ("exit", "SIGKILL", "SIGTERM", "SIGABRT")
    points = []
    for k in range(len(ops_full) + 1):
        if sc_.fork and k < len(ops_full):
            # the real child dies by _exit(9) or by a real signal (quick tier: one way per crash point, rotating;
            # SIGKILL always at the first point and right before the rename)
            if ctx.tier == "quick":
                d = "SIGKILL" if k in (0, len(ops_full) - 1) else DEATHS[k % 4]
                points.append((k, d))
            else:
                points.extend((k, d) for d in DEATHS)
        else:
            points.append((k, "exit"))
    for n, (k, death) in enumerate(points):
        dk = os.path.join(base, "k%d-%d" % (k, n))
        os.makedirs(dk)
        fnk = sc_.prepare(sermod, dk)
        ops_k, rets_k = sc_.execute(sermod, fnk, k if k < len(ops_full) else None, death)
        img = images(fnk)
        cls = classify(sermod, fnk, sc_.user, old_data, new_data, sc_.own_data())
        shutil.rmtree(dk)
        cases += 1
        cov["ops"] += 1
        cov["classes"][cls.split(":")[0]] = cov["classes"].get(cls.split(":")[0], 0) + 1
        v = judge(sc_, cls, k, ops_full)
        if v and len(viols) < 2:
            viols.append(v)
        if not ops_agree:
            continue
        mimg = mout["images"][k]
        mcls = "absent" if mimg["dump"] is None else ("old" if mimg["dump"] == fs0["dump"] else
                                                      ("new" if completes and mimg["dump"] == new_img else
                                                       ("own" if own_img is not None and mimg["dump"] == own_img else "torn")))
        if img != mimg or cls.split(":")[0] != mcls:
            if len(dis) < 2:
                dis.append({"input": {"scenario": sc_.key(), "crash_after": k, "op": ops_full[k - 1] if k else None},
                            "model": {"image": {a: (b and len(b) // 2) for a, b in mimg.items()}, "class": mcls},
                            "impl": {"image": {a: (b and len(b) // 2) for a, b in img.items()}, "class": cls},
                            "note": "file images after a kill differ"})
        if k == len(ops_full):
            if rets_k != (rets_full if not sc_.fork else rets_k) or (not sc_.fork and mout["rets"] != rets_k):
                dis.append({"input": {"scenario": sc_.key()}, "model": mout["rets"], "impl": rets_k,
                            "note": "return values / final pid of the complete operation differ"})
            if sc_.fork and rets_k != [("failed" if sc_.bad else "success")]:
                dis.append({"input": {"scenario": sc_.key()}, "model": "success" if not sc_.bad else "failed", "impl": rets_k,
                            "note": "status reported for the finished fork child"})
        elif sc_.fork:
            key = "child %s before the rename" % ("killed by signal" if death != "exit" else "exits non-zero")
            cov["prims"][key] = cov["prims"].get(key, 0) + 1
            expected = (mout.get("killed") or [None] * len(ops_full))[k]
            if rets_k == ["success"] and cls != "new" and len(viols) < 2:
                viols.append({"signature": "serializer.dump:success-reported-for-killed-writer",
                              "what": "the fork dump writer was ended by %s before primitive operation %d of %d (the rename is the last one); "
                                      "the dump file is %s, yet checkSerializing() reported SUCCESS — the caller trims its log up to a "
                                      "snapshot that was never written" % (death if death != "exit" else "_exit(9)", k + 1, len(ops_full),
                                                                           "the OLD snapshot" if cls == "old" else cls),
                              "replay": {"component": "corr.storage_dump", "scenario": sc_.key(), "crash_after": k, "death": death}})
            if rets_k != [expected]:
                if len(dis) < 2:
                    dis.append({"input": {"scenario": sc_.key(), "crash_after": k, "death": death}, "model": expected, "impl": rets_k,
                                "note": "status reported for a killed fork child"})
    return cases, dis, viols, cov


def own_dump_between_fork(ctx, sermod):
    """The same interleaving with a REAL fork child writing the own dump (no interception, no kill): the dump file is
    judged at every call boundary — it must always be ONE complete snapshot (old, own, or received), never a mix."""
    if not hasattr(os, "fork"):
        return 0, [], {}
    sc_ = Scenario("receive-own-dump-between-fork", "receive", True, fork=True, chunk=32)
    d = ctx.tmpdir()
    fn = sc_.prepare(sermod, d)
    snd = sermod.Serializer(None, sc_.chunk, False, None, None, None)
    with frozen_time():
        snd.serialize(sc_.new_data(), 7)
    snd.checkSerializing()
    chunks = []
    while True:
        c = snd.getTransmissionData("f")
        chunks.append(c)
        if c[2]:
            break
    rcv = sermod.Serializer(fn, sc_.chunk, True, None, None, None)
    seen, viols, steps = {}, [], []

    def look(step):
        cls = classify(sermod, fn, False, sc_.old_data(), sc_.new_data(), sc_.own_data())
        seen[cls.split(":")[0]] = seen.get(cls.split(":")[0], 0) + 1
        steps.append(step)
        if (cls.startswith("torn") or cls == "absent") and not viols:
            viols.append({"signature": "serializer.dump:mixed-after-own-dump-between-chunks",
                          "what": "the node wrote a dump of its own (fork child) after %d of %d chunks of an incoming snapshot; after "
                                  "step '%s' the dump file on disk is not ONE complete snapshot (old / own / received): %s — steps so "
                                  "far: %s" % (len(chunks) // 2, len(chunks), step, cls, steps[-6:]),
                          "replay": {"component": "corr.storage_dump", "scenario": sc_.key(), "fork_boundaries": True}})
    for i, c in enumerate(chunks):
        if i == len(chunks) // 2:
            with sc.guard_exit():
                rcv.serialize(sc_.own_data(), 5)
            pid = sc.priv(rcv, "pid")
            if pid > 0:
                os.waitid(os.P_PID, pid, os.WEXITED | os.WNOWAIT)
            look("own dump child finished")
            rcv.checkSerializing()
        rcv.setTransmissionData(c)
        look("chunk %d" % i)
    rcv.finishIncoming(True)
    look("finishIncoming(True)")
    inc = sc.priv(rcv, "incomingTransmissionFile")
    if inc is not None:
        inc.close()
    return len(steps), viols, seen


def run(ctx):
    t0 = time.time()
    sermod = sc.load(ctx.repo)
    cases, seen = 0, set()
    dis, viols = [], []
    cov = {"scenarios": {}, "crash_points": 0, "classes": {}, "primitives": {}}
    samples = []
    for sc_ in scenarios(ctx.tier):
        base = ctx.tmpdir()
        n, d, v, c = run_scenario(ctx, sermod, sc_, base)
        cases += n
        seen.add(sc.canon_hash(sc_.key()))
        dis.extend(d)
        viols.extend(v)
        cov["scenarios"][sc_.name] = cov["scenarios"].get(sc_.name, 0) + 1
        cov["crash_points"] += c["ops"]
        for k, x in c["classes"].items():
            cov["classes"][k] = cov["classes"].get(k, 0) + x
        for k, x in c["prims"].items():
            cov["primitives"][k] = cov["primitives"].get(k, 0) + x
        if len(samples) < 2:
            samples.append({"scenario": sc_.key(), "crash_points": n, "classes": c["classes"]})
    n, v, seen = own_dump_between_fork(ctx, sermod)
    cases += n
    viols.extend(v)
    cov["own_dump_between_chunks_fork"] = seen
    res = {"cases": cases, "distinct": cases, "coverage": cov, "samples": samples, "disagreements": dis[:3],
           "violations": viols[:3], "wall_s": round(time.time() - t0, 2)}
    import ctypes
    missing = [k for k in ("absent", "old", "new") if not cov["classes"].get(k)]
    missing += [k for k in ("rename tmp->dump over existing dump", "rename tmp->dump creating first dump",
                            "rename incoming tmp1->dump", "remove tmp1", "remove tmp", "openW tmp", "openW tmp1", "write")
                if not cov["primitives"].get(k)]
    if not cov["scenarios"].get("receive-own-dump-between") or not cov["classes"].get("own"):
        missing.append("own dump between the chunks of an incoming snapshot")
    if hasattr(os, "fork"):
        if not (cov.get("own_dump_between_chunks_fork") or {}).get("own"):
            missing.append("own fork dump between the chunks of an incoming snapshot")
        missing += [k for k in ("child killed by signal before the rename", "child exits non-zero before the rename")
                    if not cov["primitives"].get(k)]
    if hasattr(ctypes, "windll"):
        missing.append("POSIX branch of atomic_replace (this host runs the Windows branch)")
    if missing and not dis and not viols:
        res["inconclusive"] = "coverage floor missed: " + ", ".join(missing)
    return res


def search(ctx, unproved):
    return run(ctx).get("violations", [])


def replay(ctx, violation):
    sermod = sc.load(ctx.repo)
    key = violation["replay"]["scenario"]
    sc_ = Scenario(key[0], key[1], key[2], user=key[3], fork=key[4], bad=key[5], n=key[6], fail_after=key[7], chunk=key[8], big=key[9])
    if violation["replay"].get("fork_boundaries"):
        n, v, seen = own_dump_between_fork(ctx, sermod)
        return {"violated": bool(v), "violations": v, "classes": seen}
    n, d, v, c = run_scenario(ctx, sermod, sc_, ctx.tmpdir())
    return {"violated": bool(v), "violations": v, "disagreements": d, "classes": c["classes"]}
