"""C16 `locks.cluster`: real `ReplLockManager` consumers on real `SyncObj` nodes (3 voters) over a
simulated transport (per-connection FIFO channels, cuts), virtual raft clock, virtual lock clock
(`time.time` of pysyncobj.batteries), the clients' prolongation = passes of the real `_autoAcquireThread`
body.  Nothing of PySyncObj is replaced except transport, clocks and threads.

Checked on seeded random schedules with long cuts (a cut-off holder keeps believing while the others move
on) and on a directed D19 schedule (the holder is the leader; its two threads submit `prolongate(T2)` before
`acquire(T1)`, T1 < T2; it applies the first and is cut off before the second commits) and a directed
`stale` schedule (node X is frozen -- no ticks, nothing delivered -- right after its client submitted a
prolongation stamped t; the lock clock advances by more than U; Y acquires and prolongs every < U/2; X thaws
and its old command is committed; Y's node is frozen meanwhile; Z tries; Y thaws) and directed `snapshot`
schedules (a lock is held and prolonged; the leader is forced to compact; a frozen follower is then caught up
by the leader's snapshot -- or a node writes its dump file and is restarted from it, a new SyncObj and a new
ReplLockManager on the same file --; the client on the rebuilt node tries the lock):
  * every node's applied lock commands are a prefix of one common sequence (C01 -- reported as a
    disagreement of the plumbing assumption if not) and its lock table equals the Lean model's state after
    that prefix (`driver locks`), the values delivered to `tryAcquire` callbacks included;
  * the property: at every step, at the common lock-clock instant, at most one client considers a lock
    held (own `isAcquired`, no own release outstanding); no late acquisition answered True; on the
    common applied sequence a held lock changes hands only by the holder's release or a stamp later than
    lock time + U (`KeepMonitor`); in the `stale` schedule the prolonging holder still holds after catching
    up and the competitor was refused."""
import hashlib
import os
import pickle
import shutil
import tempfile
import random as _random
import time

from harness.corr import locks_common as lc

PROPERTIES = ["C16"]
ORDER = 43

SIG_REORDER = "batteries.ReplLockManager:stamp-reorder-mutex"
SIG_MUTEX = "batteries.ReplLockManager:mutex-broken"
SIG_MUTEX_STALE = "batteries.ReplLockManager:stale-stamp-mutex"
SIG_MUTEX_SNAPSHOT = "batteries.ReplLockManager:mutex-broken-after-snapshot"
SIG_FAILED_KEPT = "batteries.ReplLockManager.tryAcquire:failed-acquire-kept"
SIG_TWO_TOLD = "batteries.ReplLockManager.tryAcquire:two-clients-told-they-hold"
SIG_RELEASED_KEPT = "batteries.ReplLockManager.release:released-lock-kept"
NAMES = ["a", "b", "c"]
SLOW_RAFT = (2.0, 3.5)      # raft timeouts (s) of the schedules in which a link is slow for a while without an election


class _RandomShim(object):
    def __init__(self, rng):
        self._rng = rng

    def random(self):
        return self._rng.randrange(1024) / 1024.0

    def __getattr__(self, name):
        return getattr(_random, name)


class Cluster(object):
    def __init__(self, repo, U, seed, use_batch=True, dumpdir=None, raft_timeouts=(0.5, 1.5)):
        self.dumpdir = dumpdir
        self.raft_timeouts = raft_timeouts
        self.use_batch = use_batch
        self.bat = lc.load_batteries(repo)
        import pysyncobj.syncobj as so
        import pysyncobj.transport as tr
        from pysyncobj.node import Node
        from pysyncobj import SyncObj, SyncObjConf
        self.so, self.tr, self.Node = so, tr, Node
        self.U = U
        self.t = 1000.0                        # raft clock (monotonicTime)
        self.clock = lc.VClock(100)            # lock clock (time.time in batteries)
        self.rng = _random.Random(seed)
        self.saved = (so.monotonicTime, tr.monotonicTime, so.random)
        so.monotonicTime = lambda: self.t
        tr.monotonicTime = lambda: self.t
        so.random = _RandomShim(self.rng)
        self.patch = lc.Patched(self.bat, self.clock)
        self.patch.__enter__()
        self.trs, self.q, self.up = {}, {}, set()
        self.frozen = set()                    # nodes whose process is stopped: no ticks, nothing delivered
        self.hold = set()                      # channels (src, dst) on which messages wait (slow link)
        self.calls = dict((n, []) for n in NAMES)   # per client, in call order: ("try", l, rec) / ("rel", l, event no)
        self.evno = 0
        self.submitted = dict((n, []) for n in NAMES)    # abstract cmds in submission order
        self.applied = dict((n, []) for n in NAMES)      # (abstract cmd, return value) in apply order
        self.answers = []
        self.rel_submitted = {}
        self.sub_seq = dict((n, []) for n in NAMES)      # every client's own lock commands in submission order
        self.first_applied = {}              # command -> lock-clock value when the first node applied it
        self._bases = {}
        self.viols = []
        self.cov = {}
        cluster = self

        class SimTransport(tr.Transport):
            def __init__(self, syncObj, selfNode, otherNodes):
                super(SimTransport, self).__init__(syncObj, selfNode, otherNodes)
                self.me = selfNode.id
                cluster.trs[self.me] = self

            def addNode(self, n):
                pass

            def dropNode(self, n):
                pass

            def send(self, node, message):
                if (self.me, node.id) not in cluster.up:
                    return False
                cluster.q.setdefault((self.me, node.id), []).append(message)
                return True

        self.mgrs, self.objs = {}, {}
        self.by_impl, self.by_obj = {}, {}
        # recording hooks at class level (instance attributes of a consumer / SyncObj would end up in the dumps)
        impl_cls = self.bat._ReplLockManagerImpl
        self._orig_deser = impl_cls.__dict__.get("_deserialize")
        base_deser = impl_cls._deserialize

        def deser(this, data):
            base_deser(this, data)
            if id(this) in cluster.by_impl:
                cluster.on_deserialize(cluster.by_impl[id(this)], this)
        impl_cls._deserialize = deser
        self._orig_apply = SyncObj._applyCommand

        def submit(this, command, callback, commandType=None):
            if id(this) in cluster.by_obj and commandType == so._COMMAND_TYPE.REGULAR:
                cluster.on_submit(cluster.by_obj[id(this)], command)
            return cluster._orig_apply(this, command, callback, commandType)
        SyncObj._applyCommand = submit
        self.marks = dict((n, []) for n in NAMES)        # (number of commands applied before, kind, table after)
        self.SimTransport, self.SyncObj, self.SyncObjConf = SimTransport, SyncObj, SyncObjConf
        for n in NAMES:
            self.start_node(n)
        for a in NAMES:
            for b in NAMES:
                if a < b:
                    self.connect(a, b)

    def start_node(self, n):
        i = NAMES.index(n)
        mgr = self.bat.ReplLockManager(self.U, selfID=lc.client_name(i + 1))
        kw = {}
        if self.dumpdir is not None:
            kw = dict(fullDumpFile=os.path.join(self.dumpdir, n + ".dump"), useFork=False)
        conf = self.SyncObjConf(autoTick=False, raftMinTimeout=self.raft_timeouts[0], raftMaxTimeout=self.raft_timeouts[1],
                                appendEntriesPeriod=0.125,
                                appendEntriesUseBatch=self.use_batch, dynamicMembershipChange=False, **kw)
        self.by_impl[id(mgr._consumer())] = n
        obj = self.SyncObj(self.Node(n), [self.Node(o) for o in NAMES if o != n], conf=conf, consumers=[mgr],
                           transportClass=self.SimTransport)
        self.mgrs[n], self.objs[n] = mgr, obj
        self.by_obj[id(obj)] = n
        self._instrument(n, obj)

    def on_deserialize(self, n, impl):
        foreign = any(e[1] != NAMES.index(n) + 1 and self.clock.now < e[2] + self.U
                      for o in NAMES if o != n and o in self.mgrs
                      for e in lc.table_of(self.mgrs[o]._consumer()))
        self.hit("snapshot.install" + (".while-another-clients-lock-is-held" if foreign else ".no-foreign-lock"))
        self.marks[n].append((len(self.applied[n]), "snap", lc.table_of(impl)))

    def on_submit(self, n, command):
        """count the releases this node's own client asks for (user call or the wrapper's late-acquire rule)"""
        me = NAMES.index(n) + 1
        try:
            cmd = pickle.loads(command)
            if isinstance(cmd, tuple) and cmd[0] in self._bases[n]:
                a0 = self._abstract(self._bases[n][cmd[0]], cmd[1])
                if (a0[1] if a0[0] == "pro" else a0[2]) == me:      # forwarded commands of other clients are not ours
                    self.sub_seq[n].append(a0)
            if isinstance(cmd, tuple) and cmd[0] in self._bases[n] and self._bases[n][cmd[0]] == "release":
                a = self._abstract("release", cmd[1])
                if a[2] == me:
                    self.rel_submitted[(n, a[1])] = self.rel_submitted.get((n, a[1]), 0) + 1
        except Exception:
            pass

    def restart(self, n):
        """the process of node n is killed and started again: new SyncObj and new ReplLockManager on the same
        dump file (no journal); connections are re-established"""
        for o in NAMES:
            if o != n and (o, n) in self.up:
                self.disconnect(n, o)
        try:
            self.mgrs[n].destroy()
            self.objs[n].destroy()
        except Exception:
            pass
        self.marks[n].append((len(self.applied[n]), "restart", []))
        self.frozen.discard(n)
        self.start_node(n)
        self.join(n)
        self.hit("restart")

    # -- instrumentation -------------------------------------------------------------------------
    def _abstract(self, name, args):
        if name == "acquire":
            return ("acq", lc.lock_num(args[0]), lc.client_num(args[1]), args[2])
        if name == "prolongate":
            return ("pro", lc.client_num(args[0]), args[1])
        return ("rel", lc.lock_num(args[0]), lc.client_num(args[1]))

    def _instrument(self, n, obj):
        cluster = self
        table = obj._idToMethod
        self._bases.setdefault(n, {})
        for fid, meth in list(table.items()):
            name = getattr(meth, "origName", None) or getattr(meth, "__name__", "")
            if name.split("_v")[0] not in ("acquire", "prolongate", "release"):
                continue
            base = name.split("_v")[0]
            self._bases[n][fid] = base

            def rec(*args, _m=meth, _b=base, **kw):
                r = _m(*args, **kw)
                cluster.applied[n].append((cluster._abstract(_b, args), r))
                cluster.first_applied.setdefault(cluster._abstract(_b, args), cluster.clock.now)
                return r
            table[fid] = rec

    # -- network ------------------------------------------------------------------------------------
    def connect(self, a, b):
        for x, y in ((a, b), (b, a)):
            if (x, y) not in self.up:
                self.up.add((x, y))
                self.trs[x]._onNodeConnected(self.Node(y))

    def disconnect(self, a, b):
        for x, y in ((a, b), (b, a)):
            if (x, y) in self.up:
                self.up.discard((x, y))
                self.q[(x, y)] = []
                self.trs[x]._onNodeDisconnected(self.Node(y))

    def cut(self, n):
        for o in NAMES:
            if o != n:
                self.disconnect(n, o)

    def join(self, n):
        for o in NAMES:
            if o != n:
                self.connect(n, o)

    def deliver_one(self, a, b):
        q = self.q.get((a, b))
        if q:
            m = q.pop(0)
            self.trs[b]._onMessageReceived(self.Node(a), m)
            return m
        return None

    def deliver_all(self):
        n = 0
        for _ in range(50):
            moved = False
            for key in sorted(self.q):
                if key[1] in self.frozen or key in self.hold:
                    continue
                while self.q[key]:
                    self.deliver_one(*key)
                    moved = True
                    n += 1
            if not moved:
                break
        return n

    def tick(self, n):
        self.objs[n].doTick(0.0)

    def run(self, steps, dt=0.0625):
        for _ in range(steps):
            self.t += dt
            for n in NAMES:
                if n not in self.frozen:
                    self.tick(n)
            self.deliver_all()

    def leader(self):
        ls = [n for n in NAMES if self.objs[n]._isLeader()]
        return ls[0] if len(ls) == 1 else None

    # -- clients ------------------------------------------------------------------------------------
    def hit(self, k):
        self.cov[k] = self.cov.get(k, 0) + 1

    def try_acquire(self, n, l):
        att = self.clock.now
        rec = {"client": n, "l": l, "att": att}

        self.calls[n].append(("try", l, rec))

        def cb(r, e, rec=rec):
            rec["ans"], rec["err"], rec["at"], rec["ans_ev"] = r, e, self.clock.now, self.evno
            self.hit("answer.%s" % ("true" if r is True else "false" if r is False else "none"))
            if r is True and 2 * (self.clock.now - att) > self.U:
                self.viols.append({"signature": "batteries.ReplLockManager.tryAcquire:late-acquire-kept",
                                   "what": "cluster: tryAcquire(L%d) by %s at %d answered True at %d (U=%d)"
                                           % (l, n, att, self.clock.now, self.U)})
        self.answers.append(rec)
        self.mgrs[n].tryAcquire(lc.lock_name(l), callback=cb)

    def release(self, n, l):
        self.calls[n].append(("rel", l, self.evno))
        self.mgrs[n].release(lc.lock_name(l))

    def prolong_pass(self, n):
        lc.tick_once(self.bat, self.mgrs[n], self.clock)

    def holders(self, l):
        res = []
        for i, n in enumerate(NAMES):
            if self.mgrs[n].isAcquired(lc.lock_name(l)):
                res.append(n)
        return res

    def observe(self, nlk):
        """A client with a release of its own (user call or late-acquire rule) not yet applied on its node is
        not counted as considering the lock held."""
        for l in range(1, nlk + 1):
            hs = []
            for i, n in enumerate(NAMES):
                if not self.mgrs[n].isAcquired(lc.lock_name(l)):
                    continue
                own_applied = sum(1 for (c, _) in self.applied[n] if c == ("rel", l, i + 1))
                if own_applied >= self.rel_submitted.get((n, l), 0):
                    hs.append(n)
            # two clients told they hold the lock (answer True, stamp less than U ago, acquire applied, no release of
            # theirs applied after it)
            cmds = [c for c, _ in common_sequence(self)]
            entitled = []
            for i, n in enumerate(NAMES):
                for a in self.answers:
                    if a["client"] == n and a["l"] == l and a.get("ans") is True and self.clock.now < a["att"] + self.U \
                            and ("acq", l, i + 1, a["att"]) in cmds \
                            and ("rel", l, i + 1) not in cmds[cmds.index(("acq", l, i + 1, a["att"])):]:
                        entitled.append((n, a["att"], a["at"]))
                        break
            if len(entitled) > 1:
                self.hit("told-true.2")
                self.viols.append({"signature": SIG_TWO_TOLD,
                                   "what": "cluster: at lock-clock %d two clients have been told they hold L%d (client, stamp of the tryAcquire, "
                                           "time of the answer True): %s -- both stamps are less than U=%d ago, neither client's release was "
                                           "applied; common sequence %s" % (self.clock.now, l, entitled, self.U, [lc.cmd_str(x) for x in cmds][-8:])})
                return
            elif entitled:
                self.hit("told-true.1")
            for n in hs:
                if any(kd == "restart" for _, kd, _ in self.marks[n]):
                    continue                        # a new process does not remember what it was told
                i = NAMES.index(n) + 1
                calls = [x for x in self.calls[n] if x[1] == l]
                if not calls:
                    continue
                last_rel = max([j for j, x in enumerate(calls) if x[0] == "rel"] + [-1])
                att = [x[2] for x in calls[last_rel + 1:] if x[0] == "try"]
                before = [x[2] for x in calls[:last_rel + 1] if x[0] == "try"]
                cmds = [c for c, _ in common_sequence(self)]
                if att and all("ans" in a and a["ans"] is not True for a in att):
                    # told failed => not kept (D73), judged on the tryAcquire calls since the client's last release call;
                    # literal clause: answer or commit more than U/2 after the attempt, outcome reported as open
                    late = [a for a in att if a["ans"] is None and ("acq", l, i, a["att"]) in cmds and
                            2 * (max(a["at"], self.first_applied.get(("acq", l, i, a["att"]), a["att"])) - a["att"]) > self.U]
                    if not late:
                        continue
                    self.hit("held.by-client-told-failed")
                    overtaken = any(lc.release_overtaken(self.sub_seq[n], cmds, l, i, a["att"]) for a in late)
                    self.viols.append({"signature": SIG_FAILED_KEPT + (":compensating-release-overtaken" if overtaken else ""),
                                       "what": "cluster: at lock-clock %d client %s considers L%d held (no release of its own outstanding) "
                                               "although every tryAcquire it made since its last release call was answered with a failure "
                                               "(stamp, answer, error, time of the answer) %s and for one reported as failed with an open outcome "
                                               "the answer or the commit came more than U/2 after the attempt; table %s; common sequence %s"
                                               % (self.clock.now, n, l, [(a["att"], a.get("ans"), a.get("err"), a.get("at")) for a in att],
                                                  lc.table_of(self.mgrs[n]._consumer()), [lc.cmd_str(x) for x in cmds][-8:])})
                    return
                if not att and last_rel >= 0 and all("ans" in a and a["ans_ev"] < calls[last_rel][2] for a in before):
                    overtaken = any(a["ans"] is None and lc.release_overtaken(self.sub_seq[n], cmds, l, i, a["att"]) for a in before)
                    self.hit("held.after-own-release")
                    self.viols.append({"signature": (SIG_FAILED_KEPT + ":compensating-release-overtaken") if overtaken else SIG_RELEASED_KEPT,
                                       "what": "cluster: at lock-clock %d client %s considers L%d held although its last call for that lock was "
                                               "release() (every earlier tryAcquire had been answered, no release of its own is outstanding); "
                                               "table %s; the client submitted %s; common sequence %s"
                                               % (self.clock.now, n, l, lc.table_of(self.mgrs[n]._consumer()),
                                                  [lc.cmd_str(x) for x in self.sub_seq[n]][-6:], [lc.cmd_str(x) for x in cmds][-8:])})
                    return
            if hs:
                self.hit("held.%d" % min(2, len(hs)))
            if len(hs) > 1:
                self.viols.append({"signature": None,
                                   "what": "cluster: at lock-clock %d clients %s all consider L%d held (U=%d); applied %s; tables %s"
                                           % (self.clock.now, hs, l, self.U, [len(self.applied[h]) for h in hs],
                                              [lc.table_of(self.mgrs[h]._consumer()) for h in hs])})
                return

    def close(self):
        for n in NAMES:
            try:
                self.mgrs[n].destroy()
                self.objs[n]._destroy() if hasattr(self.objs[n], "_destroy") else None
            except Exception:
                pass
        impl_cls = self.bat._ReplLockManagerImpl
        if self._orig_deser is None:
            del impl_cls._deserialize
        else:
            impl_cls._deserialize = self._orig_deser
        self.SyncObj._applyCommand = self._orig_apply
        self.patch.__exit__(None, None, None)
        self.so.monotonicTime, self.tr.monotonicTime, self.so.random = self.saved


# ---------------------------------------------------------------------------------------------------
def gen_schedule(rng, U):
    evs = [("run", 40)]
    for _ in range(rng.randrange(15, 50)):
        r = rng.random()
        n = rng.choice(NAMES)
        if r < 0.25:
            evs.append(("try", n, rng.choice((1, 1, 2))))
        elif r < 0.32:
            evs.append(("rel", n, rng.choice((1, 1, 2))))
        elif r < 0.47:
            evs.append(("tick", n))
        elif r < 0.67:
            evs.append(("run", rng.choice((1, 2, 4, 8, 30))))
        elif r < 0.87:
            evs.append(("adv", rng.choice((1, 1, 2, max(1, U // 4), max(1, U // 2), U - 1, U, U + 1))))
        elif r < 0.92:
            evs.append(("cut", n))
        elif r < 0.95:
            evs.append(("join", n))
        elif r < 0.97:
            evs.append(("freeze", n))
        elif r < 0.985:
            evs.append(("thaw", n))
        else:
            evs.append(("compact", n))
    return evs


def stale_schedule(rng, U):
    """directed `stale` discipline on the real cluster (roles resolved at run time: X, Z followers, Y any)."""
    gap = rng.choice((U + 1, U + 2, 2 * U, 3 * U, U - 1, 1))
    step = max(1, U // 2 - 1)
    ev = [("run", 40), ("roles",), ("freeze_role", "X"), ("tick_role", "X"), ("adv", gap),
          ("try_role", "Y", 1), ("run", 6)]
    for _ in range(rng.randrange(1, 4)):
        ev += [("adv", step), ("tick_role", "Y"), ("run", 4)]
    lag = rng.random() < 0.7
    if lag:
        ev += [("freeze_role", "Y")]
    ev += [("thaw_role", "X"), ("run", 70), ("adv", rng.choice((0, 1))), ("try_role", "Z", 1), ("run", 70)]
    if lag:
        ev += [("thaw_role", "Y"), ("run", 70)]
    ev += [("expect_refused", "Z", 1), ("expect_holds", "Y", 1)]
    return ev


def d19_schedule(U=10):
    """directed: the leader holds L1; its prolongation pass (stamp T2) overtakes its own tryAcquire (stamp
    T1 < T2); entries are replicated one per message; the leader commits and applies only the first and is
    cut off; the others elect, commit the second, and a competitor acquires after T1+U but before T2+U."""
    return [("run", 40), ("try_leader", 1), ("run", 6), ("adv", 1), ("race_leader", 1, 3), ("split_commit",),
            ("run", 60), ("adv", U - 2), ("try_other", 1), ("run", 8), ("adv", 0)]


def stall_schedule(rng, U):
    """directed: the leader Y holds L1, prolongs, then is silent for more than U; follower Z's tryAcquire is
    stamped during the silence but Z's node is frozen, so it is committed only after Y has resumed prolonging."""
    step = max(1, U // 2 - 1)
    ev = [("run", 40), ("roles_leader_holds",), ("try_role", "Y", 1), ("run", 6)]
    for _ in range(rng.randrange(0, 3)):
        ev += [("adv", step), ("tick_role", "Y"), ("run", 4)]
    ev += [("adv", U + rng.choice((1, 2, U))), ("freeze_role", "Z"), ("try_role", "Z", 1), ("adv", rng.choice((0, 1))),
           ("tick_role", "Y"), ("run", 6), ("thaw_role", "Z"), ("run", 40), ("tick_role", "Y"), ("run", 6),
           ("expect_granted", "Z", 1), ("expect_not_holds", "Y", 1)]
    return ev


def stale_belief_schedule(rng, U):
    """directed: follower Y holds L1; it calls release(L1) and at once tryAcquire(L1); both reach the leader and are
    committed; the leader's answers to Y are lost (connection Y-leader drops); Y's election timer fires:
    callback(None, LEADER_CHANGED), more than U/2 after the attempt.  Y was told it failed: it must not keep the lock."""
    ev = [("run", 40), ("roles_follower_holds",), ("try_role", "Y", 1), ("run", 8)]
    for _ in range(rng.randrange(0, 2)):
        ev += [("adv", max(1, U // 4)), ("tick_role", "Y"), ("run", 4)]
    ev += [("adv", 1), ("rel_role", "Y", 1), ("try_role", "Y", 1), ("lose_answers", "Y"), ("adv", U // 2 + 1), ("run", 60),
           ("reconnect_role", "Y"), ("run", 40)]
    for _ in range(rng.randrange(2, 5)):
        ev += [("adv", max(1, U // 4)), ("tick_role", "Y"), ("run", 6)]
        if rng.random() < 0.5:
            ev += [("try_role", "Z", 1), ("run", 8)]
    return ev


def lagging_release_schedule(rng, U):
    """directed: follower Y holds L1 and prolongs every < U/2; the link leader -> Y is slow (messages wait) while the
    lock clock advances by more than U: Y's prolongations are committed by the others, Y's own replica still shows
    the old time, so locally the lock looks expired; Y calls release(L1); the link recovers; Y lives on."""
    step = max(1, U // 2 - 1)
    ev = [("run", 140), ("roles_follower_holds",), ("try_role", "Y", 1), ("run", 8), ("slow_link_to", "Y")]
    elapsed = 0
    while elapsed <= U + 1:
        ev += [("adv", step), ("tick_role", "Y"), ("run", 4)]      # raft timeouts of this schedule are 2..4 s: no election
        elapsed += step
    ev += [("rel_role", "Y", 1), ("run", 1), ("link_ok",), ("run", 12)]
    for _ in range(rng.randrange(2, 4)):
        ev += [("adv", step), ("tick_role", "Y"), ("run", 6)]
    ev += [("try_role", "Z", 1), ("run", 8), ("adv", 0)]
    return ev


def snapshot_schedule(rng, U):
    """directed: Y (the leader) holds L1 and prolongs every < U/2; variant `install`: follower Z is frozen, the
    leader compacts, Z thaws and is caught up by the leader's snapshot; variant `restart`: Z compacts (writes
    its dump file) and is restarted from it.  Then Z's client tries L1."""
    step = max(1, U // 2 - 1)
    variant = rng.choice(("install", "restart"))
    ev = [("run", 40), ("roles_leader_holds",), ("try_role", "Y", 1), ("run", 6)]
    if variant == "install":
        ev += [("freeze_role", "Z")]
    for _ in range(rng.randrange(2, 5)):
        ev += [("adv", step), ("tick_role", "Y"), ("run", 4)]
    if variant == "install":
        ev += [("compact_role", "Y"), ("run", 6), ("adv", step), ("tick_role", "Y"), ("run", 4), ("thaw_role", "Z"), ("run", 40)]
    else:
        ev += [("compact_role", "Z"), ("run", 6), ("adv", step), ("tick_role", "Y"), ("run", 4), ("restart_role", "Z"), ("run", 40)]
    ev += [("adv", rng.choice((0, 1))), ("try_role", "Z", 1), ("run", 10), ("expect_refused", "Z", 1), ("expect_holds", "Y", 1)]
    return ev


def common_sequence(cl):
    """the applied commands of a node that never went through a snapshot (longest such), else the longest"""
    pure = [cl.applied[n] for n in NAMES if not cl.marks[n]]
    return max(pure or [cl.applied[n] for n in NAMES], key=len)


def in_time(cl, U, l=1):
    """precondition of the `stale` expectations, read off what was actually committed: Y's acquire of L was
    granted, Y's later stamps follow in order with gaps < U/2, the last one is less than U/2 ago, Y never
    released (an election may have swallowed a prolongation: then nothing is expected)."""
    y = NAMES.index(cl.roles["Y"]) + 1
    longest = common_sequence(cl)
    stamps = None
    for c, r in longest:
        if c == ("rel", l, y):
            return False
        if stamps is None:
            if c[0] == "acq" and c[1] == l and c[2] == y and r is True:
                stamps = [c[3]]
        elif (c[0] == "pro" and c[1] == y) or (c[0] == "acq" and c[2] == y and c[1] == l):
            stamps.append(c[-1])
    if not stamps:
        return False
    stamps.append(cl.clock.now)
    return all(0 <= 2 * (b - a) < U for a, b in zip(stamps, stamps[1:]))


def execute(repo, U, seed, evs, use_batch=True, nlk=2, dumps=False, raft_timeouts=(0.5, 1.5)):
    dumpdir = tempfile.mkdtemp(prefix="pso-verif-locks-") if dumps else None
    try:
        return _execute(repo, U, seed, evs, use_batch, nlk, dumpdir, raft_timeouts)
    finally:
        if dumpdir is not None:
            shutil.rmtree(dumpdir, ignore_errors=True)


def _execute(repo, U, seed, evs, use_batch, nlk, dumpdir, raft_timeouts=(0.5, 1.5)):
    cl = Cluster(repo, U, seed, use_batch=use_batch, dumpdir=dumpdir, raft_timeouts=raft_timeouts)
    first = None
    try:
        for idx, ev in enumerate(evs):
            cl.evno = idx
            k = ev[0]
            L = cl.leader()
            if k == "run":
                cl.run(ev[1])
            elif k == "adv":
                cl.clock.now += ev[1]
            elif k == "try":
                cl.try_acquire(ev[1], ev[2])
                cl.hit("try")
            elif k == "rel":
                cl.release(ev[1], ev[2])
                cl.hit("release")
            elif k == "tick":
                cl.prolong_pass(ev[1])
                cl.hit("tick")
            elif k == "cut":
                cl.cut(ev[1])
                cl.hit("cut")
            elif k == "join":
                cl.join(ev[1])
            elif k == "freeze":
                cl.frozen.add(ev[1])
                cl.hit("freeze")
            elif k == "thaw":
                cl.frozen.discard(ev[1])
            elif k == "roles" and L:
                fol = [n for n in NAMES if n != L]
                cl.roles = {"X": fol[0], "Z": fol[1], "Y": L if cl.rng.random() < 0.5 else fol[1]}
                if cl.roles["Y"] == cl.roles["Z"]:
                    cl.roles["Z"] = L
            elif k == "roles_follower_holds" and L:
                fol = [n for n in NAMES if n != L]
                cl.roles = {"Y": fol[0], "Z": fol[1], "L": L}
            elif k == "lose_answers" and getattr(cl, "roles", None):
                y, ld = cl.roles[ev[1]], cl.roles["L"]
                cl.t += 0.0625
                cl.tick(y)                                   # Y forwards what it has queued
                while cl.deliver_one(y, ld):
                    pass
                cl.t += 0.0625
                cl.tick(ld)                                  # the leader appends, answers, replicates
                for o in NAMES:
                    if o not in (y, ld):
                        while cl.deliver_one(ld, o):
                            pass
                cl.disconnect(y, ld)                         # its answers (and append_entries) to Y are lost
                cl.hit("answers-lost")
            elif k == "reconnect_role" and getattr(cl, "roles", None):
                cl.connect(cl.roles[ev[1]], cl.roles["L"])
            elif k == "slow_link_to" and getattr(cl, "roles", None):
                cl.hold.add((cl.roles["L"], cl.roles[ev[1]]))
                cl.hit("slow-link")
            elif k == "link_ok":
                cl.hold.clear()
            elif k == "rel_role" and getattr(cl, "roles", None):
                n = cl.roles[ev[1]]
                live = any(e[0] == ev[2] and e[1] == NAMES.index(n) + 1 and cl.clock.now < e[2] + U
                           for o in NAMES if o != n for e in lc.table_of(cl.mgrs[o]._consumer()))
                if live and not cl.mgrs[n]._consumer().isAcquired(lc.lock_name(ev[2]), lc.client_name(NAMES.index(n) + 1), cl.clock.now):
                    cl.hit("release.while-local-replica-shows-lock-expired")
                cl.release(n, ev[2])
                cl.hit("release")
            elif k == "roles_leader_holds" and L:
                fol = [n for n in NAMES if n != L]
                cl.roles = {"Y": L, "Z": fol[0], "X": fol[1]}
            elif k == "compact":
                cl.objs[ev[1]].forceLogCompaction()
                cl.hit("compact")
            elif k == "restart":
                if cl.dumpdir is not None:
                    cl.restart(ev[1])
            elif k.endswith("_role") and getattr(cl, "roles", None):
                n = cl.roles[ev[1]]
                if k == "compact_role":
                    cl.objs[n].forceLogCompaction()
                    cl.hit("compact")
                elif k == "restart_role":
                    cl.restart(n)
                elif k == "freeze_role":
                    cl.frozen.add(n)
                    cl.hit("freeze")
                elif k == "thaw_role":
                    cl.frozen.discard(n)
                elif k == "tick_role":
                    cl.prolong_pass(n)
                    cl.hit("tick")
                elif k == "try_role":
                    cl.try_acquire(n, ev[2])
                    cl.hit("try")
            elif k == "expect_granted" and getattr(cl, "roles", None):
                n = cl.roles[ev[1]]
                z = NAMES.index(n) + 1
                got = [a.get("ans") for a in cl.answers if a["client"] == n and a["l"] == ev[2] and "ans" in a
                       and 2 * (a["at"] - a["att"]) <= U]          # late answers are turned into False by the wrapper
                if not got or not lc.silent_before([c for c, _ in common_sequence(cl)], U, z, ev[2]):
                    cl.hit("expect.skipped")
                else:
                    cl.hit("expect.competitor-granted-after-expiry")
                    if not any(r is True for r in got):
                        cl.viols.append({"signature": "batteries.ReplLockManager:expired-lock-refused-to-competitor",
                                         "what": "cluster: client %s tried L%d more than U=%d after the holder's last stamp and was answered %s; "
                                                 "common sequence %s" % (n, ev[2], U, got, [lc.cmd_str(c) for c, _ in common_sequence(cl)])})
            elif k == "expect_not_holds" and getattr(cl, "roles", None):
                n = cl.roles[ev[1]]
                y = NAMES.index(n) + 1
                common = common_sequence(cl)
                tries = [a for a in cl.answers if a["client"] == n and a["l"] == ev[2]]
                if len(tries) != 1 or cl.applied[n] != common or cl.marks[n] or not lc.stalled([c for c, _ in common], U, y, ev[2]):
                    cl.hit("expect.skipped")
                else:
                    cl.hit("expect.stalled-holder-does-not-hold")
                    if cl.mgrs[n].isAcquired(lc.lock_name(ev[2])):
                        cl.viols.append({"signature": "batteries.ReplLockManager:holder-regained-expired-lock-without-tryAcquire",
                                         "what": "cluster: client %s was silent for more than U=%d, did not call tryAcquire again, and at lock-clock %d "
                                                 "its isAcquired(L%d) is True; table %s; common sequence %s"
                                                 % (n, U, cl.clock.now, ev[2], lc.table_of(cl.mgrs[n]._consumer()), [lc.cmd_str(c) for c, _ in common])})
            elif k in ("expect_holds", "expect_refused") and getattr(cl, "roles", None) and not in_time(cl, U):
                cl.hit("expect.skipped-holder-did-not-prolong-in-time")
            elif k == "expect_holds" and getattr(cl, "roles", None):
                n = cl.roles[ev[1]]
                cl.hit("expect.holder-still-holds")
                if not cl.mgrs[n].isAcquired(lc.lock_name(ev[2])):
                    cl.viols.append({"signature": "batteries.ReplLockManager:holder-lost-lock-without-release-or-expiry",
                                     "what": "cluster: client %s acquired L%d, prolonged it every < U/2 (U=%d), never released; after "
                                             "catching up (%d commands applied) at lock-clock %d its isAcquired is False; table %s"
                                             % (n, ev[2], U, len(cl.applied[n]), cl.clock.now, lc.table_of(cl.mgrs[n]._consumer()))})
            elif k == "expect_refused" and getattr(cl, "roles", None):
                n = cl.roles[ev[1]]
                cl.hit("expect.competitor-refused")
                got = [a.get("ans") for a in cl.answers if a["client"] == n and a["l"] == ev[2] and "ans" in a]
                if any(r is True for r in got):
                    cl.viols.append({"signature": "batteries.ReplLockManager:lock-granted-while-held-and-prolonged",
                                     "what": "cluster: client %s was granted L%d (answers %s) while another client holds and prolongs it "
                                             "every < U/2 (U=%d)" % (n, ev[2], got, U)})
            elif k == "try_leader" and L:
                cl.holder = L
                cl.try_acquire(L, ev[1])
            elif k == "race_leader" and L:
                # tryAcquire on the caller's thread reads the clock (T1); the prolongation thread then runs one
                # pass at T1+delta and enqueues first
                def preempt(_v, n=L, d=ev[2]):
                    cl.clock.now += d
                    cl.prolong_pass(n)
                cl.clock.on_time = preempt
                cl.try_acquire(L, ev[1])
                cl.hit("race")
            elif k == "split_commit" and L:
                # leader appends both entries; one append_entries message per entry (appendEntriesUseBatch=False);
                # followers receive everything, the leader gets only the acknowledgement of the first entry
                cl.t += 0.0625
                cl.tick(L)
                others = [n for n in NAMES if n != L]
                for o in others:
                    while cl.deliver_one(L, o):
                        pass
                for o in others:
                    cl.deliver_one(o, L)                 # first acknowledgement only
                cl.t += 0.0625
                cl.tick(L)                                # commits + applies the first entry
                cl.cut(L)
                cl.hit("split")
            elif k == "try_other" and getattr(cl, "holder", None):
                o = [n for n in NAMES if n != cl.holder][0]
                cl.try_acquire(o, ev[1])
            cl.observe(nlk)
            if cl.viols:
                first = idx
                break
        if first is None:
            longest = common_sequence(cl)
            keep = lc.KeepMonitor(cl.bat, U)
            for c, _ in longest:
                _, kv, flags = keep.apply(c)
                for f in flags:
                    cl.hit(f)
                if kv is not None:
                    kv["what"] = "cluster: common applied sequence %s: %s" % ([lc.cmd_str(x) for x, _ in longest], kv["what"])
                    cl.viols.append(kv)
                    first = len(evs) - 1
                    break
        out = {"applied": dict((n, list(cl.applied[n])) for n in NAMES),
               "marks": dict((n, list(cl.marks[n])) for n in NAMES),
               "tables": dict((n, lc.table_of(cl.mgrs[n]._consumer())) for n in NAMES),
               "answers": [dict(a) for a in cl.answers], "viols": list(cl.viols), "cov": dict(cl.cov), "first": first,
               "leader": cl.leader()}
    finally:
        cl.close()
    return out


def prefix_check(U, out):
    """every node's applied lock commands (nodes that never went through a snapshot) are a prefix of the longest"""
    seqs = sorted((out["applied"][n] for n in NAMES if not out["marks"][n]), key=len)
    if not seqs:
        return None
    longest = seqs[-1]
    for q in seqs:
        if q != longest[:len(q)]:
            return {"input": {"U": U}, "model": "one common sequence", "impl": [[lc.cmd_str(c) for c, _ in x] for x in seqs],
                    "note": "applied lock-command sequences of the nodes are not prefixes of one another (C01 plumbing)"}
    return None


def ret_str(r):
    return "1" if r is True else "0" if r is False else "-"


class ModelBatch(object):
    """collects the runs; one driver call computes the model's state after every prefix of each run's common
    sequence; every node is then walked through it: plain nodes from position 0, a node that installed a
    snapshot continues at a position whose model state equals the installed table, a restarted node starts
    again from the empty state."""

    def __init__(self):
        self.lines, self.items = [], []

    def add(self, U, out, extra):
        pure = [out["applied"][n] for n in NAMES if not out["marks"][n]]
        if not pure:
            self.items.append(None)
            return
        common = max(pure, key=len)
        lines = ["conf %d 1" % U] + [" ".join(str(x) for x in c) for c, _ in common]
        self.items.append((len(self.lines), len(lines), U, common, out, extra))
        self.lines += lines

    def check(self, ctx, limit=3):
        res = []
        stats = {"model.nodes-walked": 0, "model.snapshot-positions-matched": 0, "model.skipped-no-plain-node": 0}
        rep = ctx.driver("locks", self.lines) if self.lines else []
        for it in self.items:
            if it is None:
                stats["model.skipped-no-plain-node"] += 1
                continue
            a, k, U, common, out, extra = it
            r = rep[a + 1:a + k]                      # reply i = "<ret> <table>" after common[i]
            rets = [x.split(" ")[0] for x in r]
            T = ["-"] + [x.split(" ", 1)[1] for x in r]
            for n in NAMES:
                bad = self.walk(n, common, rets, T, out["applied"][n], out["marks"][n], out["tables"][n], stats)
                stats["model.nodes-walked"] += 1
                if bad and len(res) < limit:
                    res.append({"input": dict(extra, U=U, node=n, common=[lc.cmd_str(x) for x, _ in common],
                                              applied=[lc.cmd_str(x) for x, _ in out["applied"][n]],
                                              marks=[(m, kd, lc.table_str(t)) for m, kd, t in out["marks"][n]]),
                                "model": bad[0], "impl": bad[1], "note": bad[2]})
        return res, stats

    @staticmethod
    def walk(n, common, rets, T, applied, marks, table, stats):
        pos, idx = 0, 0
        bounds = [m for m, _, _ in marks] + [len(applied)]
        for mi in range(len(marks) + 1):
            end = bounds[mi]
            while idx < end:                          # commands applied one by one
                c, ret = applied[idx]
                if pos >= len(common) or common[pos][0] != c:
                    return ("next common command %s" % (lc.cmd_str(common[pos][0]) if pos < len(common) else None), lc.cmd_str(c),
                            "node %s applied a command that is not the next one of the common sequence (position %d)" % (n, pos))
                if rets[pos] != ret_str(ret):
                    return (rets[pos], ret_str(ret), "return value of %s on node %s" % (lc.cmd_str(c), n))
                pos += 1
                idx += 1
            if mi == len(marks):
                break
            _, kind, tbl = marks[mi]
            if kind == "restart":
                pos = 0
                continue
            nxt = [c for c, _ in applied[end:bounds[mi + 1]]]
            cands = [k for k in range(len(T)) if T[k] == lc.table_str(tbl) and [c for c, _ in common[k:k + len(nxt)]] == nxt]
            if not cands:
                return ("state after a prefix of %s followed by %s" % ([lc.cmd_str(x) for x, _ in common], [lc.cmd_str(x) for x in nxt]),
                        lc.table_str(tbl), "table of node %s right after installing a snapshot is not the model's state at a "
                        "position from which the node's next commands continue the common sequence" % n)
            pos = max(cands)
            stats["model.snapshot-positions-matched"] += 1
        if T[pos] != lc.table_str(table):
            return (T[pos], lc.table_str(table), "lock table of node %s at the end (position %d of the common sequence)" % (n, pos))
        return None


def run(ctx):
    t0 = time.time()
    rng = ctx.rng("locks.cluster")
    cov, seen, viols, disagreements, samples = {}, set(), [], [], []
    cases = 0
    mb = ModelBatch()
    # directed D19 schedule first (several parameters)
    for U in (8, 10, 12):
        out = execute(ctx.repo, U, ctx.seed, d19_schedule(U), use_batch=False)
        cases += 1
        seen.add("d19-%d" % U)
        for k, v in out["cov"].items():
            cov["d19." + k] = cov.get("d19." + k, 0) + v
        d = prefix_check(U, out)
        if d and len(disagreements) < 3:
            disagreements.append(d)
        mb.add(U, out, {"schedule": "d19"})
        if out["viols"] and len(viols) < 2:
            v = out["viols"][0]
            viols.append({"signature": v["signature"] or SIG_REORDER, "what": "[directed D19 schedule] " + v["what"],
                          "replay": {"kind": "cluster-d19", "U": U, "seed": ctx.seed}})
        if U == 10:
            samples.append({"schedule": "d19", "applied": dict((n, [lc.cmd_str(c) for c, _ in out["applied"][n]]) for n in NAMES),
                            "tables": out["tables"]})
    # directed `stale` schedules
    for i in range(ctx.scale(40, 600)):
        U = rng.choice((4, 8, 10))
        seed = rng.randrange(10 ** 6)
        evs = stale_schedule(_random.Random(seed), U)
        out = execute(ctx.repo, U, seed, evs)
        cases += 1
        seen.add("stale-%d-%d" % (U, seed))
        for k, v in out["cov"].items():
            cov["stale." + k] = cov.get("stale." + k, 0) + v
        d = prefix_check(U, out)
        if d and len(disagreements) < 3:
            disagreements.append(d)
        mb.add(U, out, {"schedule": "stale", "seed": seed})
        if out["viols"]:
            v = out["viols"][0]
            sig = v["signature"] or SIG_MUTEX_STALE
            if sig not in [x["signature"] for x in viols] and len(viols) < 4:
                viols.append({"signature": sig, "what": "[directed stale schedule] " + v["what"],
                              "replay": {"kind": "cluster-stale", "U": U, "seed": seed}})
    # directed `stall` schedules
    for i in range(ctx.scale(30, 500)):
        U = rng.choice((4, 8, 10))
        seed = rng.randrange(10 ** 6)
        out = execute(ctx.repo, U, seed, stall_schedule(_random.Random(seed), U))
        cases += 1
        seen.add("stall-%d-%d" % (U, seed))
        for k, v in out["cov"].items():
            cov["stall." + k] = cov.get("stall." + k, 0) + v
        d = prefix_check(U, out)
        if d and len(disagreements) < 3:
            disagreements.append(d)
        mb.add(U, out, {"schedule": "stall", "seed": seed})
        if out["viols"]:
            v = out["viols"][0]
            sig = v["signature"] or SIG_MUTEX
            if sig not in [x["signature"] for x in viols] and len(viols) < 5:
                viols.append({"signature": sig, "what": "[directed stall schedule] " + v["what"],
                              "replay": {"kind": "cluster-stall", "U": U, "seed": seed}})
    # directed: release + retry told LEADER_CHANGED (stale local belief); release on a lagging replica
    for kind, gen in (("stale-belief", stale_belief_schedule), ("lagging-release", lagging_release_schedule)):
        for i in range(ctx.scale(15, 300)):
            U = rng.choice((8, 10, 12))
            seed = rng.randrange(10 ** 6)
            out = execute(ctx.repo, U, seed, gen(_random.Random(seed), U), raft_timeouts=SLOW_RAFT if kind == "lagging-release" else (0.5, 1.5))
            cases += 1
            seen.add("%s-%d-%d" % (kind, U, seed))
            for k, v in out["cov"].items():
                cov[kind + "." + k] = cov.get(kind + "." + k, 0) + v
            d = prefix_check(U, out)
            if d and len(disagreements) < 3:
                disagreements.append(d)
            mb.add(U, out, {"schedule": kind, "seed": seed})
            if out["viols"]:
                v = out["viols"][0]
                sig = v["signature"] or SIG_MUTEX
                if sig not in [x["signature"] for x in viols] and len(viols) < 6:
                    viols.append({"signature": sig, "what": "[directed %s schedule] %s" % (kind, v["what"]),
                                  "replay": {"kind": "cluster-" + kind, "U": U, "seed": seed}})
    # directed `snapshot` schedules (real dump files, forced compaction, install on a lagging node, restart)
    for i in range(ctx.scale(30, 500)):
        U = rng.choice((4, 8, 10))
        seed = rng.randrange(10 ** 6)
        evs = snapshot_schedule(_random.Random(seed), U)
        out = execute(ctx.repo, U, seed, evs, dumps=True)
        cases += 1
        seen.add("snapshot-%d-%d" % (U, seed))
        for k, v in out["cov"].items():
            cov["snap." + k] = cov.get("snap." + k, 0) + v
        d = prefix_check(U, out)
        if d and len(disagreements) < 3:
            disagreements.append(d)
        mb.add(U, out, {"schedule": "snapshot", "seed": seed})
        if out["viols"]:
            v = out["viols"][0]
            sig = v["signature"] or SIG_MUTEX_SNAPSHOT
            if sig not in [x["signature"] for x in viols] and len(viols) < 4:
                viols.append({"signature": sig, "what": "[directed snapshot schedule] " + v["what"],
                              "replay": {"kind": "cluster-snapshot", "U": U, "seed": seed}})
    n = ctx.scale(300, 6000)
    t_end = time.time() + ctx.budget_s * 0.5
    for i in range(n):
        U = rng.choice((4, 8, 10))
        evs = gen_schedule(rng, U)
        seed = rng.randrange(10 ** 6)
        out = execute(ctx.repo, U, seed, evs)
        cases += 1
        seen.add(hashlib.sha1(repr((U, seed, evs)).encode()).hexdigest())
        for k, v in out["cov"].items():
            cov[k] = cov.get(k, 0) + v
        cov["applied.cmds"] = cov.get("applied.cmds", 0) + max(len(out["applied"][x]) for x in NAMES)
        if any(len(out["applied"][x]) != len(out["applied"][NAMES[0]]) for x in NAMES):
            cov["nodes.at.different.prefixes"] = cov.get("nodes.at.different.prefixes", 0) + 1
        d = prefix_check(U, out)
        if d and len(disagreements) < 3:
            d["input"]["schedule"] = [list(map(str, e)) for e in evs]
            d["input"]["seed"] = seed
            disagreements.append(d)
        mb.add(U, out, {"schedule": [list(map(str, e)) for e in evs], "seed": seed})
        if out["viols"] and len(viols) < 2:
            v = out["viols"][0]
            viols.append({"signature": v["signature"] or SIG_MUTEX, "what": "[random schedule] " + v["what"],
                          "replay": {"kind": "cluster-random", "U": U, "seed": seed, "events": [list(e) for e in evs[:out["first"] + 1]]}})
        if time.time() > t_end:
            break
    more, mstats = mb.check(ctx, 3)
    disagreements = (disagreements + more)[:3]
    cov.update(mstats)
    res = {"cases": cases, "distinct": len(seen), "coverage": dict(sorted(cov.items())), "samples": samples,
           "disagreements": disagreements, "violations": viols, "wall_s": round(time.time() - t0, 2)}
    need = ["try", "release", "tick", "cut", "answer.true", "answer.false", "held.1", "applied.cmds",
            "nodes.at.different.prefixes", "d19.race", "d19.split", "stale.freeze",
            "stale.pro.stale-while-fresh-lock-of-another-client", "stale.expect.holder-still-holds",
            "stale.expect.competitor-refused", "snap.compact", "snap.restart",
            "snap.snapshot.install.while-another-clients-lock-is-held", "snap.expect.competitor-refused",
            "snap.expect.holder-still-holds", "model.snapshot-positions-matched",
            "stall.expect.competitor-granted-after-expiry", "stall.expect.stalled-holder-does-not-hold",
            "stall.pro.expires-lock.of-the-prolonging-holder", "stale-belief.answers-lost", "stale-belief.answer.none",
            "lagging-release.slow-link", "lagging-release.release.while-local-replica-shows-lock-expired"]
    missing = [k for k in need if not cov.get(k)]
    if missing and not viols:
        res["inconclusive"] = "coverage floor missed: " + ",".join(missing)
    return res


def search(ctx, unproved):
    """failing-input search on the real cluster: the directed `stale` and D19 schedules over more seeds"""
    rng = ctx.rng("locks.cluster.search")
    found, t_end = [], time.time() + ctx.budget_s * 0.4
    for U in (8, 10, 12):
        out = execute(ctx.repo, U, ctx.seed, d19_schedule(U), use_batch=False)
        if out["viols"] and not found:
            v = out["viols"][0]
            found.append({"signature": v["signature"] or SIG_REORDER, "what": "[directed D19 schedule] " + v["what"],
                          "replay": {"kind": "cluster-d19", "U": U, "seed": ctx.seed}})
    for i in range(ctx.scale(300, 3000)):
        U = rng.choice((4, 8, 10, 12))
        seed = rng.randrange(10 ** 6)
        if i % 3 == 1:
            out, kind, dflt = execute(ctx.repo, U, seed, stale_schedule(_random.Random(seed), U)), "stale", SIG_MUTEX_STALE
        elif i % 3 == 2:
            out, kind, dflt = execute(ctx.repo, U, seed, stall_schedule(_random.Random(seed), U)), "stall", SIG_MUTEX
        else:
            out = execute(ctx.repo, U, seed, snapshot_schedule(_random.Random(seed), U), dumps=True)
            kind, dflt = "snapshot", SIG_MUTEX_SNAPSHOT
        if out["viols"]:
            v = out["viols"][0]
            sig = v["signature"] or dflt
            if sig not in [x["signature"] for x in found]:
                found.append({"signature": sig, "what": "[directed %s schedule] %s" % (kind, v["what"]),
                              "replay": {"kind": "cluster-" + kind, "U": U, "seed": seed}})
        if len(found) >= 3 or time.time() > t_end:
            break
    return found


def replay(ctx, violation):
    rp = violation["replay"]
    if rp["kind"] == "cluster-d19":
        out = execute(ctx.repo, rp["U"], rp["seed"], d19_schedule(rp["U"]), use_batch=False)
    elif rp["kind"] == "cluster-snapshot":
        out = execute(ctx.repo, rp["U"], rp["seed"], snapshot_schedule(_random.Random(rp["seed"]), rp["U"]), dumps=True)
    elif rp["kind"] == "cluster-stale-belief":
        out = execute(ctx.repo, rp["U"], rp["seed"], stale_belief_schedule(_random.Random(rp["seed"]), rp["U"]))
    elif rp["kind"] == "cluster-lagging-release":
        out = execute(ctx.repo, rp["U"], rp["seed"], lagging_release_schedule(_random.Random(rp["seed"]), rp["U"]), raft_timeouts=SLOW_RAFT)
    elif rp["kind"] == "cluster-stall":
        out = execute(ctx.repo, rp["U"], rp["seed"], stall_schedule(_random.Random(rp["seed"]), rp["U"]))
    elif rp["kind"] == "cluster-stale":
        out = execute(ctx.repo, rp["U"], rp["seed"], stale_schedule(_random.Random(rp["seed"]), rp["U"]))
    else:
        out = execute(ctx.repo, rp["U"], rp["seed"], [tuple(e) for e in rp["events"]])
    return {"violated": bool(out["viols"]), "what": [v["what"] for v in out["viols"][:2]],
            "applied": dict((n, [lc.cmd_str(c) for c, _ in out["applied"][n]]) for n in NAMES)}
