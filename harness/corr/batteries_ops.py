"""C15 correspondence + monitor for the batteries (ReplCounter, ReplList, ReplDict, ReplSet, ReplQueue,
ReplPriorityQueue).  Three-way, on the same seeded operation sequences:

  (a) REAL battery (methods called with _doApply=True on an un-networked instance; `snapshot` pseudo
      operations rebuild the instance through _serialize -> pickle -> _deserialize)
        vs. the Lean battery model   (driver `batteries`, side "battery": PSO.Batteries.Repl*.step)
  (b) REAL builtin (int, list, dict, set, queue.Queue, queue.PriorityQueue, heapq on a list)
        vs. the Lean container spec  (side "ref": PSO.Batteries.Ref*.step, PSO.Py.PyHeap)
      `set.pop()`: the reference is the set ABSTRACTION -- the element the battery returned must be a member
      of the mimic set and exactly it is removed from the mimic (which member builtin set.pop() would pick
      depends on the hash-table layout and is not part of what `set` specifies); that the battery picks the
      element with the smallest (type name, repr) is checked by (a): the Lean battery model computes it.
  (c) MONITOR = the property statement on real code: battery result == builtin result for every
      operation, same final contents, and a replica that went through snapshots == one that did not.

A systematic enumerator (every method x every argument shape x boundary states) runs before the random
stream; the histogram method x outcome is measured, published and floored.
"""
import hashlib
import heapq
import json
import pickle
import queue
import sys
import time

PROPERTIES = ["C15"]
ORDER = 50

# small domain; 1/9/17 and 0/8/16 collide mod 8 in a set; repr order differs from numeric order
# ('-1' < '-10' < '-2' < '0' < '1' < '10' < '100' < '16' < '17' < '2' ...): ReplSet.pop chooses by repr
VALS = [-10, -2, -1, 0, 1, 2, 3, 5, 8, 9, 10, 16, 17, 100]
ERRS = (IndexError, ValueError, KeyError, TypeError, AssertionError)
CLASSES = ["counter", "list", "dict", "set", "queue", "pq"]
CLSNAME = {"counter": "ReplCounter", "list": "ReplList", "dict": "ReplDict", "set": "ReplSet",
           "queue": "ReplQueue", "pq": "ReplPriorityQueue"}
BUILTIN = {"counter": "int", "list": "list", "dict": "dict", "set": "set", "queue": "queue.Queue",
           "pq": "queue.PriorityQueue"}
# methods that are @replicated (need _doApply=True when called on an un-networked battery)
REPLICATED = {
    "counter": {"set", "add", "sub", "inc"},
    "list": {"reset", "set", "append", "extend", "insert", "remove", "pop", "sort", "__setitem__"},
    "dict": {"reset", "__setitem__", "set", "setdefault", "update", "pop", "clear"},
    "set": {"reset", "add", "remove", "discard", "pop", "clear", "update"},
    "queue": {"put", "get"},
    "pq": {"put", "get"},
}
# private attributes read by the extractor
PRIVATE = ["_ReplQueue__data", "_ReplQueue__maxsize", "_ReplPriorityQueue__data", "_ReplPriorityQueue__maxsize"]


# ------------------------------------------------------------------------------------------------
# loading the tree under test
# ------------------------------------------------------------------------------------------------
def load_batteries(repo):
    """import pysyncobj.batteries from `repo` (purging a copy imported from elsewhere)"""
    import os
    m = sys.modules.get("pysyncobj")
    if m is not None and not os.path.abspath(getattr(m, "__file__", "")).startswith(os.path.abspath(repo) + os.sep):
        for k in [k for k in sys.modules if k == "pysyncobj" or k.startswith("pysyncobj.")]:
            del sys.modules[k]
    if repo not in sys.path:
        sys.path.insert(0, repo)
    import pysyncobj.batteries as B
    assert os.path.abspath(B.__file__).startswith(os.path.abspath(repo) + os.sep), B.__file__
    return B


# ------------------------------------------------------------------------------------------------
# values  <->  JSON (same encoding as lean/Driver/Batteries.lean)
# ------------------------------------------------------------------------------------------------
def enc(v):
    if v is None or isinstance(v, bool) or isinstance(v, int):
        return v
    if isinstance(v, (list, tuple)):
        return {"l": [int(x) for x in v]}
    if isinstance(v, dict):
        return {"d": [[k, x] for k, x in v.items()]}
    if isinstance(v, (set, frozenset)):
        return {"s": sorted(v)}
    if type(v).__name__ in ("dict_keys", "dict_values"):
        return {"l": list(v)}
    if type(v).__name__ == "dict_items":
        return {"d": [[k, x] for k, x in v]}
    if type(v).__name__ == "deque":
        return {"l": list(v)}
    raise TypeError("unencodable %r" % (v,))


def dec(j):
    """tagged JSON value -> fresh Python object"""
    if isinstance(j, dict):
        if "l" in j:
            return list(j["l"])
        if "d" in j:
            return dict((k, v) for k, v in j["d"])
        if "s" in j:
            return set(j["s"])
    return j


def err(e):
    return {"e": type(e).__name__}


# ------------------------------------------------------------------------------------------------
# (a) the real batteries
# ------------------------------------------------------------------------------------------------
def make_battery(B, cls, maxsize):
    C = getattr(B, CLSNAME[cls])
    if cls in ("queue", "pq"):
        return C() if maxsize is None else C(maxsize)
    return C()


def snapshot_battery(B, cls, obj):
    """what a replica rebuilt from a snapshot holds: fresh instance (default constructor arguments),
    _deserialize of the pickled _serialize"""
    fresh = make_battery(B, cls, None)
    fresh._deserialize(pickle.loads(pickle.dumps(obj._serialize(), -1)))
    return fresh


def args_of(cls, op):
    name, args = op[0], [dec(a) for a in op[1:]]
    if cls == "set" and name == "pop":
        args = []                                   # (an oracle, if present, is for the model only)
    if cls == "dict" and name == "update":
        args = [dict((k, v) for k, v in op[1])]     # `other` is a dict
    return name, args


def call_battery(cls, obj, op):
    name, args = args_of(cls, op)
    kw = {"_doApply": True} if name in REPLICATED[cls] else {}
    try:
        return enc(getattr(obj, name)(*args, **kw))
    except ERRS as e:
        return err(e)


def battery_contents(cls, obj):
    if cls == "counter":
        return enc(obj.get()), 0
    if cls in ("list", "dict", "set"):
        return enc(obj.rawData()), 0
    pre = "_ReplQueue__" if cls == "queue" else "_ReplPriorityQueue__"
    return enc(list(getattr(obj, pre + "data"))), getattr(obj, pre + "maxsize")


def run_battery(B, cls, maxsize, ops, snapshots=True):
    obj = make_battery(B, cls, maxsize)
    res = []
    for op in ops:
        if op[0] == "snapshot":
            if snapshots:
                obj = snapshot_battery(B, cls, obj)
            res.append(None)
            continue
        res.append(call_battery(cls, obj, op))
    c, m = battery_contents(cls, obj)
    return {"res": res, "state": c, "maxsize": m}


# ------------------------------------------------------------------------------------------------
# (b) the real builtins, given the same calls
# ------------------------------------------------------------------------------------------------
class Box:
    """a variable holding the builtin (assignment `x = v`, `x += v` rebinding it)"""
    def __init__(self, v):
        self.v = v


def make_builtin(cls, maxsize):
    if cls == "counter":
        return Box(int())
    if cls == "list":
        return Box([])
    if cls == "dict":
        return Box({})
    if cls == "set":
        return Box(set())
    if cls == "queue":
        return Box(queue.Queue() if maxsize is None else queue.Queue(maxsize))
    if cls == "pq":
        return Box(queue.PriorityQueue() if maxsize is None else queue.PriorityQueue(maxsize))
    if cls == "heap":
        return Box([])
    raise KeyError(cls)


def _reset(b, v, typ):
    assert isinstance(v, typ)          # what `reset` documents by its assert: a container of that type
    b.v = v


NO_ORACLE = object()


def call_builtin(cls, b, op, oracle=NO_ORACLE):
    """`oracle` (set.pop only): what the battery returned for this call"""
    name, a = args_of(cls, op)
    x = b.v
    try:
        if cls == "counter":
            if name == "set":
                b.v = a[0]
            elif name == "add":
                b.v += a[0]
            elif name == "sub":
                b.v -= a[0]
            elif name == "inc":
                b.v += 1
            return enc(b.v)
        if cls == "list":
            if name == "reset":
                return enc(_reset(b, a[0], list))
            if name in ("set", "__setitem__"):
                x[a[0]] = a[1]
                return None
            if name in ("get", "__getitem__"):
                return enc(x[a[0]])
            if name == "sort":
                return enc(x.sort(reverse=a[0]) if a else x.sort())
            if name == "__len__":
                return len(x)
            if name == "rawData":
                return enc(x)
            return enc(getattr(x, name)(*a))            # append extend insert remove pop index count
        if cls == "dict":
            if name == "reset":
                return enc(_reset(b, a[0], dict))
            if name in ("set", "__setitem__"):
                x[a[0]] = a[1]
                return None
            if name == "__getitem__":
                return enc(x[a[0]])
            if name == "__len__":
                return len(x)
            if name == "__contains__":
                return a[0] in x
            if name == "rawData":
                return enc(x)
            if name == "update":
                return enc(x.update(a[0]))
            if name == "pop":
                return enc(x.pop(a[0], a[1] if len(a) > 1 else None))
            if name == "get":
                return enc(x.get(*a))
            return enc(getattr(x, name)(*a))            # setdefault clear keys values items
        if cls == "set":
            if name == "reset":
                return enc(_reset(b, a[0], set))
            if name == "__len__":
                return len(x)
            if name == "__contains__":
                return a[0] in x
            if name == "rawData":
                return enc(x)
            if name == "pop":
                if oracle is NO_ORACLE or not (isinstance(oracle, int) and not isinstance(oracle, bool)):
                    return enc(x.pop())                 # empty -> KeyError; else some member
                if oracle not in x:
                    return {"e": "popped-element-is-not-a-member"}
                x.remove(oracle)                        # "remove and return an arbitrary element": this one
                return oracle
            return enc(getattr(x, name)(*a))            # add remove discard clear update
        if cls in ("queue", "pq"):
            if name in ("qsize", "__len__"):
                return x.qsize()
            if name == "empty":
                return x.empty()
            if name == "full":
                return x.full()
            if name == "put":
                try:
                    x.put_nowait(a[0])
                    return True
                except queue.Full:
                    return False
            if name == "get":
                try:
                    return enc(x.get_nowait())
                except queue.Empty:
                    return a[0] if a else None
        if cls == "heap":
            if name == "push":
                return enc(heapq.heappush(x, a[0]))
            if name == "pop":
                return enc(heapq.heappop(x))
    except ERRS as e:
        return err(e)
    raise KeyError((cls, name))


def builtin_contents(cls, b):
    if cls == "queue":
        return enc(list(b.v.queue)), max(b.v.maxsize, 0)
    if cls == "pq":
        return enc(sorted(b.v.queue)), max(b.v.maxsize, 0)
    return enc(b.v), 0


def run_builtin(cls, maxsize, ops, oracle=None):
    """`oracle` = result list of the battery on the same sequence (used for set.pop only)"""
    b = make_builtin(cls, maxsize)
    res = []
    for i, op in enumerate(ops):
        if op[0] == "snapshot":
            res.append(None)
            continue
        if cls == "set" and op[0] == "pop" and oracle is not None:
            res.append(call_builtin(cls, b, op, oracle[i]))
        else:
            res.append(call_builtin(cls, b, op))
    c, m = builtin_contents(cls, b)
    return {"res": res, "state": c, "maxsize": m}


def run_ref(B, cls, maxsize, ops):
    """the real builtin given the same calls (set: following the battery's pop choices)"""
    if cls == "set":
        return run_builtin(cls, maxsize, ops, run_battery(B, cls, maxsize, ops, snapshots=False)["res"])
    return run_builtin(cls, maxsize, ops)


def drain(obj):
    out = []
    while len(obj):
        out.append(obj.pop(_doApply=True))
    return out


def pop_order_variants(B, contents):
    """ReplSets with EQUAL contents and different hash-table layouts / pop fingers: each is drained by
    pop(); all must give the same sequence (the element popped is a function of the contents)"""
    c = list(contents)
    out = {}
    a = B.ReplSet()
    a.reset(set(c), _doApply=True)
    out["reset"] = drain(a)
    a = B.ReplSet()
    for x in sorted(c, reverse=True):
        a.add(x, _doApply=True)
    out["added-descending"] = drain(a)
    a = B.ReplSet()
    for x in c + list(range(200, 260)):
        a.add(x, _doApply=True)
    for x in range(200, 260):
        a.discard(x, _doApply=True)
    out["grown-and-shrunk"] = drain(a)
    a = B.ReplSet()
    for x in c:
        a.add(x, _doApply=True)
    a.add(a.pop(_doApply=True), _doApply=True)          # same contents, pop finger moved (old code)
    b = B.ReplSet()
    b._deserialize(pickle.loads(pickle.dumps(a._serialize(), -1)))
    out["popped-and-readded"] = drain(a)
    out["pickle-round-trip"] = drain(b)
    return out


# ------------------------------------------------------------------------------------------------
# generators
# ------------------------------------------------------------------------------------------------
def gen_reset_arg(rng, cls):
    good = {"list": lambda: {"l": [rng.choice(VALS) for _ in range(rng.randrange(0, 5))]},
            "dict": lambda: {"d": [[k, rng.choice(VALS)] for k in rng.sample(VALS, rng.randrange(0, 4))]},
            "set": lambda: {"s": sorted(rng.sample(VALS, rng.randrange(0, 5)))}}
    if rng.random() < 0.75:
        return good[cls]()
    other = [None, rng.choice(VALS), True] + [good[c]() for c in good if c != cls]
    return rng.choice(other)


def gen_op(rng, cls, size):
    """one call; `size` = current container size (positions are drawn around the boundaries)"""
    v = lambda: rng.choice(VALS)
    pos = lambda: rng.randrange(-size - 2, size + 3)
    r = rng.random()
    if cls == "counter":
        n = rng.choice(["set", "add", "sub", "inc", "get"])
        return [n] if n in ("inc", "get") else [n, rng.choice(VALS + [100, -100])]
    if cls == "list":
        n = rng.choice(["append", "append", "extend", "insert", "insert", "remove", "pop", "pop", "sort", "index",
                        "count", "get", "__getitem__", "__setitem__", "set", "__len__", "rawData", "reset"])
        if n in ("append", "remove", "index", "count"):
            return [n, v()]
        if n == "extend":
            return [n, [v() for _ in range(rng.randrange(0, 4))]]
        if n in ("insert", "set", "__setitem__"):
            return [n, pos(), v()]
        if n == "pop":
            return [n] if r < 0.4 else [n, pos()]
        if n == "sort":
            return [n] if r < 0.4 else [n, r < 0.7]
        if n in ("get", "__getitem__"):
            return [n, pos()]
        if n == "reset":
            return [n, gen_reset_arg(rng, cls)]
        return [n]
    if cls == "dict":
        n = rng.choice(["__setitem__", "set", "set", "setdefault", "update", "pop", "pop", "clear", "__getitem__", "get",
                        "get", "__len__", "__contains__", "keys", "values", "items", "rawData", "reset"])
        if n in ("__setitem__", "set", "setdefault"):
            return [n, v(), v()]
        if n == "update":
            return [n, [[k, v()] for k in rng.sample(VALS, rng.randrange(0, 4))]]
        if n in ("pop", "get"):
            return [n, v()] if r < 0.5 else [n, v(), v()]
        if n in ("__getitem__", "__contains__"):
            return [n, v()]
        if n == "reset":
            return [n, gen_reset_arg(rng, cls)]
        if n == "clear" and r < 0.7:
            return ["__len__"]
        return [n]
    if cls == "set":
        n = rng.choice(["add", "add", "add", "remove", "discard", "pop", "pop", "clear", "update", "rawData", "__len__",
                        "__contains__", "reset"])
        if n in ("add", "remove", "discard", "__contains__"):
            return [n, v()]
        if n == "update":
            return [n, [v() for _ in range(rng.randrange(0, 5))]]
        if n == "reset":
            return [n, gen_reset_arg(rng, cls)]
        if n == "clear" and r < 0.7:
            return ["add", v()]
        return [n]
    if cls in ("queue", "pq", "heap"):
        if cls == "heap":
            return ["push", v()] if r < 0.6 else ["pop"]
        n = rng.choice(["put", "put", "put", "get", "get", "full", "empty", "qsize", "__len__"])
        if n == "put":
            return [n, v()]
        if n == "get":
            return [n] if r < 0.5 else [n, v()]
        return [n]
    raise KeyError(cls)


def systematic(cls):
    """directed cases: every method, every argument shape, on empty / one / several elements, each
    boundary of each guard on both sides"""
    out = []
    if cls == "counter":
        out.append((None, [["get"], ["inc"], ["add", 5], ["sub", 7], ["set", -3], ["inc"], ["get"], ["add", -2], ["sub", -2]]))
    if cls == "list":
        for base in ([], [4], [3, 1, 2], [2, 1, 2, 1]):
            n = len(base)
            pre = [["reset", {"l": base}]]
            out.append((None, pre + [["pop"], ["rawData"], ["pop"], ["__len__"]]))
            for p in range(-n - 1, n + 2):
                out.append((None, pre + [["pop", p], ["rawData"]]))
                out.append((None, pre + [["insert", p, 7], ["rawData"]]))
                out.append((None, pre + [["set", p, 7], ["__setitem__", p, 8], ["get", p], ["__getitem__", p]]))
            for x in (1, 2, 9):
                out.append((None, pre + [["remove", x], ["index", x], ["count", x], ["rawData"]]))
            out.append((None, pre + [["sort"], ["rawData"], ["sort", True], ["rawData"], ["sort", False], ["rawData"]]))
            out.append((None, pre + [["extend", []], ["extend", [5, 5]], ["append", 0], ["rawData"], ["snapshot"], ["pop"]]))
        for bad in (None, 3, True, {"d": [[1, 2]]}, {"s": [1]}):
            out.append((None, [["append", 1], ["reset", bad], ["rawData"]]))
    if cls == "dict":
        for base in ([], [[1, 10]], [[2, 20], [1, 10], [3, 30]]):
            pre = [["reset", {"d": base}]]
            for k in (1, 2, 9):
                out.append((None, pre + [["pop", k], ["pop", k, 7], ["items"]]))
                out.append((None, pre + [["get", k], ["get", k, 7], ["__getitem__", k], ["__contains__", k]]))
                out.append((None, pre + [["setdefault", k, 5], ["items"], ["set", k, 6], ["__setitem__", k, 7], ["items"]]))
                out.append((None, pre + [["pop", k], ["set", k, 1], ["keys"], ["values"]]))
            out.append((None, pre + [["update", []], ["update", [[3, 0], [9, 9]]], ["items"], ["__len__"],
                                     ["snapshot"], ["keys"], ["clear"], ["__len__"], ["rawData"]]))
        for bad in (None, 3, {"l": [1]}, {"s": [1]}):
            out.append((None, [["set", 1, 1], ["reset", bad], ["rawData"]]))
    if cls == "set":
        for base in ([], [1], [1, 9, 17], [0, 3, 8]):
            pre = [["reset", {"s": base}]]
            for x in (1, 8, 2):
                out.append((None, pre + [["remove", x], ["discard", x], ["__contains__", x], ["add", x], ["add", x], ["rawData"]]))
            out.append((None, pre + [["pop"], ["pop"], ["__len__"], ["pop"], ["pop"], ["rawData"]]))
            out.append((None, pre + [["update", []], ["update", [1, 1, 5]], ["rawData"], ["clear"], ["__len__"], ["pop"]]))
        for bad in (None, 3, {"l": [1]}, {"d": [[1, 1]]}):
            out.append((None, [["add", 1], ["reset", bad], ["rawData"]]))
    if cls in ("queue", "pq"):
        for m in (None, 0, 1, 2, 3):
            ops = [["full"], ["empty"], ["get"], ["get", 7], ["qsize"]]
            for x in (5, 1, 3, 1):
                ops += [["put", x], ["full"], ["empty"], ["qsize"], ["__len__"]]
            ops += [["snapshot"], ["full"]]
            for _ in range(5):
                ops += [["get", 9], ["full"]]
            ops += [["get"], ["put", 2], ["get"]]
            out.append((m, ops))
    if cls == "heap":
        out.append((None, [["pop"], ["push", 3], ["push", 1], ["push", 2], ["push", 1], ["push", 0], ["pop"], ["pop"],
                           ["pop"], ["pop"], ["pop"], ["pop"]]))
    return out


def random_case(rng, cls):
    maxsize = None
    if cls in ("queue", "pq"):
        maxsize = rng.choice([None, 0, 1, 2, 3, 5])
    n = rng.choice([3, 8, 15, 25, 40])
    ops = []
    b = make_builtin(cls, maxsize)          # only to aim positions at the current boundaries
    for _ in range(n):
        if cls != "heap" and rng.random() < 0.06:
            ops.append(["snapshot"])
            continue
        v = b.v
        size = v.qsize() if cls in ("queue", "pq") else 0 if cls == "counter" else len(v)
        op = gen_op(rng, cls, size)
        ops.append(op)
        call_builtin(cls, b, op)
    return maxsize, ops


# ------------------------------------------------------------------------------------------------
# coverage
# ------------------------------------------------------------------------------------------------
def outcome(r):
    if isinstance(r, dict):
        if "e" in r:
            return r["e"]
        k = list(r)[0]
        return "%s[%s]" % ({"l": "list", "d": "dict", "s": "set"}[k], "empty" if not r[k] else "nonempty")
    if r is None:
        return "None"
    if isinstance(r, bool):
        return str(r)
    return "int"


def shape(op):
    """method + which optional arguments were passed"""
    n = op[0]
    if n in ("pop", "sort", "get") and len(op) == 1:
        return n + "()"
    if n in ("pop", "get") and len(op) == 2:
        return n + "(x)"
    if n in ("pop", "get") and len(op) == 3:
        return n + "(x,default)"
    if n == "sort":
        return "sort(reverse=%s)" % op[1]
    if n == "reset":
        a = op[1]
        return "reset(%s)" % ("None" if a is None else type(a).__name__ if not isinstance(a, dict) else
                              {"l": "list", "d": "dict", "s": "set"}[list(a)[0]])
    return n


# every (class, call shape, outcome) that must be seen at least once per run (floors)
FLOORS = {
    "counter": ["set:int", "add:int", "sub:int", "inc:int", "get():int"],
    "list": ["pop():int", "pop():IndexError", "pop(x):int", "pop(x):IndexError", "set:None", "set:IndexError",
             "__setitem__:None", "__setitem__:IndexError", "get(x):int", "get(x):IndexError", "__getitem__:int",
             "__getitem__:IndexError", "remove:None", "remove:ValueError", "index:int", "index:ValueError",
             "count:int", "insert:None", "append:None", "extend:None", "sort():None", "sort(reverse=True):None",
             "sort(reverse=False):None", "reset(list):None", "reset(None):AssertionError", "reset(dict):AssertionError",
             "__len__:int", "rawData:list[empty]", "rawData:list[nonempty]"],
    "dict": ["pop(x):int", "pop(x):None", "pop(x,default):int", "get(x):int", "get(x):None",
             "get(x,default):int", "__getitem__:int", "__getitem__:KeyError", "setdefault:int", "set:None",
             "__setitem__:None", "update:None", "clear:None", "__len__:int", "__contains__:True", "__contains__:False",
             "keys:list[nonempty]", "values:list[nonempty]", "items:dict[nonempty]", "items:dict[empty]",
             "reset(dict):None", "reset(list):AssertionError", "rawData:dict[nonempty]"],
    "set": ["add:None", "remove:None", "remove:KeyError", "discard:None", "pop():int", "pop():KeyError", "clear:None",
            "update:None", "__len__:int", "__contains__:True", "__contains__:False", "reset(set):None",
            "reset(list):AssertionError", "rawData:set[empty]", "rawData:set[nonempty]"],
    "queue": ["put:True", "put:False", "get():int", "get():None", "get(x):int", "full:True", "full:False", "empty:True",
              "empty:False", "qsize:int", "__len__:int"],
    "pq": ["put:True", "put:False", "get():int", "get():None", "get(x):int", "full:True", "full:False", "empty:True",
           "empty:False", "qsize:int", "__len__:int"],
    "heap": ["push:None", "pop():int", "pop():IndexError"],
}


# ------------------------------------------------------------------------------------------------
# one batch: real runs, model runs, diffs, monitor
# ------------------------------------------------------------------------------------------------
def lean_line(cls, side, maxsize, ops):
    return json.dumps({"cls": cls, "side": side, "maxsize": maxsize, "ops": ops}, separators=(",", ":"))


def with_oracle(ops, res):
    """set.pop(): hand the element the real object returned to the model as the choice"""
    out = []
    for op, r in zip(ops, res):
        if op[0] == "pop" and isinstance(r, int) and not isinstance(r, bool):
            out.append(["pop", r])
        else:
            out.append(op)
    return out


def same(x, y):
    """strict equality (True != 1)"""
    return json.dumps(x, sort_keys=True) == json.dumps(y, sort_keys=True)


def first_diff(a, b):
    for i, (x, y) in enumerate(zip(a["res"], b["res"])):
        if not same(x, y):
            return i
    if not same(a["state"], b["state"]) or not same(a["maxsize"], b["maxsize"]):
        return len(a["res"])
    return None


def monitor_case(B, cls, maxsize, ops):
    """the property statement on the real code, for one operation sequence.  Returns a list of
    violations (empty = holds)."""
    if cls == "heap":
        return []
    real = run_battery(B, cls, maxsize, ops, snapshots=True)
    plain = run_battery(B, cls, maxsize, ops, snapshots=False)
    ref = run_builtin(cls, maxsize, ops, plain["res"] if cls == "set" else None)
    if cls == "pq":                 # contents of a priority queue = a multiset (the heap layout is not observable)
        for r in (real, plain, ref):
            r["state"] = {"l": sorted(r["state"]["l"])}
    has_snapshot = any(op[0] == "snapshot" for op in ops)
    viols = []

    def mk(sig, what, i):
        return {"signature": sig, "what": what,
                "replay": {"cls": cls, "maxsize": maxsize, "ops": ops[:i + 1] if i < len(ops) else ops}}

    # battery (no snapshot) vs builtin: "return the same results and hold the same contents"
    i = first_diff(plain, ref)
    if i is not None:
        if i < len(ops):
            detail = plain["res"][i]["e"] if isinstance(plain["res"][i], dict) and "e" in plain["res"][i] else "value"
            viols.append(mk("batteries.%s.%s:differs-from-builtin:%s" % (CLSNAME[cls], ops[i][0], detail),
                            "%s.%s%r returned %r, %s given the same operations returned %r (operation %d of the sequence)"
                            % (CLSNAME[cls], ops[i][0], tuple(ops[i][1:]), plain["res"][i], BUILTIN[cls], ref["res"][i], i), i))
        else:
            viols.append(mk("batteries.%s:contents-differ-from-builtin" % CLSNAME[cls],
                            "%s holds %r (maxsize %r), %s given the same operations holds %r"
                            % (CLSNAME[cls], plain["state"], plain["maxsize"], BUILTIN[cls], ref["state"]), i))
    # ReplSets with equal contents but other layouts must pop the same elements in the same order
    if cls == "set" and plain["state"]["s"]:
        var = pop_order_variants(B, plain["state"]["s"])
        if len(set(json.dumps(v) for v in var.values())) > 1:
            viols.append(mk("batteries.ReplSet.pop:layout-dependent",
                            "ReplSets holding the same contents %r, built in different ways, are drained by pop() in "
                            "different orders: %r" % (plain["state"]["s"], var), len(ops)))
    # replica rebuilt from snapshots vs replica that applied everything: "all replicas are equal"
    if has_snapshot:
        i = first_diff(real, plain)
        if i is not None:
            if cls == "set" and i < len(ops) and ops[i][0] == "pop":
                viols.append(mk("batteries.ReplSet.pop:layout-dependent",
                                "ReplSet.pop() on a replica rebuilt from a snapshot returned %r, on the replica that applied "
                                "the whole history %r (equal contents before the call)" % (real["res"][i], plain["res"][i]), i))
            else:
                viols.append(mk("batteries.%s:replica-from-snapshot-differs" % CLSNAME[cls],
                                "%s replica rebuilt from a snapshot: results %r, contents %r, maxsize %r; replica that applied "
                                "everything: results %r, contents %r, maxsize %r (first difference at operation %d)"
                                % (CLSNAME[cls], real["res"][i:i + 1], real["state"], real["maxsize"], plain["res"][i:i + 1],
                                   plain["state"], plain["maxsize"], i), i))
    return viols


def shrink(ops, bad):
    """greedy deletion of operations while `bad(ops)` stays true"""
    cur = list(ops)
    changed = True
    budget = 200
    while changed and budget > 0:
        changed = False
        for i in range(len(cur) - 1, -1, -1):
            cand = cur[:i] + cur[i + 1:]
            budget -= 1
            if budget <= 0:
                break
            try:
                if bad(cand):
                    cur = cand
                    changed = True
            except Exception:
                pass
    return cur


class _Asker:
    """one long-lived driver process for the request/response queries of the shrinker"""
    def __init__(self):
        self.p = None

    def __call__(self, line):
        if self.p is None:
            from harness import checklib
            self.p = checklib.DriverProc("batteries")
        return self.p.ask(line)

    def close(self):
        if self.p is not None:
            self.p.close()
            self.p = None


def corpus_cases(ctx):
    import glob
    import os
    out = []
    for fn in sorted(glob.glob(os.path.join(ctx.verif, "corpus", "batteries", "*.json"))):
        try:
            j = json.load(open(fn))
            for c in j.get("cases", [j]):
                out.append((c["cls"], c.get("maxsize"), c["ops"]))
        except Exception:
            pass
    return out


def run(ctx):
    t0 = time.time()
    B = load_batteries(ctx.repo)
    rng = ctx.rng("batteries_ops")
    cases = []                      # (cls, maxsize, ops)
    cases += corpus_cases(ctx)
    for cls in CLASSES + ["heap"]:
        for m, ops in systematic(cls):
            cases.append((cls, m, ops))
    n_sys = len(cases)
    per_cls = ctx.scale(1000, 12000)
    for cls in CLASSES + ["heap"]:
        for _ in range(per_cls if cls != "heap" else per_cls // 2):
            m, ops = random_case(rng, cls)
            cases.append((cls, m, ops))

    cov = {}
    distinct = set()
    disagreements = []
    violations = []
    seen_sigs = set()
    n_ops = 0

    # real runs
    real, ref = [], []
    for cls, m, ops in cases:
        if cls == "heap":
            real.append(None)
        else:
            real.append(run_battery(B, cls, m, ops))
        ref.append(run_builtin(cls, m, ops, real[-1]["res"] if cls == "set" else None))
    # model runs (one driver invocation)
    lines = []
    for (cls, m, ops), ra, rb in zip(cases, real, ref):
        if cls != "heap":
            lines.append(lean_line(cls, "battery", m, ops))      # set.pop: the model chooses by the implemented rule
        lines.append(lean_line(cls, "ref", m, with_oracle(ops, rb["res"]) if cls == "set" else ops))
    outl = ctx.driver("batteries", lines)
    ask = _Asker()
    shrinks_left = [6]              # disagreeing cases minimised per run (each costs up to 200 model queries)
    if len(outl) != len(lines):
        return {"error": "driver returned %d lines for %d requests" % (len(outl), len(lines))}
    k = 0
    for (cls, m, ops), ra, rb in zip(cases, real, ref):
        distinct.add(hashlib.sha1(json.dumps([cls, m, ops]).encode()).hexdigest())
        n_ops += len(ops)
        pairs = []
        if cls != "heap":
            pairs.append(("battery", ra, json.loads(outl[k])))
            k += 1
        pairs.append(("ref", rb, json.loads(outl[k])))
        k += 1
        for side, impl, model in pairs:
            if "error" in model or first_diff(impl, model) is not None or len(impl["res"]) != len(model.get("res", [])):
                if len(disagreements) < 3 and shrinks_left[0] > 0:
                    shrinks_left[0] -= 1

                    def bad(c, side=side, cls=cls, m=m):
                        im = (run_battery(B, cls, m, c) if side == "battery" else run_ref(B, cls, m, c))
                        mo = json.loads(ask(lean_line(cls, side, m, with_oracle(c, im["res"]) if cls == "set" and side == "ref" else c)))
                        return "error" in mo or first_diff(im, mo) is not None
                    small = shrink(ops, bad)
                    im = (run_battery(B, cls, m, small) if side == "battery" else run_ref(B, cls, m, small))
                    mo = json.loads(ask(lean_line(cls, side, m, with_oracle(small, im["res"]) if cls == "set" and side == "ref" else small)))
                    if any(d["input"] == {"cls": cls, "side": side, "maxsize": m, "ops": small} for d in disagreements):
                        continue
                    disagreements.append({"input": {"cls": cls, "side": side, "maxsize": m, "ops": small},
                                          "model": mo, "impl": im,
                                          "note": "Lean %s vs real %s" % ("battery model" if side == "battery" else "container spec",
                                                                           CLSNAME.get(cls, cls) if side == "battery" else BUILTIN.get(cls, "heapq"))})
        # coverage from the REAL battery's outcomes (builtin for the raw heap)
        src = ra if ra is not None else rb
        for op, r in zip(ops, src["res"]):
            if op[0] == "snapshot":
                key = "%s.snapshot" % cls
            else:
                key = "%s.%s:%s" % (cls, shape(op), outcome(r))
            cov[key] = cov.get(key, 0) + 1
        if cls in ("queue", "pq"):
            key = "%s.maxsize=%s" % (cls, m)
            cov[key] = cov.get(key, 0) + 1
        # monitor: the property statement on the real code
        for v in monitor_case(B, cls, m, ops):
            if v["signature"] not in seen_sigs:
                seen_sigs.add(v["signature"])
                sig = v["signature"]

                def bad(c, sig=sig, cls=cls, m=m):
                    return any(x["signature"] == sig for x in monitor_case(B, cls, m, c))
                small = shrink(ops, bad)
                vs = [x for x in monitor_case(B, cls, m, small) if x["signature"] == sig]
                if vs:
                    vs[0]["replay"] = {"cls": cls, "maxsize": m, "ops": small}
                    violations.append(vs[0])
                else:
                    violations.append(v)

    ask.close()
    missing = []
    for cls, keys in FLOORS.items():
        for key in keys:
            if cov.get("%s.%s" % (cls, key), 0) == 0:
                missing.append("%s.%s" % (cls, key))
    res = {"cases": len(cases), "distinct": len(distinct), "coverage": {"systematic_cases": n_sys, "operations": n_ops,
                                                                          "method_x_outcome": dict(sorted(cov.items()))},
           "samples": [{"cls": c, "maxsize": m, "ops": o[:12]} for c, m, o in (cases[n_sys], cases[n_sys + per_cls * 3 + 1],
                                                                             cases[-1])],
           "disagreements": disagreements, "violations": violations, "wall_s": round(time.time() - t0, 2),
           "notes": "three-way: real battery vs Lean battery model; real builtin vs Lean container spec; monitor battery==builtin "
                    "and replica-through-snapshots==replica-without on the real code; private attributes read: " + ", ".join(PRIVATE)}
    if missing and not disagreements and not violations:
        res["inconclusive"] = "coverage floor missed: " + ", ".join(missing[:8])
    elif missing:
        res["coverage"]["floors_missed"] = missing
    return res


def search(ctx, unproved):
    """look for an operation sequence on which the REAL battery differs from the REAL builtin / from a
    replica rebuilt from a snapshot (monitor only, no model involved)"""
    B = load_batteries(ctx.repo)
    rng = ctx.rng("batteries_ops.search")
    found, seen = [], set()
    t0 = time.time()
    n = ctx.scale(4000, 60000)
    for i in range(n):
        cls = CLASSES[i % len(CLASSES)]
        m, ops = random_case(rng, cls)
        for v in monitor_case(B, cls, m, ops):
            if v["signature"] in seen:
                continue
            seen.add(v["signature"])
            sig = v["signature"]
            small = shrink(ops, lambda c: any(x["signature"] == sig for x in monitor_case(B, cls, m, c)))
            vs = [x for x in monitor_case(B, cls, m, small) if x["signature"] == sig]
            if vs:
                vs[0]["replay"] = {"cls": cls, "maxsize": m, "ops": small}
                found.append(vs[0])
            else:
                found.append(v)
        if time.time() - t0 > ctx.budget_s:
            break
    return found


def replay(ctx, violation):
    B = load_batteries(ctx.repo)
    r = violation["replay"]
    vs = monitor_case(B, r["cls"], r.get("maxsize"), r["ops"])
    same = [v for v in vs if v["signature"] == violation["signature"]]
    out = {"violated": bool(same), "signature": violation["signature"], "input": r,
           "battery": run_battery(B, r["cls"], r.get("maxsize"), r["ops"]),
           "battery_without_snapshots": run_battery(B, r["cls"], r.get("maxsize"), r["ops"], snapshots=False),
           "builtin": run_ref(B, r["cls"], r.get("maxsize"), r["ops"])}
    try:
        out["model_battery"] = json.loads(ctx.driver("batteries", [lean_line(
            r["cls"], "battery", r.get("maxsize"), r["ops"])])[0])
    except Exception as e:
        out["model_battery"] = "driver: %s" % e
    if same:
        out["what"] = same[0]["what"]
    return out
