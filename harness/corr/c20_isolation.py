"""C20 property monitor on REAL clusters (harness/sim.py: real SyncObj instances, simulated transport, virtual
clocks): a leader cut off from the majority.

Scenarios: 2-5 voters, leaderFallbackTimeout T from just above appendEntriesPeriod (0.125 s) to 30 s, the
leader is separated from enough voters to lose its majority (all of them / just enough; silently = data lost
but nobody told, or noticed by one or both ends), at a seeded offset relative to the heartbeats, with varying
tick periods.  Monitors, written against the property statement (observations only: delivered messages,
`_isLeader()`, `hasQuorum`, callbacks):

* fallback:leader-not-stepping-down  — after every tick of a node that reports itself leader: the voters from
  which a `next_node_idx` was delivered to it later than `now − T` (or since it became leader), plus itself,
  are a majority.  Hence `_isLeader()` is false by the first tick at or after (last contact with a majority) + T.
* fallback:success-while-cut-off     — no callback of a command submitted to the isolated node after the cut
  fires with SUCCESS.
* hasQuorum:wrong-value              — at every step, on every node, `hasQuorum` == (connected to a majority
  of the voters it knows, itself included).
"""
import hashlib
import json
import logging
import time

from harness import sim as simmod

PROPERTIES = ["C20"]
ORDER = 60

T_POOL = [0.1328125, 0.25, 0.5, 1.0, 2.0, 30.0]       # dyadic; 0.1328125 = 136/1024 is just above the heartbeat period
DT_POOL = [0.0625, 0.0625, 0.03125, 0.125, 0.1259765625]


class Watch(object):
    """Per-node record of when an acknowledgement from each voter was last delivered."""

    def __init__(self, sim, T):
        self.sim = sim
        self.T = T
        self.heard = {}        # node -> {other: time}
        self.was_leader = {}
        self.viol = []
        self.checks = 0
        self.stepdowns = 0

    def note_roles(self):
        s = self.sim
        for i in s.voters:
            if i not in s.objs:
                continue
            ld = s.objs[i]._isLeader()
            if ld and not self.was_leader.get(i):
                # became leader now: the election itself is contact with a majority
                self.heard[i] = dict((o, s.now[i]) for o in s.voters if o != i)
            if self.was_leader.get(i) and not ld:
                self.stepdowns += 1
            self.was_leader[i] = ld

    def deliver_all(self):
        s = self.sim
        n = 0
        progress = True
        while progress and n < 100000:
            progress = False
            for (a, b) in sorted(s.chan.keys()):
                while s.chan[(a, b)]:
                    m = s.chan[(a, b)][0]
                    s.deliver(a, b)
                    if m.get("type") == "next_node_idx" and b in s.voters and a in s.voters:
                        self.heard.setdefault(b, {})[a] = s.now[b]
                    n += 1
                    progress = True
                    self.note_roles()

    def tick(self, i, dt):
        s = self.sim
        s.tick(i, dt)
        self.note_roles()
        o = s.objs[i]
        if o._isLeader():
            self.checks += 1
            now = s.now[i]
            others = [x for x in s.voters if x != i]
            fresh = [x for x in others if self.heard.get(i, {}).get(x, -1e9) > now - self.T]
            if 2 * (1 + len(fresh)) <= len(others) + 1:
                self.viol.append({"signature": "fallback:leader-not-stepping-down",
                                  "what": "node %s reports itself leader at t=%r although only %d of %d voters (itself included) "
                                          "were heard from within T=%r" % (i, now, 1 + len(fresh), len(others) + 1, self.T)})

    def quorum(self):
        s = self.sim
        for i, o in s.objs.items():
            known = [x for x in s.voters if x != i]
            conn = [x for x in known if (i, x) in s.up]
            me = 0 if i in s.observers else 1
            want = 2 * (len(conn) + me) > len(known) + me
            if bool(o.hasQuorum) != want:
                self.viol.append({"signature": "hasQuorum:wrong-value",
                                  "what": "node %s hasQuorum=%r, connected to %d of %d other voters" % (i, o.hasQuorum, len(conn), len(known))})


def scenario(ctx, p):
    logging.getLogger().setLevel(logging.CRITICAL + 1)
    n, T, dt, mode, keep, offs, seed = p["n"], p["T"], p["dt"], p["mode"], p["keep"], p["offset"], p["seed"]
    ids = ["n%d" % k for k in range(n)]
    s = simmod.Sim(ctx.repo, ids, conf=dict(leaderFallbackTimeout=T), seed=seed)
    w = Watch(s, T)
    s.connect_all()
    w.note_roles()
    ldr = None
    for _ in range(600):
        for i in ids:
            w.tick(i, 0.0625)
        w.deliver_all()
        w.quorum()
        ldr = s.leader()
        if ldr is not None:
            break
    if ldr is None:
        return {"viol": [], "note": "no leader (T too small for this schedule)", "checks": w.checks, "stepdowns": 0, "cut": False}
    for k in range(3):
        s.submit(ldr, 100 + k)
    for _ in range(4):
        for i in ids:
            w.tick(i, dt)
        w.deliver_all()
    # offset relative to the heartbeat: a few leader-only ticks of odd length
    for d in offs:
        w.tick(ldr, d)
        w.deliver_all()
    if not s.objs[ldr]._isLeader():
        return {"viol": w.viol, "note": "leader lost before the cut", "checks": w.checks, "stepdowns": w.stepdowns, "cut": False}
    others = [x for x in ids if x != ldr]
    victims = others[keep:]
    # a true partition: the leader's side (leader + `keep` voters, no majority) loses every link to the rest
    for a in [ldr] + others[:keep]:
        for x in victims:
            if mode == "silent":
                s.cut(a, x)
            elif mode == "noticed":
                s.disconnect(a, x)
            elif mode == "flapping":
                s.disconnect(a, x)
            elif mode == "leader-notices":
                s.cut(a, x)
                s.notice(a, x)
            else:
                s.cut(a, x)
                s.notice(x, a)
    t_cut = s.now[ldr]
    cut_cbs = [s.submit(ldr, 900 + k) for k in range(2)]
    side = [ldr] + others[:keep]
    steps = int((T + 1.0) / dt) + 8
    left_at = None
    flap_every = max(1, int(T / (2 * dt)))
    for k in range(steps):
        if mode == "flapping" and k % flap_every == flap_every - 1:
            # the links come up and die again before a single message gets through (a frozen peer whose
            # kernel still accepts connects): a bare connection event is not "hearing from" a voter
            for a in side:
                for x in victims:
                    s.connect(a, x)
                    s.disconnect(a, x)
        for i in side:
            w.tick(i, dt)
        w.deliver_all()
        w.quorum()
        if k == 2:
            cut_cbs.append(s.submit(ldr, 950))
        if left_at is None and not s.objs[ldr]._isLeader():
            left_at = s.now[ldr]
        # the majority side lives on at a coarser pace
        if k % 4 == 0:
            for i in victims:
                w.tick(i, 4 * dt)
            w.deliver_all()
    viol = list(w.viol)
    if s.objs[ldr]._isLeader():
        viol.append({"signature": "fallback:leader-not-stepping-down",
                     "what": "node %s still leader %.4f s after losing the majority, T=%r" % (ldr, s.now[ldr] - t_cut, T)})
    for (node, cid, res, err) in s.callbacks:
        if cid in cut_cbs and err == 0:
            viol.append({"signature": "fallback:success-while-cut-off",
                         "what": "command submitted to the isolated leader %s was acknowledged with SUCCESS (result %r)" % (ldr, res)})
    if s.errors:
        viol.append({"signature": "tick:exception-escapes", "what": "%s: %s" % (s.errors[0][1], s.errors[0][2])})
    return {"viol": viol, "checks": w.checks, "stepdowns": w.stepdowns, "cut": True,
            "left_after": None if left_at is None else round(left_at - t_cut, 6), "T": T}


def added_silent_voter(ctx, seed, n0=2):
    """The leader of n0 voters adds a voter that was never part of the cluster and never answers (not started yet); the
    add commits with the old members; then the leader loses every answering voter.  The new voter gets one
    `leaderFallbackTimeout` of grace from the moment it is added - after that the leader has heard from nobody and
    must step down."""
    T = 1.0
    names = ["n%d" % k for k in range(n0)]
    s = simmod.Sim(ctx.repo, names, conf={"dynamicMembershipChange": True, "leaderFallbackTimeout": T}, seed=seed)
    s.connect_all()
    L = s.elect()
    if L is None:
        return {"viol": [], "cut": False}
    s.run(6)
    res = []
    s._call(L, s.objs[L].addNodeToCluster, s.Node("zz"), callback=lambda r, e: res.append(("add", e)))
    s.run(int(1.5 * T / 0.0625))                 # the add commits; the grace of the silent voter runs out
    viol = []
    if ("add", 0) not in res:
        return {"viol": [], "cut": False, "callbacks": res}
    for j in names:
        if j != L:
            s.disconnect(L, j)
    steps = int(1.25 * T / 0.0625)
    for _ in range(steps):
        s.tick(L, 0.0625)
    if s.objs[L]._isLeader():
        viol.append({"signature": "fallback:leader-after-timeout-with-silent-added-voter",
                     "what": "leader %s of %d voters added voter zz, which never answered (added %.2f s ago), then lost every other voter: "
                             "%.2f s later (T=%.1f) it still reports itself leader" % (L, n0, 1.5 * T + steps * 0.0625, steps * 0.0625, T)})
    return {"viol": viol, "cut": True, "callbacks": res}


def membership_quorum(ctx, seed):
    """`hasQuorum` across membership changes: a voter is removed (its connection is closed by the transport), crashes,
    is added again while unreachable, then the remaining peers are lost: `hasQuorum` must be False everywhere (connected
    to none of the voters known) — a connection that ended while the node was not a member must not count."""
    s = simmod.Sim(ctx.repo, ["n0", "n1", "n2"], conf={"dynamicMembershipChange": True, "leaderFallbackTimeout": 1.0}, seed=seed)

    def hook(i):
        t = s.transports[i]
        orig = t.dropNode

        def drop(n, i=i):
            orig(n)
            if frozenset((i, n.id)) in s.alive or (i, n.id) in s.up:
                s.disconnect(i, n.id)          # what TCPTransport.dropNode does: close the connection, report it
        t.dropNode = drop
    for i in s.voters:
        hook(i)
    s.connect_all()
    viol, stages = [], []

    def quorum(stage):
        stages.append(stage)
        for i in live:
            o = s.objs[i]
            known = sorted(n.id for n in o.otherNodes)
            conn = [x for x in known if (i, x) in s.up]
            want = 2 * (len(conn) + 1) > len(known) + 1
            if bool(o.hasQuorum) != want:
                viol.append({"signature": "hasQuorum:wrong-value",
                             "what": "%s: node %s hasQuorum=%r but it is connected to %s of the voters it knows %s"
                                     % (stage, i, o.hasQuorum, conn, known)})
    live = list(s.voters)
    L = s.elect()
    if L is None:
        return {"viol": [], "cut": False}
    for _ in range(6):
        for i in live:
            s.tick(i, 0.0625)
        s.deliver_all()
    quorum("after start")
    X = [i for i in s.voters if i != L][0]
    Y = [i for i in s.voters if i not in (L, X)][0]
    res = []
    s._call(L, s.objs[L].removeNodeFromCluster, s.Node(X), callback=lambda r, e: res.append(("rem", e)))
    for _ in range(12):
        for i in live:
            s.tick(i, 0.0625)
        s.deliver_all()
    quorum("after the removal of %s" % X)
    # X crashes: whatever connection is left dies, X does not tick any more
    live = [L, Y]
    for j in (L, Y):
        s.cut(X, j)
        s.notice(j, X)
    s._call(L, s.objs[L].addNodeToCluster, s.Node(X), callback=lambda r, e: res.append(("add", e)))
    for _ in range(16):
        for i in live:
            s.tick(i, 0.0625)
        s.deliver_all(among=set(live))
    quorum("after %s was added again (unreachable)" % X)
    s.disconnect(L, Y)
    for i in live:
        s.tick(i, 0.0625)
    quorum("after the partition (nobody is connected to anybody)")
    for _ in range(24):
        for i in live:
            s.tick(i, 0.0625)
    quorum("after the fallback timeout")
    # the leader has heard from NOBODY for longer than the timeout: the voter added while unreachable never answered
    # (its one-timeout grace is over), the other one is cut off
    for i in live:
        if s.objs[i]._isLeader():
            viol.append({"signature": "fallback:leader-after-timeout-with-silent-added-voter",
                         "what": "node %s still reports itself leader %.2f s after losing its last answering voter (T=1.0); voter %s was "
                                 "added while unreachable and never answered" % (i, 25 * 0.0625, X)})
    ok = ("rem", 0) in res and ("add", 0) in res
    return {"viol": viol, "cut": ok, "callbacks": res, "stages": stages}


def api_calls_are_no_sign_of_life(ctx, seed, T=2.0):
    """A leader cut off from the majority keeps being asked (locally) to add a node that already is a voter, to remove
    a node that is none, to set the code version it already has: requests that are refused or change nothing.  None of
    them is a message from a voter: the leader steps down within T."""
    s = simmod.Sim(ctx.repo, ["n0", "n1", "n2"], conf={"dynamicMembershipChange": True, "leaderFallbackTimeout": T}, seed=seed)
    s.connect_all()
    L = s.elect()
    if L is None:
        return {"viol": [], "cut": False}
    for _ in range(8):
        for i in s.voters:
            s.tick(i, 0.0625)
        s.deliver_all()
    peers = [i for i in s.voters if i != L]
    for j in peers:
        s.cut(L, j)
    t_cut = s.now[L]
    answers = []
    o = s.objs[L]
    k = 0
    while s.now[L] < t_cut + T + 1.0:
        if k % 8 == 0:
            s._call(L, o.addNodeToCluster, s.Node(peers[(k // 8) % 2]), callback=lambda r, e: answers.append(("add", e)))
            s._call(L, o.removeNodeFromCluster, s.Node("zz"), callback=lambda r, e: answers.append(("rem", e)))
        s.tick(L, 0.0625)
        k += 1
    viol = []
    if o._isLeader():
        viol.append({"signature": "fallback:leader-not-stepping-down",
                     "what": "node %s still reports itself leader %.2f s after it was cut off from both other voters (T=%.2f); meanwhile "
                             "it only answered local requests: %s" % (L, s.now[L] - t_cut, T, sorted(set(answers)))})
    return {"viol": viol, "cut": bool(answers), "answers": sorted(set(answers))}


def stale_acks_after_reelection(ctx, seed):
    """A node that leads a second time and is then cut off from the majority must not acknowledge anything on the
    strength of what followers confirmed in its FIRST term of office (schedule of corr.core_directed:
    5 voters, A leads terms 1 and 3; in term 3 only D answers).  C20: no SUCCESS while cut off from the majority."""
    from harness.corr import core_directed
    sim, v, note = core_directed.stale_match_reelection(ctx.repo, seed)
    viol = []
    subs = {ev[4]: ev[2] for ev in sim.trace if ev[0] == "submit"}
    for (node, cid, res, err) in sim.callbacks:
        if subs.get(cid) == "from-A" and err == 0:
            viol.append({"signature": "fallback:success-while-cut-off",
                         "what": "node a, leader for the second time and reaching only 1 of 4 other voters in that term, reported SUCCESS "
                                 "(result %r) for a command submitted then" % (res,)})
    return {"viol": viol, "cut": note is None, "note": note}


def params(ctx):
    rng = ctx.rng("c20_isolation")
    out = []
    # systematic: every size, every T, keep = largest minority-side that is still no majority, and 0
    for n in (2, 3, 4, 5):
        need = n // 2 + 1
        for T in T_POOL:
            for keep in sorted(set([0, max(need - 2, 0)])):
                out.append({"n": n, "T": T, "dt": 0.0625 if T < 30 else 0.5, "mode": "silent", "keep": keep,
                            "offset": [], "seed": 1})
                if 0.25 <= T <= 2.0:
                    out.append({"n": n, "T": T, "dt": 0.0625, "mode": "flapping", "keep": keep, "offset": [], "seed": 1})
    n_rand = ctx.scale(500, 20000)
    for k in range(n_rand):
        n = rng.choice([2, 3, 3, 4, 5, 5])
        need = n // 2 + 1
        T = rng.choice(T_POOL[:-1] if rng.random() < 0.9 else T_POOL)
        out.append({"n": n, "T": T, "dt": rng.choice(DT_POOL) if T < 30 else 0.5,
                    "mode": rng.choice(["silent", "silent", "noticed", "leader-notices", "follower-notices", "flapping"]),
                    "keep": rng.randint(0, max(need - 2, 0)),
                    "offset": [rng.choice([0.0009765625, 0.03125, 0.0625, 0.1240234375, 0.125]) for _ in range(rng.randint(0, 3))],
                    "seed": rng.randrange(10 ** 6)})
    return out


def run(ctx):
    t0 = time.time()
    viols, cov, distinct = [], {"scenarios_cut": 0, "leader_checks": 0, "stepdowns": 0, "by_size": {}, "by_T": {}, "by_mode": {},
                                "no_leader": 0, "left_after_over_T": []}, set()
    ps = params(ctx)
    done = 0
    for p in ps:
        if time.time() - t0 > ctx.budget_s * 0.6:
            break
        r = scenario(ctx, p)
        done += 1
        if not r["cut"]:
            cov["no_leader"] += 1
            continue
        cov["scenarios_cut"] += 1
        cov["leader_checks"] += r["checks"]
        cov["stepdowns"] += r["stepdowns"]
        cov["by_size"][str(p["n"])] = cov["by_size"].get(str(p["n"]), 0) + 1
        cov["by_T"][str(p["T"])] = cov["by_T"].get(str(p["T"]), 0) + 1
        cov["by_mode"][p["mode"]] = cov["by_mode"].get(p["mode"], 0) + 1
        if r.get("left_after") is not None and len(cov["left_after_over_T"]) < 12:
            cov["left_after_over_T"].append([p["T"], r["left_after"]])
        distinct.add(hashlib.sha1(json.dumps(p, sort_keys=True).encode()).hexdigest())
        for v in r["viol"]:
            if v["signature"] not in [x["signature"] for x in viols]:
                v["replay"] = {"params": p}
                viols.append(v)
    cov["membership_quorum"] = 0
    for sd in range(ctx.seed, ctx.seed + ctx.scale(2, 6)):
        r = membership_quorum(ctx, sd)
        done += 1
        if r["cut"]:
            cov["membership_quorum"] += 1
        for v in r["viol"]:
            if v["signature"] + ":membership" not in [x.get("_k") for x in viols]:
                v["_k"] = v["signature"] + ":membership"
                v["replay"] = {"membership_quorum": sd}
                viols.append(v)
    cov["added_silent_voter"] = 0
    for sd in range(ctx.seed, ctx.seed + 2):
        for n0 in (2, 3, 4):
            r = added_silent_voter(ctx, sd, n0)
            done += 1
            if r["cut"]:
                cov["added_silent_voter"] += 1
            for v in r["viol"]:
                if v["signature"] + ":silent" not in [x.get("_k") for x in viols]:
                    v["_k"] = v["signature"] + ":silent"
                    v["replay"] = {"added_silent_voter": [sd, n0]}
                    viols.append(v)
    cov["api_calls_while_cut_off"] = 0
    for sd in range(ctx.seed, ctx.seed + 2):
        r = api_calls_are_no_sign_of_life(ctx, sd)
        done += 1
        if r["cut"]:
            cov["api_calls_while_cut_off"] += 1
        for v in r["viol"]:
            if "api" not in [x.get("_k") for x in viols]:
                v["_k"] = "api"
                v["replay"] = {"api_calls": sd}
                viols.append(v)
    cov["stale_acks_after_reelection"] = 0
    for sd in range(ctx.seed, ctx.seed + 2):
        r = stale_acks_after_reelection(ctx, sd)
        done += 1
        if r["cut"]:
            cov["stale_acks_after_reelection"] += 1
        for v in r["viol"]:
            if "reelect" not in [x.get("_k") for x in viols]:
                v["_k"] = "reelect"
                v["replay"] = {"stale_acks_after_reelection": sd}
                viols.append(v)
    res = {"cases": done, "distinct": len(distinct), "coverage": cov, "samples": ps[:2], "disagreements": [],
           "violations": viols[:5], "wall_s": round(time.time() - t0, 2)}
    if cov["stale_acks_after_reelection"] == 0:
        res["inconclusive"] = "the re-election schedule did not reach its point"
    elif cov["membership_quorum"] == 0:
        res["inconclusive"] = "remove / re-add of a voter did not commit in any run"
    elif cov["scenarios_cut"] < 10 or cov["stepdowns"] < 10 or len(cov["by_size"]) < 4:
        res["inconclusive"] = "too few isolation scenarios executed: %r" % ({k: cov[k] for k in ("scenarios_cut", "stepdowns", "by_size")},)
    return res


def replay(ctx, violation):
    if "api_calls" in violation.get("replay", {}):
        r = api_calls_are_no_sign_of_life(ctx, violation["replay"]["api_calls"])
        return {"violated": bool(r["viol"]), "violations": r["viol"][:5]}
    if "stale_acks_after_reelection" in violation.get("replay", {}):
        r = stale_acks_after_reelection(ctx, violation["replay"]["stale_acks_after_reelection"])
        return {"violated": bool(r["viol"]), "violations": r["viol"][:5]}
    if "added_silent_voter" in violation.get("replay", {}):
        sd, n0 = violation["replay"]["added_silent_voter"]
        r = added_silent_voter(ctx, sd, n0)
        return {"violated": bool(r["viol"]), "violations": r["viol"][:3]}
    if "membership_quorum" in violation.get("replay", {}):
        r = membership_quorum(ctx, violation["replay"]["membership_quorum"])
        return {"violated": bool(r["viol"]), "violations": r["viol"][:5], "callbacks": r.get("callbacks")}
    r = scenario(ctx, violation["replay"]["params"])
    return {"violated": any(v["signature"] == violation["signature"] for v in r["viol"]),
            "violations": r["viol"][:5], "observed": {k: r.get(k) for k in ("checks", "stepdowns", "left_after", "T")}}
