"""Directed schedules for classic replication bugs, run on the REAL code under property monitors
(DESIGN.md §2.4, step 3).  They run on every check of C01–C04 (cheap) so that a change of a guard in
the vote / commit / append handlers comes with a concrete failing schedule, not only with a trace
mismatch:

* figure-8            : a leader must not count an entry of an OLDER term as committed just because a
                        majority stores it (Raft §5.4.2); 5 nodes, four leader changes.
* longer-older-log    : a voter holding a committed entry of a newer term must refuse a candidate whose log
                        is longer but ends in an older term; 3 nodes.
* even-split          : 4 nodes, two candidates of one term with two votes each: nobody may lead.
* double-vote         : a voter asked twice in one term by different candidates answers one.

Monitors: harness/monitors.py (CommitWatch, sm_safety, leaders_per_term, callbacks_contract) plus leader
completeness ("commands acknowledged with SUCCESS are applied by every later leader").
"""
import time

from harness.sim import Sim
from harness import monitors

PROPERTIES = ["C01", "C02", "C03", "C04"]
ORDER = 20


def _watchers(sim):
    return monitors.CommitWatch(sim)


def _finish(sim, watch, acked_cmds=()):
    watch.step()
    v = watch.out + monitors.sm_safety(sim) + monitors.leaders_per_term(sim) + monitors.callbacks_contract(sim) + monitors.errors(sim)
    # leader completeness on the implementation: a current leader holds every acknowledged command
    for i in sim.voters:
        o = sim.objs.get(i)
        if o is None or not o._isLeader():
            continue
        held = set(cmd for (_, _, cmd) in sim.log_of(i))
        import pysyncobj.pickle as ppickle
        held_vals = set()
        for c in held:
            try:
                x = ppickle.loads(c[1:])
                if isinstance(x, tuple) and len(x) >= 2:
                    held_vals.add(x[1][0])
            except Exception:
                pass
        for (x, tmax) in acked_cmds:
            if o.raftCurrentTerm <= tmax:
                continue          # a stale leader of an older term is not "a new leader"
            if x not in held_vals and not any(e == x for (_, e) in sim.execs[i]):
                v.append({"signature": "leader-completeness:acked-command-missing-on-leader",
                          "what": "node %s is leader of term %d but its log lacks command %r that was acknowledged with SUCCESS"
                                  % (i, o.raftCurrentTerm, x)})
    return v


def _acked(sim):
    """Commands acknowledged with SUCCESS so far, each with the highest term any node has now."""
    subs = {ev[4]: ev[2] for ev in sim.trace if ev[0] == "submit"}
    tmax = max(o.raftCurrentTerm for o in sim.objs.values())
    return [(subs[c], tmax) for (_, c, r, e) in sim.callbacks if e == 0 and c in subs]


def _among(sim, group, steps, dt=0.0625, tickers=None):
    for _ in range(steps):
        for i in (tickers if tickers is not None else group):
            sim.tick(i, dt)
        sim.deliver_all(among=set(group))


def _isolate(sim, x):
    for y in sim.voters:
        if y != x and frozenset((x, y)) in sim.alive:
            sim.disconnect(x, y)


def _elect(sim, cand, voters, max_steps=400):
    """Make `cand` time out until it leads, exchanging messages only inside `voters` (cand included)."""
    for _ in range(max_steps):
        if sim.objs[cand]._isLeader():
            return True
        sim.tick(cand, 0.0625)
        sim.deliver_all(among=set(voters))
    return sim.objs[cand]._isLeader()


def _elect_votes_only(sim, cand, voters, max_steps=400):
    """Like _elect, but nothing except vote traffic is delivered: the winner's append_entries are dropped."""
    for _ in range(max_steps):
        if sim.objs[cand]._isLeader():
            break
        sim.tick(cand, 0.0625)
        progress = True
        while progress:
            progress = False
            for a in voters:
                for b in voters:
                    q = sim.chan[(a, b)]
                    while q:
                        if q[0]["type"] in ("request_vote", "response_vote"):
                            sim.deliver(a, b)
                        else:
                            q.popleft()
                        progress = True
    for a in voters:
        for b in voters:
            sim.chan[(a, b)].clear()
    return sim.objs[cand]._isLeader()


def figure8(repo, seed):
    ids = ["s1", "s2", "s3", "s4", "s5"]
    sim = Sim(repo, ids, seed=seed, conf={"appendEntriesBatchSizeBytes": 64, "raftMinTimeout": 0.5,
                                          "raftMaxTimeout": 0.5625, "leaderFallbackTimeout": 1.0})
    watch = _watchers(sim)
    sim.connect_all()
    # (a) s1 leads term T1; everybody holds its no-op
    if not _elect(sim, "s1", ids):
        return sim, [], "s1 not elected"
    _among(sim, ids, 4, tickers=["s1"])
    watch.step()
    # s1 appends x and replicates it to s2 only
    for y in ("s3", "s4", "s5"):
        sim.disconnect("s1", y)
    cx = sim.submit("s1", "X" * 100)
    sim.tick("s1", 0.0625)
    sim.tick("s1", 0.125)
    sim.deliver_all(among={"s1", "s2"})
    watch.step()
    # (b) s5 wins the next term with s3, s4 and writes its no-op at the same index, on itself only
    sim.disconnect("s1", "s2")
    for _ in range(24):
        sim.tick("s1", 0.0625)               # s1 hears no majority and steps down
    if sim.objs["s1"]._isLeader():
        return sim, [], "s1 did not step down"
    for y in ("s2",):
        sim.disconnect("s5", y)
    if not _elect_votes_only(sim, "s5", ["s3", "s4", "s5"]):
        return sim, [], "s5 not elected"
    _isolate(sim, "s5")                      # its append_entries never arrive
    watch.step()
    # (c) s1 wins again (s2, s3 vote), replicates x to s3 but NOT its new no-op
    sim.connect("s1", "s2")
    sim.connect("s1", "s3")
    if not _elect_votes_only(sim, "s1", ["s1", "s2", "s3"]):
        return sim, [], "s1 not re-elected"
    # deliver to s3 only the messages that carry x (index of x = 3 in this schedule), drop the rest
    for _ in range(10):
        sim.tick("s1", 0.0625)
        q = sim.chan[("s1", "s3")]
        keep = []
        while q:
            m = q.popleft()
            ents = m.get("entries") or []
            # everything except messages that carry an entry of s1's new term (its no-op)
            if m["type"] != "append_entries" or all(e[2] < sim.objs["s1"].raftCurrentTerm for e in ents):
                keep.append(m)
        for m in keep:
            sim.inject("s1", "s3", m)
        while sim.deliver("s3", "s1"):
            pass
        sim.deliver_all(among={"s1", "s2"})
        watch.step()
    commit_s1 = sim.objs["s1"].raftCommitIndex
    acked_c = _acked(sim)
    # (d) s5 comes back, wins with s3 and s4 and overwrites the index
    _isolate(sim, "s1")
    sim.connect("s5", "s3")
    sim.connect("s5", "s4")
    sim.connect("s3", "s4")
    if not _elect(sim, "s5", ["s3", "s4", "s5"]):
        return sim, _finish(sim, watch, acked_c), None
    _among(sim, ["s3", "s4", "s5"], 10)
    watch.step()
    sim.connect_all()
    _among(sim, ids, 20)
    return sim, _finish(sim, watch, acked_c), None


def stale_match_reelection(repo, seed):
    """A node that leads twice must not count, in its second term of office, what followers acknowledged in its first:
    5 voters, four terms, message delays only.  Term 1: A replicates 3..5 to B only.  Term 2: C (votes of D, E) writes
    its no-op at 3, which reaches A only and replaces A's 3..5.  Term 3: A (votes of D, E) appends no-op and `from-A`,
    replicates to D only: A, D hold position 5 — no majority, whatever B acknowledged in term 1.  Term 4: C (votes of
    B, E) commits `from-C` at 5."""
    ids = ["a", "b", "c", "d", "e"]
    sim = Sim(repo, ids, seed=seed, conf={"raftMinTimeout": 0.5, "raftMaxTimeout": 0.5625, "leaderFallbackTimeout": 30.0})
    watch = _watchers(sim)
    sim.connect_all()
    if not _elect(sim, "a", ids):
        return sim, [], "a not elected"
    _among(sim, ids, 4, tickers=["a"])
    watch.step()
    for y in ("c", "d", "e"):
        sim.disconnect("a", y)
    for k in range(3):
        sim.submit("a", "A%d" % k)
    for _ in range(3):
        sim.tick("a", 0.125)
        sim.deliver_all(among={"a", "b"})
    watch.step()
    if sim.last_index("b") < 5:
        return sim, [], "b did not get a's entries"
    sim.disconnect("a", "b")
    if not _elect_votes_only(sim, "c", ["c", "d", "e"]):
        return sim, [], "c not elected"
    sim.connect("a", "c")
    for _ in range(4):
        sim.tick("c", 0.0625)
        sim.chan[("c", "d")].clear()
        sim.chan[("c", "e")].clear()
        while sim.deliver("c", "a"):
            pass
        while sim.deliver("a", "c"):
            pass
    watch.step()
    la = sim.log_of("a")
    if not (len(la) >= 3 and la[2][1] == sim.objs["c"].raftCurrentTerm):
        return sim, [], "a did not take c's entry"
    _isolate(sim, "c")
    sim.connect("a", "d")
    sim.connect("a", "e")
    if not _elect_votes_only(sim, "a", ["a", "d", "e"]):
        return sim, [], "a not elected again"
    sim.submit("a", "from-A")
    for _ in range(6):
        sim.tick("a", 0.0625)
        sim.chan[("a", "e")].clear()
        while sim.deliver("a", "d"):
            pass
        while sim.deliver("d", "a"):
            pass
        watch.step()
    acked = _acked(sim)
    _isolate(sim, "a")
    sim.connect("c", "b")
    sim.connect("c", "e")
    sim.connect("b", "e")
    if not _elect(sim, "c", ["b", "c", "e"]):
        return sim, _finish(sim, watch, acked), "c not elected in the end"
    sim.submit("c", "from-C")
    _among(sim, ["b", "c", "e"], 12)
    watch.step()
    sim.connect_all()
    _among(sim, ids, 24)
    return sim, _finish(sim, watch, acked), None


def truncated_then_committed(repo, seed):
    """An entry removed from ITS SUBMITTER's log can still be committed later from another node's copy: 5 voters.
    Term 1: leader a appends X (callback waiting on a), only b receives it.  Term 2: c (votes of d, e) writes its no-op at
    the same position, which reaches a only: a truncates X.  c dies.  Term 3: b (votes of d, e) replicates and commits
    X everywhere — also back onto a.  The callback of X may say SUCCESS (with X's own result) or nothing, never a
    failure that promises "not applied"."""
    ids = ["a", "b", "c", "d", "e"]
    sim = Sim(repo, ids, seed=seed, conf={"raftMinTimeout": 0.5, "raftMaxTimeout": 0.5625, "leaderFallbackTimeout": 30.0})
    watch = _watchers(sim)
    sim.connect_all()
    if not _elect(sim, "a", ids):
        return sim, [], "a not elected"
    _among(sim, ids, 4, tickers=["a"])
    watch.step()
    for y in ("c", "d", "e"):
        sim.disconnect("a", y)
    sim.disconnect("b", "c")
    sim.submit("a", "X")
    for _ in range(3):
        sim.tick("a", 0.125)
        sim.deliver_all(among={"a", "b"})
    watch.step()
    if sim.last_index("b") < 3:
        return sim, [], "b did not get X"
    sim.cut("a", "b")                       # silent: a keeps leading, b keeps X
    if not _elect_votes_only(sim, "c", ["c", "d", "e"]):
        return sim, [], "c not elected"
    sim.connect("a", "c")
    for _ in range(4):
        sim.tick("c", 0.0625)
        sim.chan[("c", "d")].clear()
        sim.chan[("c", "e")].clear()
        while sim.deliver("c", "a"):
            pass
        while sim.deliver("a", "c"):
            pass
    watch.step()
    la = sim.log_of("a")
    if not (len(la) >= 3 and la[2][1] == sim.objs["c"].raftCurrentTerm):
        return sim, [], "a did not take c's entry"
    early = [c for c in sim.callbacks]
    _isolate(sim, "c")
    sim.notice("a", "b")
    sim.notice("b", "a")
    sim.connect("a", "b")
    if not _elect(sim, "b", ["b", "d", "e"]):
        return sim, _finish(sim, watch), "b not elected"
    _among(sim, ["a", "b", "d", "e"], 24)
    watch.step()
    v = _finish(sim, watch, _acked(sim))
    if not any(x == "X" for (_, x) in sim.execs["a"]):
        return sim, v, "X was not committed in the end"
    return sim, v, None


def longer_older_log(repo, seed):
    sim = Sim(repo, ["a", "b", "c"], seed=seed,
              conf={"raftMinTimeout": 0.5, "raftMaxTimeout": 0.5625, "leaderFallbackTimeout": 1.0})
    watch = _watchers(sim)
    sim.connect_all()
    if not _elect(sim, "a", ["a", "b", "c"]):
        return sim, [], "a not elected"
    _among(sim, ["a", "b", "c"], 4, tickers=["a"])
    # a is cut off and appends three uncommitted commands
    _isolate(sim, "a")
    for k in range(3):
        sim.submit("a", "lost%d" % k)
    sim.tick("a", 0.0625)
    # b leads the next term, commits X on b and c
    if not _elect(sim, "b", ["b", "c"]):
        return sim, [], "b not elected"
    cx = sim.submit("b", "COMMITTED")
    _among(sim, ["b", "c"], 8)
    watch.step()
    acked = _acked(sim)
    # b is cut off; a has meanwhile stepped down (no majority heard); a (longer log, older last term) asks
    # c for its vote
    _isolate(sim, "b")
    for _ in range(24):
        sim.tick("a", 0.0625)
    if sim.objs["a"]._isLeader():
        return sim, [], "a did not step down"
    sim.connect("a", "c")
    for _ in range(120):
        sim.tick("a", 0.0625)
        sim.deliver_all(among={"a", "c"})
        watch.step()
        if sim.objs["a"]._isLeader():
            break
    v = _finish(sim, watch, acked)
    if not sim.objs["a"]._isLeader():
        _among(sim, ["a", "c"], 40)
        v = _finish(sim, watch, acked)
    return sim, v, None


def even_split(repo, seed):
    ids = ["a", "b", "c", "d"]
    sim = Sim(repo, ids, seed=seed, conf={"raftMinTimeout": 0.5, "raftMaxTimeout": 0.5625})
    watch = _watchers(sim)
    sim.connect_all()
    # a and c time out together; b hears a first, d hears c first
    sim.tick("a", 0.75)
    sim.tick("c", 0.75)
    sim.deliver("a", "b")
    sim.deliver("c", "d")
    sim.deliver_all()
    watch.step()
    v = _finish(sim, watch)
    _among(sim, ids, 60)
    v += _finish(sim, watch)
    return sim, v, None


def double_vote(repo, seed):
    sim = Sim(repo, ["a", "b", "v"], seed=seed)
    sim.up |= {("v", "a"), ("v", "b")}
    sim.alive |= {frozenset(("v", "a")), frozenset(("v", "b"))}
    rv = lambda t: {"type": "request_vote", "term": t, "last_log_index": 1, "last_log_term": 0}
    sim.inject("a", "v", rv(1))
    sim.inject("b", "v", rv(1))
    votes = [(d, m["term"]) for (s, d, m) in sim.sent if s == "v" and m["type"] == "response_vote"]
    v = []
    if len(set(d for d, t in votes if t == 1)) > 1:
        v.append({"signature": "election:vote-granted-twice-in-term",
                  "what": "voter v granted its vote in term 1 to %s" % sorted(set(d for d, t in votes))})
    return sim, v, None


def stale_tail_snapshot(repo, seed):
    """A node rejoins with an uncommitted CONFLICTING tail that reaches beyond the leader's snapshot position
    while the leader has compacted its log: the snapshot must be installed (the own entry at the snapshot's
    last index has another term), not skipped."""
    sim = Sim(repo, ["a", "b", "c"], seed=seed,
              conf={"raftMinTimeout": 0.5, "raftMaxTimeout": 0.5625, "leaderFallbackTimeout": 1.0,
                    "logCompactionBatchSize": 64})
    watch = _watchers(sim)
    sim.connect_all()
    if not _elect(sim, "a", ["a", "b", "c"]):
        return sim, [], "a not elected"
    _among(sim, ["a", "b", "c"], 4, tickers=["a"])
    _isolate(sim, "a")
    for k in range(8):
        sim.submit("a", "S%d" % k)
    sim.tick("a", 0.0625)
    if not _elect(sim, "b", ["b", "c"]):
        return sim, [], "b not elected"
    for k in range(5):
        sim.submit("b", "G%d" % k)
    _among(sim, ["b", "c"], 8)
    watch.step()
    sim.compact("b")
    _among(sim, ["b", "c"], 4)
    for _ in range(24):
        sim.tick("a", 0.0625)                # a steps down
    base_b = sim.log_of("b")[0][0]
    if base_b <= 2:
        return sim, [], "leader did not compact"
    sim.connect("a", "b")
    for _ in range(40):
        for i in ("a", "b", "c"):
            sim.tick(i, 0.0625)
        sim.deliver_all()
        watch.step()
    sim.connect("a", "c")
    _among(sim, ["a", "b", "c"], 10)
    v = _finish(sim, watch) + monitors.sm_state(sim)
    return sim, v, None


SCENARIOS = [("stale_tail_snapshot", stale_tail_snapshot), ("figure8", figure8), ("stale_match_reelection", stale_match_reelection), ("truncated_then_committed", truncated_then_committed), ("longer_older_log", longer_older_log), ("even_split", even_split),
             ("double_vote", double_vote)]


def run(ctx):
    import logging
    logging.getLogger("pysyncobj").setLevel(logging.CRITICAL)
    t0 = time.time()
    viols, cases, notes, samples, reached = [], 0, [], [], {}
    for name, fn in SCENARIOS:
        for sd in range(ctx.seed, ctx.seed + ctx.scale(2, 8)):
            sim, v, note = fn(ctx.repo, sd)
            cases += 1
            if note:
                notes.append("%s: %s" % (name, note))
            else:
                reached[name] = reached.get(name, 0) + 1
            for x in v:
                x["replay"] = {"component": "corr.core_directed", "scenario": name, "seed": sd}
            viols.extend(v)
            if len(samples) < 3 and not note:
                samples.append({"scenario": name, "seed": sd, "events": len(sim.trace),
                                "terms": [sim.objs[i].raftCurrentTerm for i in sim.voters]})
            if v:
                break
    r = {"name": "corr.core_directed", "cases": cases, "distinct": len(reached), "violations": viols[:6],
         "coverage": {"reached": reached, "notes": sorted(set(notes))[:6]}, "samples": samples,
         "wall_s": round(time.time() - t0, 2)}
    missing = [n for n, _ in SCENARIOS if n not in reached]
    if missing:
        r["inconclusive"] = "directed schedules did not reach their point: %s" % missing
    return r


def replay(ctx, violation):
    rp = violation.get("replay", {})
    fn = dict(SCENARIOS).get(rp.get("scenario"), figure8)
    sim, v, note = fn(ctx.repo, rp.get("seed", 1))
    return {"violated": bool(v), "violations": v[:5], "note": note}
