"""In-process socket fabric + world of real TCPTransport objects under virtual time (component `transport`, C14).

No PROPERTIES line: this is a library used by corr/transport_registry.py and witness/d2x_*.py.

What is real: pysyncobj.transport.TCPTransport, pysyncobj.tcp_connection.TcpConnection,
pysyncobj.tcp_server.TcpServer, pysyncobj.node.TCPNode/Node, pysyncobj.config.SyncObjConf.
What is faked: the `socket` module seen by tcp_connection / tcp_server (FakeSocketModule), the poller (FakePoller,
events are fired one at a time by the script), the clock (`monotonicTime` in transport / tcp_connection /
dns_resolver), DNS (identity), and the SyncObj that owns the transport (DummySyncObj: conf, _poller, encryptor=None,
addOnTickCallback, callbacks that only record).

Time unit: 1/1024 s, `monotonicTime()` returns fabric.now / 1024.0 (dyadic, so float comparisons are exact).
"""
import collections
import errno as _errno
import importlib
import pickle as _pickle
import socket as _real_socket
import struct
import sys
import zlib

READ, WRITE, ERROR = 1, 2, 4
TU = 1024.0


def load_pysyncobj(repo):
    """Import pysyncobj from `repo` (purging any copy imported from elsewhere)."""
    import os
    repo = os.path.abspath(repo)
    m = sys.modules.get("pysyncobj")
    if m is not None and not os.path.abspath(getattr(m, "__file__", "")).startswith(repo + os.sep):
        for k in [k for k in sys.modules if k == "pysyncobj" or k.startswith("pysyncobj.")]:
            del sys.modules[k]
    if repo not in sys.path:
        sys.path.insert(0, repo)
    mods = {}
    for name in ("transport", "tcp_connection", "tcp_server", "node", "config", "dns_resolver", "poller"):
        mods[name] = importlib.import_module("pysyncobj." + name)
    f = os.path.abspath(mods["transport"].__file__)
    if not f.startswith(repo + os.sep):
        raise RuntimeError("pysyncobj imported from %s, not from %s" % (f, repo))
    return mods


def frame(msg):
    data = zlib.compress(_pickle.dumps(msg), 3)
    return struct.pack("i", len(data)) + data


def unframe(chunk):
    return _pickle.loads(zlib.decompress(chunk[4:]))


# Arbitrary picklable values a stranger may send as the first frame of a connection (D77). Index = code - 100.
ARB = [None, 7, 1.5, b"x", ("a", 1), frozenset([1]), True, "", "readonlyX", -1, (),          # hashable, name nobody
       {"a": 1}, {1, 2}, bytearray(b"x"), {},                                                # unhashable, not a list
       [], [[1]], ["nosuchcommand"], [None], [{"a": 1}], ["status", "x"], [7]]               # lists


def arb_index(m):
    for idx, v in enumerate(ARB):
        if type(v) is type(m) and v == m:
            return idx
    return None


class FakeSock(object):
    def __init__(self, fabric, owner, alloc=True):
        self.fabric = fabric
        self.owner = owner
        self.sid = fabric.next_sid           # identity of the socket for the scripts (never reused)
        fabric.next_sid += 1
        fabric.socks[self.sid] = self
        # descriptor NUMBER in the owner's process: allocated like the OS does (see Fabric.alloc_fd); a socket in the
        # accept backlog gets its number when accept() returns it
        self.fd = fabric.alloc_fd(owner) if alloc else None
        self.kind = "new"            # new | connecting | established | listening | failed
        self.dest = None
        self.wire = None             # Wire once the SYN was accepted
        self.side = None             # 0 = client end, 1 = server end
        self.rx = collections.deque()  # byte chunks readable now
        self.eof = False             # FIN delivered (after rx drained recv returns b'')
        self.rst = False             # recv raises ECONNRESET
        self.so_error = 0
        self.closed = False
        self.acceptq = collections.deque()

    # --- API used by TcpConnection / TcpServer -------------------------------------------------
    def fileno(self):
        return self.fd

    def setsockopt(self, *a):
        pass

    def setblocking(self, f):
        pass

    def ioctl(self, *a):
        pass

    def getsockopt(self, level, opt):
        e, self.so_error = self.so_error, 0
        return e

    def bind(self, addr):
        if addr[1] in self.fabric.bind_fail:
            raise OSError(_errno.EADDRINUSE, "in use")
        self.dest = addr

    def listen(self, n):
        self.kind = "listening"
        self.fabric.listeners[self.dest[1]] = self

    def accept(self):
        if self.fabric.accept_errors.get(self.sid):
            raise OSError(self.fabric.accept_errors[self.sid].pop(0), "accept failed")
        if not self.acceptq:
            raise OSError(_errno.EAGAIN, "again")
        s = self.acceptq.popleft()
        s.fd = self.fabric.alloc_fd(s.owner)
        return s, ("peer", 0)

    def connect(self, addr):
        self.dest = addr
        self.fabric.log_connect(self)
        if self.fabric.connect_imm_fail(self.owner, addr):
            self.kind = "failed"
            raise OSError(_errno.ENETUNREACH, "unreachable")
        self.kind = "connecting"
        raise OSError(_errno.EINPROGRESS, "in progress")

    def send(self, data):
        oc = self.fabric.send_outcomes.popleft() if self.fabric.send_outcomes else "ok"
        if oc == "ok" and self.kind == "connecting":
            oc = "eagain"
        elif oc == "ok" and (self.wire is None or self.closed):
            oc = "epipe"
        self.fabric.sends.append((self.owner, self.sid, oc))
        if oc == "fail":
            raise OSError(_errno.ECONNRESET, "reset")
        if oc == "eagain":
            raise OSError(_errno.EAGAIN, "again")        # Linux: send() on a SYN_SENT non-blocking socket
        if oc == "epipe":
            raise OSError(_errno.EPIPE, "pipe")
        self.wire.inflight[self.side].append(bytes(data))
        return len(data)

    def recv(self, n):
        if self.rx:
            head = self.rx.popleft()
            if len(head) > n:         # at most one receive buffer per call
                self.rx.appendleft(head[n:])
                head = head[:n]
            return head
        if self.rst:
            raise OSError(_errno.ECONNRESET, "reset")
        if self.eof:
            return b""
        raise OSError(_errno.EAGAIN, "again")

    def close(self):
        if self.closed:
            return
        self.closed = True
        if self.fd is not None:
            self.fabric.free_fd(self.owner, self.fd, getattr(self, "inc", None))
        if self.kind == "listening":
            self.fabric.listeners.pop(self.dest[1], None)
        if self.wire is not None:
            self.wire.inflight[self.side].append(None)   # FIN travels behind the data


class Wire(object):
    """One established TCP connection: ends[0] = client socket, ends[1] = server-side socket."""

    def __init__(self, c, s):
        self.ends = [c, s]
        self.inflight = [collections.deque(), collections.deque()]  # [0]: client->server, [1]: server->client
        c.wire = self
        c.side = 0
        s.wire = self
        s.side = 1


class FakeSocketModule(object):
    """Stands in for the `socket` module inside pysyncobj.tcp_connection / pysyncobj.tcp_server."""
    error = OSError
    errno = _errno
    gaierror = _real_socket.gaierror
    AF_INET = _real_socket.AF_INET
    AF_INET6 = _real_socket.AF_INET6
    SOCK_STREAM = _real_socket.SOCK_STREAM
    SOL_SOCKET = _real_socket.SOL_SOCKET
    SO_SNDBUF = _real_socket.SO_SNDBUF
    SO_RCVBUF = _real_socket.SO_RCVBUF
    SO_REUSEADDR = _real_socket.SO_REUSEADDR
    SO_ERROR = _real_socket.SO_ERROR
    SO_KEEPALIVE = _real_socket.SO_KEEPALIVE
    IPPROTO_TCP = _real_socket.IPPROTO_TCP
    TCP_NODELAY = _real_socket.TCP_NODELAY
    TCP_KEEPIDLE = getattr(_real_socket, "TCP_KEEPIDLE", 4)
    TCP_KEEPINTVL = getattr(_real_socket, "TCP_KEEPINTVL", 5)
    TCP_KEEPCNT = getattr(_real_socket, "TCP_KEEPCNT", 6)
    inet_aton = staticmethod(_real_socket.inet_aton)
    inet_pton = staticmethod(_real_socket.inet_pton)

    def __init__(self, fabric):
        self.fabric = fabric

    def socket(self, family=None, type=None):
        return FakeSock(self.fabric, self.fabric.cur)


class FakePoller(object):
    def __init__(self):
        self.subs = {}

    def subscribe(self, descr, callback, eventMask):
        self.subs[descr] = (callback, eventMask)

    def unsubscribe(self, descr):
        self.subs.pop(descr, None)

    def poll(self, timeout):
        pass

    def fire(self, descr, mask):
        """Deliver one poll event (restricted to the subscribed mask). Returns False if nothing is subscribed."""
        if descr not in self.subs:
            return False
        cb, sub = self.subs[descr]
        m = mask & (sub | ERROR)
        if not m:
            return False
        cb(descr, m)
        return True


class IdentityResolver(object):
    def resolve(self, host):
        return host


class Fabric(object):
    def __init__(self):
        self.now = 4096
        self.next_sid = 100
        self.fd_mode = "lowest"      # "lowest": lowest free number, reused after close (what the OS does);
                                     # "monotone": never reused
        self.accept_errors = {}      # sid of a listening socket -> errnos its next accept() calls fail with
        self.fdtab = {}              # owner -> set of open descriptor numbers (one table per process)
        self.fdnext = {}
        self.fdinc = {}              # owner -> incarnation the table belongs to
        self.socks = {}
        self.listeners = {}          # port -> listening FakeSock
        self.cur = None              # owner index while a transport is executing
        self.imm_fail = set()        # ports for which the next connect() calls fail immediately
        self.bind_fail = set()
        self.send_outcomes = collections.deque()
        self.sends = []
        self.connects = []           # (owner, fd, port) log of connect() calls in the current step

    def time(self):
        return self.now / TU

    def alloc_fd(self, owner):
        tab = self.fdtab.setdefault(owner, set())
        if self.fd_mode == "lowest":
            n = 3
            while n in tab:
                n += 1
        else:
            n = self.fdnext.get(owner, 3)
            self.fdnext[owner] = n + 1
        tab.add(n)
        return n

    def free_fd(self, owner, fd, inc=None):
        if inc is not None and self.fdinc.get(owner, 0) != inc:
            return                   # a socket of a process that no longer exists
        self.fdtab.setdefault(owner, set()).discard(fd)

    def new_process(self, owner, inc):
        self.fdtab[owner] = set()
        self.fdnext[owner] = 3
        self.fdinc[owner] = inc

    def connect_imm_fail(self, owner, addr):
        return addr[1] in self.imm_fail

    def log_connect(self, sock):
        self.connects.append((sock.owner, sock.sid, sock.dest[1]))


class DummySyncObj(object):
    """Exactly what TCPTransport touches of its SyncObj: conf, _poller, encryptor, addOnTickCallback."""

    def __init__(self, conf):
        self.conf = conf
        self._poller = FakePoller()
        self.encryptor = None
        self.tick_cbs = []

    def addOnTickCallback(self, cb):
        self.tick_cbs.append(cb)


class World(object):
    """n real TCPTransports (index i, address 10.0.0.1:<4000+i>; i = None-addressed for a read-only self) on one fabric.

    Every call into a transport goes through `call`, which records in `self.out` the callbacks emitted, in order.
    Address order == index order (string order of the fixed-width ports).
    """

    def __init__(self, repo, n, readonly=(), retry=2048, timeout=4096, members=None):
        self.mods = load_pysyncobj(repo)
        self.fabric = Fabric()
        self.n = n
        self.readonly = set(readonly)
        self.retry = retry
        self.timeout = timeout
        self.out = []
        self.transports = []
        self.sobjs = []
        self.notify_viol = []         # notification-sequence violations noticed inside the callbacks
        self.last_fd = {}             # id(TcpConnection) -> descriptor number its last socket had
        self.conn_ids = {}            # id(TcpConnection) -> (owner, seq)
        self.conn_objs = []           # per owner: list of TcpConnection in creation order
        self.view = []                # per owner: set of node keys for which the last callback was "connected"
        self._patch()
        try:
            members = members if members is not None else [[j for j in range(n) if j != i and j not in self.readonly]
                                                           for i in range(n)]
            for i in range(n):
                self.conn_objs.append([])
                self.view.append(set())
                conf = self.mods["config"].SyncObjConf(connectionRetryTime=retry / TU, connectionTimeout=timeout / TU,
                                                       raftMinTimeout=0.25, raftMaxTimeout=0.5, bindRetryTime=1.0,
                                                       recvBufferSize=512)
                so = DummySyncObj(conf)
                self.sobjs.append(so)
                self.fabric.cur = i
                selfnode = None if i in self.readonly else self.node(i)
                t = self.mods["transport"].TCPTransport(so, selfnode, [self.node(j) for j in members[i]])
                self.fabric.cur = None
                self._wire_callbacks(i, t)
                self.transports.append(t)
        except Exception:
            self.close()
            raise

    # ---- naming --------------------------------------------------------------------------------
    @staticmethod
    def port(i):
        return 4000 + i

    @staticmethod
    def addr(i):
        return "10.0.0.1:%d" % (4000 + i)

    def node(self, i):
        return self.mods["node"].TCPNode(self.addr(i))

    def key(self, node):
        """Canonical node key: ['tcp', i] / ['ro', k] / None."""
        if node is None:
            return None
        if isinstance(node, self.mods["node"].TCPNode):
            return ["tcp", node.port - 4000]
        return ["ro", int(node.id)]

    def msgkey(self, m):
        """Classify a wire message into the model's alphabet."""
        if isinstance(m, str):
            if m == "readonly":
                return ["readonly"]
            if m.startswith("10.0.0.1:"):
                return ["addr", int(m.rsplit(":", 1)[1]) - 4000]
            if m.startswith("h") and m[1:].isdigit():
                return ["hash", int(m[1:])]
            idx = arb_index(m)
            return ["hash", 100 + idx] if idx is not None else ["reply"]
        if isinstance(m, dict) and "k" in m:
            return ["unhash", m["k"]]
        if isinstance(m, list):
            return ["util", 1 if m and isinstance(m[0], str) and m[0].lower() == "status" else 0]
        idx = arb_index(m)
        if idx is None:
            return ["other"]
        try:
            hash(m)
            return ["hash", 100 + idx]
        except TypeError:
            return ["unhash", 100 + idx]

    @staticmethod
    def mkmsg(mk):
        t = mk[0]
        if t == "readonly":
            return "readonly"
        if t == "addr":
            return World.addr(mk[1])
        if t == "hash":
            return "h%d" % mk[1]
        if t == "unhash":
            return {"k": mk[1]}
        if t == "util":
            return ["status"] if mk[1] else ["nosuchcmd"]
        if t == "arb":
            import copy
            return copy.deepcopy(ARB[mk[1]])
        raise ValueError(mk)

    # ---- patching ------------------------------------------------------------------------------
    def _patch(self):
        mods = self.mods
        fab = self.fabric
        world = self
        self._saved = []

        def setattr_(mod, name, val):
            self._saved.append((mod, name, getattr(mod, name)))
            setattr(mod, name, val)

        fsm = FakeSocketModule(fab)
        setattr_(mods["tcp_connection"], "socket", fsm)
        setattr_(mods["tcp_server"], "socket", fsm)
        for m in ("transport", "tcp_connection", "dns_resolver"):
            setattr_(mods[m], "monotonicTime", fab.time)
        res = IdentityResolver()
        setattr_(mods["node"], "globalDnsResolver", lambda: res)
        setattr_(mods["transport"], "globalDnsResolver", lambda: res)
        Real = mods["tcp_connection"].TcpConnection

        class RecordingTcpConnection(Real):
            def __init__(self, *a, **kw):
                Real.__init__(self, *a, **kw)
                o = fab.cur
                world.conn_ids[id(self)] = (o, len(world.conn_objs[o]))
                world.conn_objs[o].append(self)

        setattr_(mods["transport"], "TcpConnection", RecordingTcpConnection)
        setattr_(mods["tcp_server"], "TcpConnection", RecordingTcpConnection)

    def close(self):
        for mod, name, val in reversed(getattr(self, "_saved", [])):
            setattr(mod, name, val)
        self._saved = []

    def _wire_callbacks(self, i, t):
        out = self.out
        key = self.key
        view = self.view

        def on_msg(node, msg):
            out.append(["deliver", key(node), self.msgkey(msg)])

        def twice(kind, node):
            # admissible sequence per (transport, node), from the property text and the behaviour of the repaired tree:
            # "disconnected" may repeat (every failed attempt of the dialling side reports one), but "connected" is
            # never reported for a node whose last notification already was "connected" - also not when a new
            # incoming connection replaces a half-open one: that is reported as disconnected, then connected
            if repr(key(node)) in view[i]:
                self.notify_viol.append({
                    "signature": "transport.notify:connected-twice-without-disconnect",
                    "what": "transport %d: %s(%r) although the last notification for that node already was 'connected' "
                            "(no disconnect reported in between: the loss of the previous connection was never "
                            "announced)" % (i, kind, key(node))})

        TCPNode = self.mods["node"].TCPNode

        def kind(cb, node, want_member):
            # the kind of notification matches the kind of node: member callbacks for TCPNode members, read-only
            # callbacks only for the ids handed to peers that introduced themselves as read-only
            if node is None or isinstance(node, TCPNode) != want_member:
                self.notify_viol.append({
                    "signature": "transport.notify:wrong-kind-of-notification",
                    "what": "transport %d: %s(%r) - %s" % (
                        i, cb, key(node),
                        "a read-only notification for a member (its member notification never comes: a member reported "
                        "connected is never reported disconnected)" if not want_member else
                        "a member notification for a node that is no member address")})

        def on_conn(node):
            kind("onNodeConnected", node, True)
            twice("onNodeConnected", node)
            out.append(["nodeConn", key(node)])
            view[i].add(repr(key(node)))

        def on_disc(node):
            kind("onNodeDisconnected", node, True)
            out.append(["nodeDisc", key(node)])
            view[i].discard(repr(key(node)))

        def on_roconn(node):
            kind("onReadonlyNodeConnected", node, False)
            twice("onReadonlyNodeConnected", node)
            out.append(["roConn", key(node)])
            view[i].add(repr(key(node)))

        def on_rodisc(node):
            kind("onReadonlyNodeDisconnected", node, False)
            out.append(["roDisc", key(node)])
            view[i].discard(repr(key(node)))

        def on_status(args, callback):
            out.append(["utility"])
            callback("status-reply", None)

        t.setOnMessageReceivedCallback(on_msg)
        t.setOnNodeConnectedCallback(on_conn)
        t.setOnNodeDisconnectedCallback(on_disc)
        t.setOnReadonlyNodeConnectedCallback(on_roconn)
        t.setOnReadonlyNodeDisconnectedCallback(on_rodisc)
        t.setOnUtilityMessageCallback("status", on_status)

    # ---- running things ------------------------------------------------------------------------
    def call(self, i, fn, imm_fail=(), send_outcomes=()):
        """Run fn() as transport i; returns (result-or-exception-name, outputs)."""
        fab = self.fabric
        fab.cur = i
        fab.imm_fail = set(self.port(j) for j in imm_fail)
        fab.send_outcomes = collections.deque(send_outcomes)
        fab.sends = []
        fab.connects = []
        del self.out[:]
        try:
            r = fn()
        except Exception as e:      # the exception class is an output
            r = None
            self.out.append(["raised", type(e).__name__])
        finally:
            fab.cur = None
            fab.imm_fail = set()
            fab.send_outcomes = collections.deque()
            if isinstance(i, int) and i < len(self.conn_objs):
                for c in self.conn_objs[i]:
                    sk = c._TcpConnection__socket
                    if sk is not None and sk.fd is not None:
                        self.last_fd[id(c)] = sk.fd
        return r, list(self.out)

    def conn_sock(self, conn):
        return conn._TcpConnection__socket

    def conn_of(self, i, cid):
        return self.conn_objs[i][cid]

    def fire(self, i, cid, mask, **kw):
        """Fire a poll event on the *current* socket of connection object cid of transport i."""
        conn = self.conn_objs[i][cid]
        fd = conn.fileno()
        if fd is None:
            return None, []
        return self.call(i, lambda: self.sobjs[i]._poller.fire(fd, mask), **kw)

    # ---- abstraction of one transport ----------------------------------------------------------
    def abstract(self, i):
        t = self.transports[i]
        TCPNode = self.mods["node"].TCPNode
        conns = []
        for cid, c in enumerate(self.conn_objs[i]):
            conns.append([cid, c.state, int(round(c._TcpConnection__lastReadTime * TU))])
        reg = sorted([[self.key(nd), self.conn_ids[id(c)][1]] for nd, c in t._connections.items()], key=repr)
        for nd, c in t._connections.items():
            assert self.conn_ids[id(c)][0] == i
        return {
            "nodes": sorted(nd.port - 4000 for nd in t._nodes),
            "addrs": sorted(int(a.rsplit(":", 1)[1]) - 4000 for a in t._nodeAddrToNode),
            "ro": sorted(int(nd.id) for nd in t._readonlyNodes),
            "roCounter": t._readonlyNodesCounter,
            "reg": reg,
            "unknown": sorted(self.conn_ids[id(c)][1] for c in t._unknownConnections),
            "last": sorted([nd.port - 4000, int(round(v * TU))] for nd, v in t._lastConnectAttempt.items()),
            "conns": conns,
            "prevent": sorted(nd.port - 4000 for nd in t._preventConnectNodes if isinstance(nd, TCPNode)),
            "view": sorted(self.view[i]),
        }


# ================================================================================================
# World-level actions.  Every action runs the real code of at most one transport and returns a list of
# "steps": (instance, model_line, outputs) — the same event in the Lean driver's vocabulary plus what the
# real code emitted.  The caller feeds model_line to `driver transport` and diffs.
# ================================================================================================
def split_frames(chunk):
    res = []
    i = 0
    while i + 4 <= len(chunk):
        l = struct.unpack("i", chunk[i:i + 4])[0]
        if l < 0 or i + 4 + l > len(chunk):
            break                     # incomplete tail: stays in the read buffer
        res.append(_pickle.loads(zlib.decompress(chunk[i + 4:i + 4 + l])))
        i += 4 + l
    return res


RST = "RST"


class Sim(World):
    def __init__(self, repo, n, readonly=(), retry=2048, timeout=4096, members=None, fds="lowest"):
        World.__init__(self, repo, n, readonly=readonly, retry=retry, timeout=timeout, members=members)
        self.fabric.fd_mode = fds     # constructors create no sockets, so setting it here covers every allocation
        self.members = [set(j for j in range(n) if j != i and j not in self.readonly) for i in range(n)] \
            if members is None else [set(m) for m in members]
        self.wires = []
        self.strangers = []          # raw client sockets driven by the script
        self.incarnation = [0] * n
        self.cov = collections.Counter()
        self.deliveries = []         # (at, source key, true origin, member?) for the monitors
        self.alive = [True] * n
        self.extra_viol = []         # violations noticed inside an action (drained by monitor())
        self.tainted = set()         # (i, j): somebody who is not j told i "I am j" although i dials j (outside C14)

    # ---- model lines ---------------------------------------------------------------------------
    def init_line(self, i):
        me = -1 if i in self.readonly else i
        t = self.transports[i]
        others = sorted(nd.port - 4000 for nd in t._nodes)
        return "init %d %d %d %d %d %d %s" % (i, me, self.retry, self.timeout, self.fabric.now, len(others),
                                              " ".join(map(str, others)))

    @staticmethod
    def msg_tok(mk, reply_fail=False):
        t = mk[0]
        if t == "addr":
            return "A%d" % mk[1]
        if t == "readonly":
            return "R"
        if t == "util":
            return "U%d%d" % (mk[1], 1 if reply_fail else 0)
        if t == "hash":
            return "H%d" % mk[1]
        if t == "unhash":
            return "X%d" % mk[1]
        raise ValueError(mk)

    @staticmethod
    def key_tok(key):
        return "%s %d" % ("T" if key[0] == "tcp" else "R", key[1])

    # ---- lookups -------------------------------------------------------------------------------
    def cid_of_sock(self, i, sock):
        """The connection object of transport i that currently owns this socket (identity, not descriptor number:
        numbers are reused)."""
        for cid, c in enumerate(self.conn_objs[i]):
            if c._TcpConnection__socket is sock:
                return cid
        return None

    def owner_live(self, sock):
        o = sock.owner
        return isinstance(o, int) and self.alive[o] and getattr(sock, "inc", 0) == self.incarnation[o]

    def connecting_socks(self):
        return [s for s in self.fabric.socks.values()
                if s.kind == "connecting" and s.wire is None and not s.closed and self.owner_live(s)]

    def pending_connected(self):
        """client sockets whose SYN was answered but whose owner has not seen the WRITE event yet"""
        return [s for s in self.fabric.socks.values()
                if s.kind == "connecting" and s.wire is not None and not s.closed and self.owner_live(s)]

    # ---- actions -------------------------------------------------------------------------------
    def a_advance(self, dt):
        self.fabric.now += dt
        self.cov["advance"] += 1
        return [(i, "adv %d %d" % (i, dt), []) for i in range(self.n) if self.alive[i]]

    def a_tick(self, i, imm_fail=()):
        before = len(self.fabric.socks)
        r, out = self.call(i, self.transports[i]._onTick, imm_fail=imm_fail)
        for s in list(self.fabric.socks.values())[before:]:
            s.inc = self.incarnation[i]
        self.cov["tick"] += 1
        self.cov["tick.connects=%d" % min(len(self.fabric.connects), 2)] += 1
        f = sorted(imm_fail)
        return [(i, "tick %d %d %s" % (i, len(f), " ".join(map(str, f))), out)]

    def _stamp(self, i, before):
        for s in list(self.fabric.socks.values())[before:]:
            if s.owner == i and not hasattr(s, "inc"):
                s.inc = self.incarnation[i]

    def a_syn_ok(self, sock):
        """The kernel of the destination answers the SYN: connection established at TCP level (backlog)."""
        lst = self.fabric.listeners.get(sock.dest[1])
        if lst is None:
            return None
        j = lst.owner
        ss = FakeSock(self.fabric, j, alloc=False)
        ss.inc = self.incarnation[j]
        ss.kind = "established"
        w = Wire(sock, ss)
        self.wires.append(w)
        lst.acceptq.append(ss)
        self.cov["syn_ok"] += 1
        return []

    def a_accept(self, j):
        lst = self.fabric.listeners.get(self.port(j))
        if lst is None or not lst.acceptq or lst.owner != j:
            return None
        lst.acceptq[0].heard = self.fabric.now
        r, out = self.call(j, lambda: self.sobjs[j]._poller.fire(lst.fd, READ))
        self.cov["accept"] += 1
        return [(j, "accept %d" % j, out)]

    def a_accept_error(self, j, err="ECONNABORTED"):
        """The listening socket of j is readable but accept() fails for that one connection (the peer reset it before
        it was accepted: ECONNABORTED; out of descriptors: EMFILE). Not a model event: the registry is untouched."""
        lst = self.fabric.listeners.get(self.port(j))
        if lst is None or lst.owner != j or lst.closed:
            return None
        self.fabric.accept_errors.setdefault(lst.sid, []).append(getattr(_errno, err))
        r, out = self.call(j, lambda: self.sobjs[j]._poller.fire(lst.fd, READ))
        self.cov["accept_error." + err] += 1
        if self.fabric.listeners.get(self.port(j)) is not lst or lst.closed or \
                lst.fd not in self.sobjs[j]._poller.subs:
            self.extra_viol.append({
                "signature": "tcp_server.accept:listening-socket-closed-after-one-failed-accept",
                "what": "transport %d: accept() failed once with %s and the server stopped listening; nothing binds it "
                        "again (TCPTransport.ready stays True): members with a larger address can never reach this node "
                        "again" % (j, err)})
        for o in out:
            if o[0] == "raised":
                self.extra_viol.append({"signature": "transport.poll:exception-escapes-event-loop",
                                        "what": "transport %d: %s escapes the accept callback" % (j, o[1])})
        return []

    def a_client_event(self, sock, send_fail=False, imm_fail=False):
        """WRITE event on a client socket whose SYN was answered."""
        i = sock.owner
        cid = self.cid_of_sock(i, sock)
        if cid is None:
            return None
        sock.kind = "established"
        sock.heard = self.fabric.now      # connection established: the read timeout counts from here
        before = len(self.fabric.socks)
        r, out = self.call(i, lambda: self.sobjs[i]._poller.fire(sock.fd, WRITE),
                           imm_fail=[sock.dest[1] - 4000] if imm_fail else (),
                           send_outcomes=["fail"] if send_fail else ())
        self._stamp(i, before)
        self.cov["connected"] += 1
        if send_fail:
            self.cov["connected.sendfail"] += 1
        return [(i, "pollok %d %d %d %d" % (i, cid, 1 if send_fail else 0, 1 if imm_fail else 0), out)]

    def a_conn_error(self, sock, style, imm_fail=False):
        """Error on a socket of a live transport. style: 'mask' (POLLERR), 'soerr' (SO_ERROR), 'rst' (recv raises),
        'eof' (recv returns b'')."""
        i = sock.owner
        cid = self.cid_of_sock(i, sock)
        if cid is None:
            return None
        if style == "mask":
            mask = ERROR
        elif style == "soerr":
            sock.so_error = _errno.ECONNREFUSED
            mask = READ | WRITE
        elif style == "rst":
            sock.rx.clear()
            sock.rst = True
            mask = READ
        else:
            sock.rx.clear()
            sock.eof = True
            mask = READ
        st0 = self.conn_objs[i][cid].state
        c0 = self.conn_objs[i][cid]
        if c0._TcpConnection__readBuffer and c0._TcpConnection__onConnected is not None:
            self.cov["connerr.mid-frame-on-dialled-object"] += 1   # a torn frame on an object that will be re-used
        before = len(self.fabric.socks)
        r, out = self.call(i, lambda: self.sobjs[i]._poller.fire(sock.fd, mask),
                           imm_fail=[self._peer_index(sock)] if imm_fail and self._peer_index(sock) is not None else ())
        self._stamp(i, before)
        if sock.kind == "connecting":
            sock.kind = "failed"
        self.cov["connerr." + style] += 1
        self.cov["connerr.from_state=%d" % st0] += 1
        f = 1 if imm_fail and self._peer_index(sock) is not None else 0
        return [(i, "connerr %d %d %d" % (i, cid, f), out)]

    def _peer_index(self, sock):
        if sock.side == 0 or sock.wire is None:
            return sock.dest[1] - 4000 if sock.dest else None
        return None

    def a_poll_idle(self, i, cid, imm_fail=False):
        """A WRITE event on the current socket of object cid (only if the code subscribed for WRITE)."""
        conn = self.conn_objs[i][cid]
        sock = conn._TcpConnection__socket
        if sock is None or sock.fd is None:
            return None
        fd = sock.fd
        sub = self.sobjs[i]._poller.subs.get(fd)
        if sub is None or not (sub[1] & WRITE):
            return None
        if sock.kind == "connecting":
            return None               # not writable yet
        pj = self._peer_index(sock)
        before = len(self.fabric.socks)
        r, out = self.call(i, lambda: self.sobjs[i]._poller.fire(fd, WRITE),
                           imm_fail=[pj] if imm_fail and pj is not None else ())
        self._stamp(i, before)
        self.cov["poll_idle"] += 1
        return [(i, "pollok %d %d 0 %d" % (i, cid, 1 if imm_fail and pj is not None else 0), out)]

    def a_deliver(self, w, side, k=99, reply_fail=False, imm_fail=False, nbytes=None):
        """Move up to k in-flight items of direction `side` of wire w to the receiving socket and fire READ.
        nbytes: slow link - only the first nbytes of the head chunk arrive now (a fragment of a frame)."""
        dst = w.ends[1 - side]
        q = w.inflight[side]
        if not q:
            return None
        if dst.kind == "connecting":
            return None               # its owner has not processed the connect yet: that event comes first
        if any(dst in l.acceptq for l in self.fabric.listeners.values()):
            return None               # still in the accept backlog: the data waits in the kernel
        moved = []
        if nbytes is not None:
            if not isinstance(q[0], bytes) or len(q[0]) <= nbytes:
                nbytes = None
                k = 1
            else:
                moved.append(q[0][:nbytes])
                q[0] = q[0][nbytes:]
                k = 0
                self.cov["deliver.fragment"] += 1
        while q and k > 0:
            k -= 1
            it = q.popleft()
            moved.append(it)
            if it is None or it == RST:
                break
        if dst in self.strangers:
            return []
        if not self.owner_live(dst) or dst.closed:
            # nobody is listening any more: a live kernel answers data with RST
            if not dst.closed and any(isinstance(x, bytes) for x in moved):
                w.inflight[1 - side].append(RST)
            self.cov["deliver.dead"] += 1
            return []
        i = dst.owner
        cid = self.cid_of_sock(i, dst)
        if cid is None:
            self.cov["deliver.noconn"] += 1
            return []
        # complete frames left in the read buffer by an earlier event that ended in an exception come first
        buffered = self.conn_objs[i][cid]._TcpConnection__readBuffer
        if split_frames(buffered):
            self.cov["deliver.leftover"] += 1
        if buffered and not split_frames(buffered):
            self.cov["deliver.continues-partial-frame"] += 1
        msgs = []
        term = None
        for it in moved:
            if it is None:
                dst.eof = True
                term = "eof"
            elif it == RST:
                dst.rst = True
                dst.rx.clear()
                term = "rst"
            else:
                dst.rx.append(it)
        # complete frames in what the connection will hold after this read (bytes already buffered + new ones)
        msgs = split_frames(bytes(buffered) + b"".join(x for x in moved if isinstance(x, bytes)))
        conn = self.conn_objs[i][cid]
        pj = self._peer_index(dst)
        f = 1 if imm_fail and pj is not None else 0
        mks = [self.msgkey(m) for m in msgs]
        outcomes = ()
        use_rf = reply_fail and term is None and len(mks) == 1 and mks[0] == ["util", 1] and \
            conn in self.transports[i]._unknownConnections
        if use_rf:
            outcomes = ["fail"]
        origin = self.true_origin(dst)
        live_ro = set()
        for cobj in self.conn_objs[i]:
            if cobj.state == 2:
                b = self.bound_node(cobj)
                if b is not None and b[0] == "ro":
                    live_ro.add(b[1])
        prev_heard = getattr(dst, "heard", None)
        bound = self.bound_node(conn)
        in_unknown = conn in self.transports[i]._unknownConnections
        honest = origin is not None and origin[0] in ("tcp", "ro") and \
            not (origin[0] == "tcp" and (origin[1], i) in self.tainted)
        if term is None:
            dst.heard = self.fabric.now   # something arrived from the peer
        # coverage: the first message names a member whose registered (closed) object last lived on the descriptor
        # number this accepted socket has now (lowest-free allocation), so the D52 path calls disconnect() on it
        reuse_old = None
        t_i = self.transports[i]
        if mks and mks[0][0] == "addr" and conn in t_i._unknownConnections:
            old = t_i._connections.get(self.node(mks[0][1]))
            if old is not None and old is not conn and old.state == 0 and self.last_fd.get(id(old)) == dst.fd:
                reuse_old = old
        was_connected = conn.state == 2
        before = len(self.fabric.socks)
        r, out = self.call(i, lambda: self.sobjs[i]._poller.fire(dst.fd, READ),
                           imm_fail=[pj] if f else (), send_outcomes=outcomes)
        self._stamp(i, before)
        if reuse_old is not None and t_i._connections.get(self.node(mks[0][1])) is conn:
            self.cov["guard.fd-reuse.stale-disconnect"] += 1
        if r is False and was_connected and term is None and conn._TcpConnection__socket is dst:
            self.extra_viol.append({
                "signature": "transport.deliver:connected-but-deaf",
                "what": "transport %d: data written by the peer arrived on the socket (descriptor %d) of CONNECTED "
                        "connection object %d, but the poller has no subscription for that descriptor: nothing the peer "
                        "sends is delivered" % (i, dst.fd, cid)})
        now = self.fabric.now
        if bound is not None and was_connected and term is None and prev_heard is not None and \
                now - prev_heard <= self.timeout and r is not False:
            if conn._TcpConnection__socket is not dst:
                self.extra_viol.append({
                    "signature": "transport.timeout:disconnected-while-data-keeps-arriving",
                    "what": "transport %d closed the connection of %r on a read event at t=%d although bytes last arrived "
                            "on it at t=%d (gap %d <= connectionTimeout %d): a message that takes longer than the timeout "
                            "to transfer can never get through" % (i, bound, now, prev_heard, now - prev_heard,
                                                                  self.timeout)})
            else:
                got = [o[2] for o in out if o[0] == "deliver"]
                if got != mks:
                    self.extra_viol.append({
                        "signature": "transport.deliver:complete-message-not-delivered-once",
                        "what": "transport %d, connection of %r: complete frames %r were readable, delivered %r"
                                % (i, bound, mks, got)})
        if any(o[0] == "raised" for o in out):
            # C13/C14: whatever arrives, from a member or from a stranger, no exception escapes the event loop
            self.extra_viol.append({
                "signature": "transport.poll:exception-escapes-event-loop",
                "what": "transport %d: %s escapes the poll callback while reading frames %r sent by %r; the rest of the "
                        "poll pass is skipped and the connection stays %s" % (
                            i, [o[1] for o in out if o[0] == "raised"], mks[:2], origin,
                            "in _unknownConnections" if conn in self.transports[i]._unknownConnections else "open")})
        if honest and in_unknown and term is None and mks and r is not False and was_connected and \
                prev_heard is not None and self.fabric.now - prev_heard <= self.timeout and \
                mks[0] == (["addr", origin[1]] if origin[0] == "tcp" else ["readonly"]) and \
                (origin[0] == "ro" or origin[1] in self.members[i]) and not any(o[0] == "raised" for o in out):
            # merged read: the introduction and the frames behind it arrive in one read pass; everything behind the
            # introduction is delivered, once, in order, by the handler installed by the introduction
            got = [o[2] for o in out if o[0] == "deliver"]
            if got != mks[1:]:
                self.extra_viol.append({
                    "signature": "transport.deliver:complete-message-not-delivered-once",
                    "what": "transport %d: one read pass carried the introduction of %r and frames %r; delivered %r"
                            % (i, origin, mks[1:], got)})
            if len(mks) > 1:
                self.cov["deliver.merged-with-introduction"] += 1
        if honest and in_unknown and term is None and mks:
            want = ["addr", origin[1]] if origin[0] == "tcp" else ["readonly"]
            if mks[0] != want:
                self.extra_viol.append({
                    "signature": "transport.handshake:first-frame-not-the-address",
                    "what": "transport %d: the first frame on a connection dialled by %r is %r, not its address"
                            % (i, origin, mks[0])})
        for o in out:
            if o[0] == "roConn" and o[1][1] in live_ro:
                # C18 / C14: ids of read-only nodes are identities; two connected ones never share one
                self.extra_viol.append({
                    "signature": "transport.readonly:id-reused-while-connected",
                    "what": "transport %d gave the read-only id %r to a newly connected read-only node while another "
                            "read-only node with that id is still connected%s" % (
                                i, str(o[1][1]),
                                " (its connection was closed as a stale duplicate)" if any(x[0] == "roDisc" for x in out)
                                else "")})
        for o in out:
            if o[0] == "deliver":
                self.deliveries.append({"at": i, "source": o[1], "origin": origin, "msg": o[2],
                                        "member": o[1][0] == "ro" or o[1][1] in self.members[i]})
        if term is not None:
            self.cov["deliver." + term] += 1
            return [(i, "connerr %d %d %d" % (i, cid, f), out)]
        self.cov["deliver.data"] += 1
        self.cov["deliver.msgs=%d" % min(len(mks), 3)] += 1
        toks = [self.msg_tok(mk, use_rf) for mk in mks]
        return [(i, "recv %d %d %d %d %s" % (i, cid, f, len(toks), " ".join(toks)), out)]

    def true_origin(self, dst):
        """Who really is at the other end of the wire of socket dst: ['tcp', j] / ['stranger', claimed] / None."""
        w = dst.wire
        if w is None:
            return None
        peer = w.ends[1 - dst.side]
        if peer in self.strangers:
            return ["stranger"]
        if dst.side == 1:
            o = peer.owner
            return ["ro"] if o in self.readonly else ["tcp", o]
        return ["tcp", dst.dest[1] - 4000]

    def a_send(self, i, key, payload, send_fail=False, imm_fail=False, size=0):
        t = self.transports[i]
        node = self.node(key[1]) if key[0] == "tcp" else self.mods["node"].Node(str(key[1]))
        before = len(self.fabric.socks)
        msg = {"k": payload}
        if size:
            import random as _random
            msg["pad"] = _random.Random(payload).randbytes(size)   # incompressible: the frame really is that large
            self.cov["send.big"] += 1
        conn0 = t._connections.get(node)
        sk0 = conn0._TcpConnection__socket if conn0 is not None else None
        st0 = conn0.state if conn0 is not None else None
        heard0 = getattr(sk0, "heard", None)
        r, out = self.call(i, lambda: t.send(node, msg),
                           imm_fail=[key[1]] if imm_fail and key[0] == "tcp" else (),
                           send_outcomes=["fail"] if send_fail else ())
        self._stamp(i, before)
        if not (out and out[-1][0] == "raised"):
            out.append(["sendResult", 1 if r else 0])
        if st0 is not None:
            self.cov["send.from_state=%d" % st0] += 1
        if not r and not any(o[0] == "raised" for o in out):
            # send() == False means "not sent": nothing of the message may be on the wire or queued for it
            conn1 = t._connections.get(node)
            queued = conn1.getSendBufferSize() if conn1 is not None else 0
            wrote = [x for x in self.fabric.sends if x[2] == "ok"]
            if queued or wrote:
                self.extra_viol.append({
                    "signature": "transport.send:false-but-message-queued",
                    "what": "transport %d: send(%r) returned False (connection state before: %r) but the message was "
                            "%s: it travels ahead of / without the handshake" % (
                                i, key, st0, "written to the socket" if wrote else
                                "left in the write buffer (%d bytes)" % queued)})
        if st0 == 2 and not send_fail and heard0 is not None and self.fabric.now - heard0 <= self.timeout and \
                conn0._TcpConnection__socket is not sk0:
            self.extra_viol.append({
                "signature": "transport.timeout:disconnected-while-data-keeps-arriving",
                "what": "transport %d: send(%r) at t=%d closed the connection as timed out although bytes last arrived on it "
                        "at t=%d (connectionTimeout %d)" % (i, key, self.fabric.now, heard0, self.timeout)})
        if r:
            # C14 "notifications match the ability to exchange messages" / read timeout: send() must not claim success
            # over a connection whose peer has been completely silent for longer than connectionTimeout
            conn = t._connections.get(node)
            sk = conn._TcpConnection__socket if conn is not None else None
            heard = getattr(sk, "heard", None)
            if heard is not None and self.fabric.now - heard > self.timeout:
                self.extra_viol.append({
                    "signature": "transport.timeout:silent-peer-not-disconnected",
                    "what": "transport %d: send(%r) returned True at t=%d although nothing has arrived on that connection "
                            "since t=%d (connectionTimeout %d): the silent peer was never reported disconnected, no "
                            "reconnect attempted" % (i, key, self.fabric.now, heard, self.timeout)})
        self.cov["send"] += 1
        self.cov["send.result=%s" % bool(r)] += 1
        f = 1 if imm_fail and key[0] == "tcp" else 0
        return [(i, "send %d %s %d %d" % (i, self.key_tok(key), 1 if send_fail else 0, f), out)]

    def a_add(self, i, j):
        r, out = self.call(i, lambda: self.transports[i].addNode(self.node(j)))
        self.members[i].add(j)
        self.cov["addNode"] += 1
        return [(i, "add %d %d" % (i, j), out)]

    def a_drop(self, i, key):
        node = self.node(key[1]) if key[0] == "tcp" else self.mods["node"].Node(str(key[1]))
        r, out = self.call(i, lambda: self.transports[i].dropNode(node))
        if key[0] == "tcp":
            self.members[i].discard(key[1])
        self.cov["dropNode"] += 1
        return [(i, "drop %d %s" % (i, self.key_tok(key)), out)]

    def a_stranger_connect(self, j):
        lst = self.fabric.listeners.get(self.port(j))
        if lst is None:
            return None
        cs = FakeSock(self.fabric, "S")
        cs.kind = "established"
        cs.dest = ("10.0.0.1", self.port(j))
        self.strangers.append(cs)
        ss = FakeSock(self.fabric, j, alloc=False)
        ss.inc = self.incarnation[j]
        ss.kind = "established"
        w = Wire(cs, ss)
        self.wires.append(w)
        lst.acceptq.append(ss)
        self.cov["stranger"] += 1
        return w

    def a_stranger_send(self, w, mk):
        if w.ends[0].closed:
            return None
        w.inflight[0].append(frame(self.mkmsg(mk)))
        i = w.ends[1].owner
        if mk[0] == "addr" and (i in self.readonly or i > mk[1]):
            self.tainted.add((i, mk[1]))
        self.cov["stranger.msg." + mk[0]] += 1
        if mk[0] == "arb":
            self.cov["stranger.arb.%s" % type(ARB[mk[1]]).__name__] += 1
        return []

    def a_restart(self, i, silent):
        """Abandon transport i (kill -9 of the process: `silent` = the peers get neither FIN nor RST until they
        send something) and start a new one on the same address."""
        for s in self.fabric.socks.values():
            if s.owner == i and getattr(s, "inc", 0) == self.incarnation[i] and not s.closed:
                if s.kind == "listening":
                    self.fabric.listeners.pop(s.dest[1], None)
                    s.closed = True
                elif not silent:
                    s.close()
        self.incarnation[i] += 1
        self.fabric.new_process(i, self.incarnation[i])
        self.conn_objs[i] = []
        self.view[i] = set()
        conf = self.sobjs[i].conf
        so = DummySyncObj(conf)
        self.sobjs[i] = so
        self.fabric.cur = i
        before = len(self.fabric.socks)
        selfnode = None if i in self.readonly else self.node(i)
        t = self.mods["transport"].TCPTransport(so, selfnode, [self.node(j) for j in sorted(self.members[i])])
        self.fabric.cur = None
        self._stamp(i, before)
        self._wire_callbacks(i, t)
        self.transports[i] = t
        self.cov["restart." + ("silent" if silent else "fin")] += 1
        return [(i, self.init_line(i), [])]

    # ---- property monitors on the real objects (C14 statement) -----------------------------------
    def bound_node(self, conn):
        """The node a connection object delivers as (None while it is in the handshake)."""
        cb = conn._TcpConnection__onMessageReceived
        f = getattr(cb, "func", None)
        if f is not None and getattr(f, "__name__", "") == "_onMessageReceived":
            return self.key(cb.args[0])
        return None

    def monitor(self):
        """Evaluate the state clauses of C14 on every live transport; returns a list of violations."""
        v = list(self.extra_viol) + list(self.notify_viol)
        del self.extra_viol[:]
        del self.notify_viol[:]
        for i in range(self.n):
            if not self.alive[i]:
                continue
            t = self.transports[i]
            live = collections.Counter()
            for c in self.conn_objs[i]:
                if c.state == 2:
                    b = self.bound_node(c)
                    if b is not None:
                        live[repr(b)] += 1
                        if b[0] == "tcp" and b[1] not in self.members[i]:
                            v.append({"signature": "transport.registry:live-connection-of-non-member",
                                      "what": "transport %d holds a CONNECTED connection that delivers as %r, which is "
                                              "not (any more) a member" % (i, b)})
            for cid, c in enumerate(self.conn_objs[i]):
                sk = c._TcpConnection__socket
                if c.state == 2 and sk is not None and sk.fd is not None:
                    sub = self.sobjs[i]._poller.subs.get(sk.fd)
                    if sub is None or not (sub[1] & READ) or getattr(sub[0], "__self__", None) is not c:
                        b = self.bound_node(c)
                        v.append({"signature": "transport.poller:connected-connection-not-polled",
                                  "what": "transport %d: connection object %d (%s) is CONNECTED on descriptor %d but "
                                          "that descriptor is not subscribed for reading with this object's handler: "
                                          "%s can be reported connected and send() works while nothing received is "
                                          "ever delivered" % (i, cid, "delivers as %r" % (b,) if b else "handshake",
                                                              sk.fd, "the node" if b else "the peer")})
            for b, cnt in live.items():
                if cnt > 1:
                    v.append({"signature": "transport.registry:two-live-connections",
                              "what": "transport %d holds %d CONNECTED connections that deliver as %s" % (i, cnt, b)})
            for b in self.view[i]:
                key = eval(b)
                node = self.node(key[1]) if key[0] == "tcp" else self.mods["node"].Node(str(key[1]))
                conn = t._connections.get(node)
                if conn is None or conn.state != 2:
                    v.append({"signature": "transport.notify:reported-connected-without-connection",
                              "what": "transport %d: last notification for %s is 'connected' (isNodeConnected would be "
                                      "True) but there is no CONNECTED registered connection" % (i, b)})
                else:
                    sk = conn._TcpConnection__socket
                    if sk is not None and getattr(sk, "kind", "") == "connecting":
                        v.append({"signature": "transport.notify:reported-connected-while-connecting",
                                  "what": "transport %d: %s is reported connected and send() returns True, but the "
                                          "socket of the registered connection is still connecting" % (i, b)})
        return v

    def monitor_deliveries(self):
        v = []
        for d in self.deliveries:
            if not d["member"]:
                v.append({"signature": "transport.deliver:from-non-member",
                          "what": "transport %d delivered %r as coming from %r which is not a member (removed)"
                                  % (d["at"], d["msg"], d["source"])})
            o = d["origin"]
            if o is not None and o[0] == "tcp" and d["source"][0] == "tcp" and o != d["source"]:
                v.append({"signature": "transport.deliver:wrong-source",
                          "what": "transport %d delivered %r as coming from %r but it was sent by %r"
                                  % (d["at"], d["msg"], d["source"], o)})
        del self.deliveries[:]
        return v
