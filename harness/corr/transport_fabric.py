"""In-process socket fabric + world of real TCPTransport objects under virtual time (component `transport`, C14).

No PROPERTIES line: this is a library used by corr/transport_registry.py and witness/d2x_*.py.

What is real: pysyncobj.transport.TCPTransport, pysyncobj.tcp_connection.TcpConnection,
pysyncobj.tcp_server.TcpServer, pysyncobj.node.TCPNode/Node, pysyncobj.config.SyncObjConf.
What is faked: the `socket` module seen by tcp_connection / tcp_server (FakeSocketModule), the poller (FakePoller,
events are fired one at a time by the script), the clock (`monotonicTime` in transport / tcp_connection /
dns_resolver), DNS (identity), and the SyncObj that owns the transport (DummySyncObj: conf, _poller, encryptor=None,
addOnTickCallback, callbacks that only record).

Time unit: 1/1024 s, `monotonicTime()` returns fabric.now / 1024.0 (dyadic, so float comparisons are exact).
"""
import collections
import errno as _errno
import importlib
import pickle as _pickle
import socket as _real_socket
import struct
import sys
import zlib

READ, WRITE, ERROR = 1, 2, 4
TU = 1024.0


def load_pysyncobj(repo):
    """Import pysyncobj from `repo` (purging any copy imported from elsewhere)."""
    import os
    repo = os.path.abspath(repo)
    m = sys.modules.get("pysyncobj")
    if m is not None and not os.path.abspath(getattr(m, "__file__", "")).startswith(repo + os.sep):
        for k in [k for k in sys.modules if k == "pysyncobj" or k.startswith("pysyncobj.")]:
            del sys.modules[k]
    if repo not in sys.path:
        sys.path.insert(0, repo)
    mods = {}
    for name in ("transport", "tcp_connection", "tcp_server", "node", "config", "dns_resolver", "poller"):
        mods[name] = importlib.import_module("pysyncobj." + name)
    f = os.path.abspath(mods["transport"].__file__)
    if not f.startswith(repo + os.sep):
        raise RuntimeError("pysyncobj imported from %s, not from %s" % (f, repo))
    return mods


def frame(msg):
    data = zlib.compress(_pickle.dumps(msg), 3)
    return struct.pack("i", len(data)) + data


def unframe(chunk):
    return _pickle.loads(zlib.decompress(chunk[4:]))


class FakeSock(object):
    def __init__(self, fabric, owner):
        self.fabric = fabric
        self.owner = owner
        self.fd = fabric.next_fd
        fabric.next_fd += 1
        fabric.socks[self.fd] = self
        self.kind = "new"            # new | connecting | established | listening | failed
        self.dest = None
        self.wire = None             # Wire once the SYN was accepted
        self.side = None             # 0 = client end, 1 = server end
        self.rx = collections.deque()  # byte chunks readable now
        self.eof = False             # FIN delivered (after rx drained recv returns b'')
        self.rst = False             # recv raises ECONNRESET
        self.so_error = 0
        self.closed = False
        self.acceptq = collections.deque()

    # --- API used by TcpConnection / TcpServer -------------------------------------------------
    def fileno(self):
        return self.fd

    def setsockopt(self, *a):
        pass

    def setblocking(self, f):
        pass

    def ioctl(self, *a):
        pass

    def getsockopt(self, level, opt):
        e, self.so_error = self.so_error, 0
        return e

    def bind(self, addr):
        if addr[1] in self.fabric.bind_fail:
            raise OSError(_errno.EADDRINUSE, "in use")
        self.dest = addr

    def listen(self, n):
        self.kind = "listening"
        self.fabric.listeners[self.dest[1]] = self

    def accept(self):
        if not self.acceptq:
            raise OSError(_errno.EAGAIN, "again")
        s = self.acceptq.popleft()
        return s, ("peer", 0)

    def connect(self, addr):
        self.dest = addr
        self.fabric.log_connect(self)
        if self.fabric.connect_imm_fail(self.owner, addr):
            self.kind = "failed"
            raise OSError(_errno.ENETUNREACH, "unreachable")
        self.kind = "connecting"
        raise OSError(_errno.EINPROGRESS, "in progress")

    def send(self, data):
        oc = self.fabric.send_outcomes.popleft() if self.fabric.send_outcomes else "ok"
        self.fabric.sends.append((self.owner, self.fd, oc))
        if oc == "fail":
            raise OSError(_errno.ECONNRESET, "reset")
        if self.kind == "connecting":
            raise OSError(_errno.EAGAIN, "again")        # Linux: send() on a SYN_SENT non-blocking socket
        if self.wire is None or self.closed:
            raise OSError(_errno.EPIPE, "pipe")
        self.wire.inflight[self.side].append(bytes(data))
        return len(data)

    def recv(self, n):
        if self.rx:
            return self.rx.popleft()
        if self.rst:
            raise OSError(_errno.ECONNRESET, "reset")
        if self.eof:
            return b""
        raise OSError(_errno.EAGAIN, "again")

    def close(self):
        if self.closed:
            return
        self.closed = True
        if self.kind == "listening":
            self.fabric.listeners.pop(self.dest[1], None)
        if self.wire is not None:
            self.wire.inflight[self.side].append(None)   # FIN travels behind the data


class Wire(object):
    """One established TCP connection: ends[0] = client socket, ends[1] = server-side socket."""

    def __init__(self, c, s):
        self.ends = [c, s]
        self.inflight = [collections.deque(), collections.deque()]  # [0]: client->server, [1]: server->client
        c.wire = self
        c.side = 0
        s.wire = self
        s.side = 1


class FakeSocketModule(object):
    """Stands in for the `socket` module inside pysyncobj.tcp_connection / pysyncobj.tcp_server."""
    error = OSError
    errno = _errno
    gaierror = _real_socket.gaierror
    AF_INET = _real_socket.AF_INET
    AF_INET6 = _real_socket.AF_INET6
    SOCK_STREAM = _real_socket.SOCK_STREAM
    SOL_SOCKET = _real_socket.SOL_SOCKET
    SO_SNDBUF = _real_socket.SO_SNDBUF
    SO_RCVBUF = _real_socket.SO_RCVBUF
    SO_REUSEADDR = _real_socket.SO_REUSEADDR
    SO_ERROR = _real_socket.SO_ERROR
    SO_KEEPALIVE = _real_socket.SO_KEEPALIVE
    IPPROTO_TCP = _real_socket.IPPROTO_TCP
    TCP_NODELAY = _real_socket.TCP_NODELAY
    TCP_KEEPIDLE = getattr(_real_socket, "TCP_KEEPIDLE", 4)
    TCP_KEEPINTVL = getattr(_real_socket, "TCP_KEEPINTVL", 5)
    TCP_KEEPCNT = getattr(_real_socket, "TCP_KEEPCNT", 6)
    inet_aton = staticmethod(_real_socket.inet_aton)
    inet_pton = staticmethod(_real_socket.inet_pton)

    def __init__(self, fabric):
        self.fabric = fabric

    def socket(self, family=None, type=None):
        return FakeSock(self.fabric, self.fabric.cur)


class FakePoller(object):
    def __init__(self):
        self.subs = {}

    def subscribe(self, descr, callback, eventMask):
        self.subs[descr] = (callback, eventMask)

    def unsubscribe(self, descr):
        self.subs.pop(descr, None)

    def poll(self, timeout):
        pass

    def fire(self, descr, mask):
        """Deliver one poll event (restricted to the subscribed mask). Returns False if nothing is subscribed."""
        if descr not in self.subs:
            return False
        cb, sub = self.subs[descr]
        m = mask & (sub | ERROR)
        if not m:
            return False
        cb(descr, m)
        return True


class IdentityResolver(object):
    def resolve(self, host):
        return host


class Fabric(object):
    def __init__(self):
        self.now = 4096
        self.next_fd = 100
        self.socks = {}
        self.listeners = {}          # port -> listening FakeSock
        self.cur = None              # owner index while a transport is executing
        self.imm_fail = set()        # ports for which the next connect() calls fail immediately
        self.bind_fail = set()
        self.send_outcomes = collections.deque()
        self.sends = []
        self.connects = []           # (owner, fd, port) log of connect() calls in the current step

    def time(self):
        return self.now / TU

    def connect_imm_fail(self, owner, addr):
        return addr[1] in self.imm_fail

    def log_connect(self, sock):
        self.connects.append((sock.owner, sock.fd, sock.dest[1]))


class DummySyncObj(object):
    """Exactly what TCPTransport touches of its SyncObj: conf, _poller, encryptor, addOnTickCallback."""

    def __init__(self, conf):
        self.conf = conf
        self._poller = FakePoller()
        self.encryptor = None
        self.tick_cbs = []

    def addOnTickCallback(self, cb):
        self.tick_cbs.append(cb)


class World(object):
    """n real TCPTransports (index i, address 10.0.0.1:<4000+i>; i = None-addressed for a read-only self) on one fabric.

    Every call into a transport goes through `call`, which records in `self.out` the callbacks emitted, in order.
    Address order == index order (string order of the fixed-width ports).
    """

    def __init__(self, repo, n, readonly=(), retry=2048, timeout=4096, members=None):
        self.mods = load_pysyncobj(repo)
        self.fabric = Fabric()
        self.n = n
        self.readonly = set(readonly)
        self.retry = retry
        self.timeout = timeout
        self.out = []
        self.transports = []
        self.sobjs = []
        self.conn_ids = {}            # id(TcpConnection) -> (owner, seq)
        self.conn_objs = []           # per owner: list of TcpConnection in creation order
        self.view = []                # per owner: set of node keys for which the last callback was "connected"
        self._patch()
        try:
            members = members if members is not None else [[j for j in range(n) if j != i and j not in self.readonly]
                                                           for i in range(n)]
            for i in range(n):
                self.conn_objs.append([])
                self.view.append(set())
                conf = self.mods["config"].SyncObjConf(connectionRetryTime=retry / TU, connectionTimeout=timeout / TU,
                                                       raftMinTimeout=0.25, raftMaxTimeout=0.5, bindRetryTime=1.0)
                so = DummySyncObj(conf)
                self.sobjs.append(so)
                self.fabric.cur = i
                selfnode = None if i in self.readonly else self.node(i)
                t = self.mods["transport"].TCPTransport(so, selfnode, [self.node(j) for j in members[i]])
                self.fabric.cur = None
                self._wire_callbacks(i, t)
                self.transports.append(t)
        except Exception:
            self.close()
            raise

    # ---- naming --------------------------------------------------------------------------------
    @staticmethod
    def port(i):
        return 4000 + i

    @staticmethod
    def addr(i):
        return "10.0.0.1:%d" % (4000 + i)

    def node(self, i):
        return self.mods["node"].TCPNode(self.addr(i))

    def key(self, node):
        """Canonical node key: ['tcp', i] / ['ro', k] / None."""
        if node is None:
            return None
        if isinstance(node, self.mods["node"].TCPNode):
            return ["tcp", node.port - 4000]
        return ["ro", int(node.id)]

    def msgkey(self, m):
        """Classify a wire message into the model's alphabet."""
        if isinstance(m, str):
            if m == "readonly":
                return ["readonly"]
            if m.startswith("10.0.0.1:"):
                return ["addr", int(m.rsplit(":", 1)[1]) - 4000]
            if m.startswith("h"):
                return ["hash", int(m[1:])]
            return ["reply"]
        if isinstance(m, dict):
            return ["unhash", m["k"]]
        if isinstance(m, list):
            return ["util", 1 if m and str(m[0]).lower() == "status" else 0]
        return ["other"]

    @staticmethod
    def mkmsg(mk):
        t = mk[0]
        if t == "readonly":
            return "readonly"
        if t == "addr":
            return World.addr(mk[1])
        if t == "hash":
            return "h%d" % mk[1]
        if t == "unhash":
            return {"k": mk[1]}
        if t == "util":
            return ["status"] if mk[1] else ["nosuchcmd"]
        raise ValueError(mk)

    # ---- patching ------------------------------------------------------------------------------
    def _patch(self):
        mods = self.mods
        fab = self.fabric
        world = self
        self._saved = []

        def setattr_(mod, name, val):
            self._saved.append((mod, name, getattr(mod, name)))
            setattr(mod, name, val)

        fsm = FakeSocketModule(fab)
        setattr_(mods["tcp_connection"], "socket", fsm)
        setattr_(mods["tcp_server"], "socket", fsm)
        for m in ("transport", "tcp_connection", "dns_resolver"):
            setattr_(mods[m], "monotonicTime", fab.time)
        res = IdentityResolver()
        setattr_(mods["node"], "globalDnsResolver", lambda: res)
        setattr_(mods["transport"], "globalDnsResolver", lambda: res)
        Real = mods["tcp_connection"].TcpConnection

        class RecordingTcpConnection(Real):
            def __init__(self, *a, **kw):
                Real.__init__(self, *a, **kw)
                o = fab.cur
                world.conn_ids[id(self)] = (o, len(world.conn_objs[o]))
                world.conn_objs[o].append(self)

        setattr_(mods["transport"], "TcpConnection", RecordingTcpConnection)
        setattr_(mods["tcp_server"], "TcpConnection", RecordingTcpConnection)

    def close(self):
        for mod, name, val in reversed(getattr(self, "_saved", [])):
            setattr(mod, name, val)
        self._saved = []

    def _wire_callbacks(self, i, t):
        out = self.out
        key = self.key
        view = self.view

        def on_msg(node, msg):
            out.append(["deliver", key(node), self.msgkey(msg)])

        def on_conn(node):
            out.append(["nodeConn", key(node)])
            view[i].add(repr(key(node)))

        def on_disc(node):
            out.append(["nodeDisc", key(node)])
            view[i].discard(repr(key(node)))

        def on_roconn(node):
            out.append(["roConn", key(node)])
            view[i].add(repr(key(node)))

        def on_rodisc(node):
            out.append(["roDisc", key(node)])
            view[i].discard(repr(key(node)))

        def on_status(args, callback):
            out.append(["utility"])
            callback("status-reply", None)

        t.setOnMessageReceivedCallback(on_msg)
        t.setOnNodeConnectedCallback(on_conn)
        t.setOnNodeDisconnectedCallback(on_disc)
        t.setOnReadonlyNodeConnectedCallback(on_roconn)
        t.setOnReadonlyNodeDisconnectedCallback(on_rodisc)
        t.setOnUtilityMessageCallback("status", on_status)

    # ---- running things ------------------------------------------------------------------------
    def call(self, i, fn, imm_fail=(), send_outcomes=()):
        """Run fn() as transport i; returns (result-or-exception-name, outputs)."""
        fab = self.fabric
        fab.cur = i
        fab.imm_fail = set(self.port(j) for j in imm_fail)
        fab.send_outcomes = collections.deque(send_outcomes)
        fab.sends = []
        fab.connects = []
        del self.out[:]
        try:
            r = fn()
        except Exception as e:      # the exception class is an output
            r = None
            self.out.append(["raised", type(e).__name__])
        finally:
            fab.cur = None
            fab.imm_fail = set()
            fab.send_outcomes = collections.deque()
        return r, list(self.out)

    def conn_sock(self, conn):
        return conn._TcpConnection__socket

    def conn_of(self, i, cid):
        return self.conn_objs[i][cid]

    def fire(self, i, cid, mask, **kw):
        """Fire a poll event on the *current* socket of connection object cid of transport i."""
        conn = self.conn_objs[i][cid]
        fd = conn.fileno()
        if fd is None:
            return None, []
        return self.call(i, lambda: self.sobjs[i]._poller.fire(fd, mask), **kw)

    # ---- abstraction of one transport ----------------------------------------------------------
    def abstract(self, i):
        t = self.transports[i]
        TCPNode = self.mods["node"].TCPNode
        conns = []
        for cid, c in enumerate(self.conn_objs[i]):
            conns.append([cid, c.state, int(round(c._TcpConnection__lastReadTime * TU))])
        reg = sorted([[self.key(nd), self.conn_ids[id(c)][1]] for nd, c in t._connections.items()], key=repr)
        for nd, c in t._connections.items():
            assert self.conn_ids[id(c)][0] == i
        return {
            "nodes": sorted(nd.port - 4000 for nd in t._nodes),
            "addrs": sorted(int(a.rsplit(":", 1)[1]) - 4000 for a in t._nodeAddrToNode),
            "ro": sorted(int(nd.id) for nd in t._readonlyNodes),
            "roCounter": t._readonlyNodesCounter,
            "reg": reg,
            "unknown": sorted(self.conn_ids[id(c)][1] for c in t._unknownConnections),
            "last": sorted([nd.port - 4000, int(round(v * TU))] for nd, v in t._lastConnectAttempt.items()),
            "conns": conns,
            "prevent": sorted(nd.port - 4000 for nd in t._preventConnectNodes if isinstance(nd, TCPNode)),
            "view": sorted(self.view[i]),
        }
