"""Handler-level correspondence for the tick side of one node (C20, C12, C18, C04-local).

For every case an abstract NodeState is INJECTED into a live real `SyncObj` (built by harness/sim.py),
ONE real entry point is fired (`doTick` / transport `_onMessageReceived` / connection callbacks; a few
cases fire 2-3 in a row), the abstract post-state and the ordered outputs are extracted and compared with
`driver nodetick` (= `PSO.NodeTick.run`) on the same line.  Independently of the model, the property
statements are evaluated on the real post-state of every case (monitors below).

Case stream: regression corpus, then a systematic enumerator that puts a state on each side of every
named guard (and on the equality case), then a seeded boundary-biased random stream.  What was hit is
measured (guard-outcome tags derived from the REAL pre/post states) and floored.
"""
import hashlib
import json
import os
import time

from harness.corr import nodetick_lib as L

PROPERTIES = ["C20", "C12", "C18", "C04"]
ORDER = 40

NOW = L.NOW0


# ------------------------------------------------------------------------------------------------
# systematic enumerator
# ------------------------------------------------------------------------------------------------
def _blank(n_others, role=2, term=3, observer=False, readonly=(), now=NOW):
    others = list(range(1, n_others + 1))
    tracked = others + list(readonly)
    return {
        "self": None if observer else 0, "role": role, "term": term, "votedFor": None if observer else 0, "votes": 1,
        "leader": (None if observer else 0) if role == 2 else None, "deadline": now + 500,
        "others": others, "readonly": list(readonly), "connected": list(tracked),
        "log": [[["n"], 1, 0], [["r", 101, 0], 2, term], [["r", 102, 0], 3, term]],
        "commit": 1, "applied": 1,
        "match": [[k, 0] for k in tracked], "next": [[k, 4] for k in tracked], "resp": [[k, now] for k in tracked],
        "waiting": [], "wreply": [], "sm": [], "enabled": 0, "lcommit": None, "ready": True, "nat": now + 300,
        "noop": None,
    }


def systematic():
    cases = []

    def add(tag, c, s, es):
        cases.append({"tag": tag, "c": c, "s": s, "es": es})

    # 1. fallback check: fresh count exactly at / one below the majority, lastResponse exactly now-T, +-1
    for T in (129, 2048, 30 * 1024):
        for n in range(0, 5):
            need = L.majority_need(n)
            for fresh in sorted(set([max(need - 2, 0), need - 1, min(need, n)])):
                for stale_delta in (0, -1):
                    for ro in ((), (5, 6)):
                        c = L.base_conf(T=T)
                        s = _blank(n, readonly=ro)
                        s["resp"] = [[k, NOW - T + 1] if k <= fresh else [k, NOW - T + stale_delta] for k in s["others"]]
                        s["resp"] += [[k, NOW] for k in ro]          # observers are fresh: must not count
                        add("sys:fallback", c, s, [["tick", NOW, 512]])
    # 2. commit advance: match count at / below the majority; entry of another term in the middle
    for n in range(0, 5):
        need = L.majority_need(n)
        for holders in sorted(set([max(need - 2, 0), need - 1, min(need, n), n])):
            for mid_term in (3, 2):
                for ro in ((), (5, 6, 7)):
                    c = L.base_conf()
                    s = _blank(n, readonly=ro)
                    s["log"] = [[["n"], 1, 0], [["r", 101, 0], 2, 3 if mid_term == 3 else 2], [["r", 102, 1], 3, mid_term],
                                [["r", 103, 0], 4, 3], [["r", 104, 0], 5, 3]]
                    if mid_term == 2:
                        s["log"][1][2] = 2
                    s["match"] = [[k, 4] if k <= holders else [k, 3 if k == holders + 1 else 1] for k in s["others"]]
                    s["match"] += [[k, 5] for k in ro]              # observers hold everything: must not count
                    s["waiting"] = [[2, [[s["log"][1][2], 11]]], [3, [[3, 12], [1, 13]]], [4, [[3, 14]]]]
                    add("sys:commit", c, s, [["tick", NOW, 512]])
    # commit loop over a compacted log (first index > 1) and with commit == last / beyond
    for first in (1, 4):
        for commit_off in (0, 1, 2, 3):
            c = L.base_conf()
            s = _blank(2)
            s["log"] = [[["n"] if first == 1 else ["r", 100, 0], first, 1], [["r", 101, 0], first + 1, 3], [["r", 102, 0], first + 2, 3]]
            s["commit"] = first + commit_off
            s["applied"] = first
            s["match"] = [[1, first + 2], [2, 0]]
            add("sys:commit-window", c, s, [["tick", NOW, 512]])
    # 3. election timeout: deadline <,=,> now; connected to nobody; single node; observers
    for n in (0, 1, 2, 4):
        for dd in (-1, 0, 1):
            for conn in ("none", "one", "ro-only"):
                for role in (0, 1):
                    for obs in (False, True):
                        c = L.base_conf(batch=(dd != 0))
                        s = _blank(n, role=role, observer=obs, readonly=(5,) if conn == "ro-only" else ())
                        s["deadline"] = NOW + dd
                        s["connected"] = [] if conn == "none" else ([1] if (conn == "one" and n) else ([5] if conn == "ro-only" else []))
                        s["wreply"] = [[3, 31], [7, 32]]
                        s["leader"] = 1 if n else None
                        add("sys:election", c, s, [["tick", NOW, 512]])
    # 4. apply loop: raising command first / middle / last / only; subscribers with matching / other term
    for pos in ("first", "middle", "last", "only", "none"):
        for role in (0, 2):
            for batch in (True, False):
                c = L.base_conf(batch=batch)
                s = _blank(2, role=role)
                ids = [201, 202, 203]
                raises = {"first": [1, 0, 0], "middle": [0, 1, 0], "last": [0, 0, 1], "only": [1, 1, 1], "none": [0, 0, 0]}[pos]
                s["log"] = [[["n"], 1, 0]] + [[["r", ids[i], raises[i]], 2 + i, 3 if i else 2] for i in range(3)]
                s["commit"] = 4
                s["match"] = [[1, 4], [2, 4]]
                s["waiting"] = [[2, [[2, 21], [3, 22]]], [3, [[3, 23]]], [4, [[3, 24], [3, 25], [9, 26]]], [5, [[3, 27]]]]
                s["sm"] = [7]
                s["lcommit"] = 4
                s["ready"] = False
                add("sys:apply-raise", c, s, [["tick", NOW, 512]])
    # apply loop: version entries (supported / unsupported in the middle), D21 block, membership entries
    for ver, selfVer, enabled in ((1, 1, 0), (2, 1, 0), (1, 0, 0), (0, 1, 1), (1, 1, 2), (2, 2, 3)):
        c = L.base_conf(selfVer=selfVer)
        s = _blank(2, role=0)
        s["log"] = [[["n"], 1, 0], [["r", 301, 1], 2, 3], [["v", ver], 3, 3], [["r", 302, 0], 4, 3], [["r", 303, 1], 5, 3]]
        s["commit"] = 5
        s["enabled"] = enabled
        s["waiting"] = [[3, [[3, 41]]], [4, [[3, 42]]]]
        add("sys:apply-version", c, s, [["tick", NOW, 512], ["tick", NOW + 64, 512]])
    for (add_, node) in ((1, 8), (1, 1), (1, 0), (0, 2), (0, 8), (0, 0)):
        for role in (0, 2):
            c = L.base_conf()
            s = _blank(2, role=role)
            s["log"] = [[["n"], 1, 0], [["m", add_, node], 2, 3], [["r", 401, 1], 3, 3]]
            s["commit"] = 3
            s["match"] = [[1, 3], [2, 3]]
            add("sys:apply-membership", c, s, [["tick", NOW, 512]])
    # apply window: nothing to apply, applied > commit, next entry compacted away, commit beyond the log
    for (first, applied, commit) in ((1, 3, 3), (1, 3, 2), (4, 1, 6), (4, 2, 6), (4, 3, 6), (1, 1, 9)):
        c = L.base_conf()
        s = _blank(2, role=0)
        s["log"] = [[["r", 500 + i, i % 2], first + i, 3] for i in range(3)]
        s["applied"], s["commit"] = applied, commit
        add("sys:apply-window", c, s, [["tick", NOW, 512]])
    # send decision / ready notification
    for nat in (NOW - 1, NOW, NOW + 1):
        for lc in (None, 1, 2):
            for ready in (False, True):
                c = L.base_conf()
                s = _blank(2)
                s["nat"], s["lcommit"], s["ready"] = nat, lc, ready
                add("sys:send-ready", c, s, [["tick", NOW, 512]])
    # 5. response_vote: count reaching the majority exactly; other term; not a candidate
    for n in range(0, 5):
        need = L.majority_need(n)
        for votes in sorted(set([max(need - 2, 0), need - 1, need])):
            for dterm in (0, 1, -1):
                for role in (1, 0, 2):
                    for batch in (True, False):
                        if (role != 1 or dterm) and not batch:
                            continue
                        c = L.base_conf(batch=batch)
                        s = _blank(n, role=role, readonly=(5,))
                        s["votes"] = votes
                        s["match"] = [[1, 9]] if n else []
                        s["next"] = []
                        s["resp"] = [[9, 5]]
                        add("sys:vote", c, s, [["vote", 1, 3 + dterm, NOW]])
    # 6. next_node_idx
    for term in (None, 3, 2, 4):
        for reset in (0, 1):
            for success in (0, 1):
                for nxt in (0, 3, 4, 5, 6):
                    for frm in (1, 5, 8):
                        for role in (2, 0):
                            if role == 0 and (term != 3 or frm != 1):
                                continue
                            c = L.base_conf()
                            s = _blank(2, role=role, readonly=(5,))
                            s["match"] = [[1, 4], [2, 0], [5, 0]]
                            s["next"] = [[1, 5], [2, 1], [5, 1]]
                            s["resp"] = [[1, NOW - 100], [2, NOW - 100], [5, NOW - 100]]
                            add("sys:nni", c, s, [["nni", frm, term, reset, nxt, success, NOW]])
    # 7. request_vote
    for dterm in (-1, 0, 1):
        for dli in (-1, 0, 1):
            for dlt in (-1, 0, 1):
                for voted in (None, 2):
                    for role in (0, 1, 2):
                        for obs in (False, True):
                            if obs and (role != 0 or voted is not None):
                                continue
                            c = L.base_conf()
                            s = _blank(2, role=role, observer=obs)
                            s["votedFor"] = voted
                            s["leader"] = 2 if role == 0 else s["leader"]
                            add("sys:rv", c, s, [["rv", 1, 3 + dterm, 3 + dli, 3 + dlt, NOW, 512]])
    # 8. hasQuorum boundary, voter and observer, all sizes; connection callbacks
    for n in range(0, 6):
        for k in range(0, n + 1):
            for obs in (False, True):
                c = L.base_conf()
                s = _blank(n, role=0, observer=obs, readonly=(6, 7))
                s["connected"] = list(range(1, k + 1)) + [6, 7]
                add("sys:quorum", c, s, [["conn", 9]] if k % 2 else [["disc", 6]])
    for ev in (["conn", 1], ["conn", 2], ["disc", 1], ["disc", 2], ["roconn", 5], ["roconn", 6], ["rodisc", 5],
               ["rodisc", 6], ["roconn", 1], ["rodisc", 1]):
        c = L.base_conf()
        s = _blank(2, readonly=(5,))
        s["connected"] = [1, 5]
        add("sys:conn", c, s, [ev])
    return cases


# ------------------------------------------------------------------------------------------------
# guard-outcome tags, measured on the REAL pre/post state
# ------------------------------------------------------------------------------------------------
def tags_of(case, real):
    s, c = case["s"], case["c"]
    ev = case["es"][0]
    post = real["s"]
    outs = real["o"]
    t = set()
    n = len(s["others"])
    if ev[0] == "tick":
        now = ev[1]
        if s["role"] != 2 and s["self"] is not None:
            d = s["deadline"]
            t.add("election:deadline-" + ("lt" if d < now else "eq" if d == now else "gt"))
            if d < now:
                t.add("election:connected-to-" + ("nobody" if (not s["connected"] and n) else "someone"))
            if post["term"] == s["term"] + 1:
                t.add("election:started")
                t.add("election:self-majority" if post["role"] == 2 else "election:needs-votes")
        if s["role"] != 2 and s["self"] is None:
            t.add("election:observer-skips")
        if s["role"] == 2:
            resp = dict((k, v) for k, v in s["resp"])
            fresh = 1 + sum(1 for k in s["others"] if resp.get(k, 0) + c["T"] > now)
            need = L.majority_need(n)
            t.add("fallback:count-" + ("at-majority" if fresh == need else "one-below" if fresh == need - 1 else "other"))
            if any(resp.get(k, 0) + c["T"] == now for k in s["others"]):
                t.add("fallback:lastResponse-eq-deadline")
            t.add("fallback:" + ("step-down" if post["role"] != 2 else "stay"))
            t.add("commit:" + ("advanced" if post["commit"] > s["commit"] else "unchanged"))
            m = dict((k, v) for k, v in s["match"])
            last = s["log"][-1][1]
            for i in range(s["commit"] + 1, last + 1):
                cnt = 1 + sum(1 for k in s["others"] if m.get(k, 0) >= i)
                if cnt == need:
                    t.add("commit:count-at-majority")
                if cnt == need - 1:
                    t.add("commit:count-one-below")
                    break
                if cnt < need:
                    break
                et = [e[2] for e in s["log"] if e[1] == i]
                if et and et[0] != s["term"] and i < post["commit"]:
                    t.add("commit:old-term-entry-inside-range")
        if post["applied"] > s["applied"]:
            t.add("apply:progress")
            rng_ = [e for e in s["log"] if s["applied"] < e[1] <= post["applied"]]
            kinds = [e[0] for e in rng_]
            for i, k in enumerate(kinds):
                if k[0] == "r" and k[2]:
                    t.add("apply:raising-" + ("only" if len(kinds) == 1 else "first" if i == 0 else "last" if i == len(kinds) - 1 else "middle"))
            if any(k[0] == "m" for k in kinds):
                t.add("apply:membership")
            cur = s["enabled"]
            for k in kinds:
                if k[0] == "v":
                    if k[1] < cur:
                        t.add("apply:version-lower")       # D71: refused, counts as applied
                    else:
                        t.add("apply:version-ok")
                        cur = k[1]
        if s["commit"] > s["applied"] and post["applied"] < min(post["commit"], s["log"][-1][1]):
            t.add("apply:stopped-early")
        if c["selfVer"] < s["enabled"]:
            t.add("apply:blocked-unsupported-enabled")
        for o in outs:
            if o[0] == "cb":
                t.add("callback:" + {0: "success", 3: "discarded", 5: "leader-changed"}.get(o[4], "other"))
                if o[3] is not None and o[3][0] == "raised":
                    t.add("callback:exception-result")
                if o[3] is not None and o[3][0] == "lowerver":
                    t.add("callback:lower-version-result")
            if o[0] == "ready":
                t.add("tick:ready")
        t.add("tick:send" if ["send"] in outs else "tick:no-send")
    elif ev[0] == "vote":
        if s["role"] == 1 and ev[2] == s["term"]:
            t.add("vote:counted-" + ("wins" if post["role"] == 2 else "not-yet"))
        else:
            t.add("vote:ignored")
    elif ev[0] == "nni":
        if s["role"] == 2 and (ev[2] is None or ev[2] == s["term"]):
            t.add("nni:accepted" + ("-reset" if ev[3] else "") + ("-success" if ev[5] else ""))
            m = dict((k, v) for k, v in s["match"])
            if ev[5] and ev[1] in m:
                t.add("nni:match-" + ("lt" if m[ev[1]] < ev[4] - 1 else "eq" if m[ev[1]] == ev[4] - 1 else "gt"))
            if ["keyError"] in outs:
                t.add("nni:unknown-node-keyerror")
        else:
            t.add("nni:ignored-" + ("role" if s["role"] != 2 else "term"))
    elif ev[0] == "rv":
        if s["self"] is None:
            t.add("rv:observer-ignores")
        else:
            t.add("rv:term-" + ("lt" if ev[2] < s["term"] else "eq" if ev[2] == s["term"] else "gt"))
            t.add("rv:" + ("granted" if any(o[0] == "resp" for o in outs) else "refused"))
    else:
        t.add("conn:" + ev[0])
    t.add("hasQuorum:" + ("true" if real["hq"] else "false"))
    if post["self"] is None:
        t.add("observer:case")
    return t


FLOOR = [
    "election:deadline-lt", "election:deadline-eq", "election:deadline-gt", "election:connected-to-nobody",
    "election:connected-to-someone", "election:self-majority", "election:needs-votes", "election:observer-skips",
    "fallback:count-at-majority", "fallback:count-one-below", "fallback:lastResponse-eq-deadline", "fallback:step-down",
    "fallback:stay", "commit:advanced", "commit:unchanged", "commit:count-at-majority", "commit:count-one-below",
    "commit:old-term-entry-inside-range", "apply:progress", "apply:raising-first", "apply:raising-middle",
    "apply:raising-last", "apply:raising-only", "apply:membership", "apply:version-ok", "apply:version-lower",
    "callback:lower-version-result", "apply:stopped-early",
    "apply:blocked-unsupported-enabled", "callback:success", "callback:discarded", "callback:leader-changed",
    "callback:exception-result", "tick:ready", "tick:send", "tick:no-send", "vote:counted-wins", "vote:counted-not-yet",
    "vote:ignored", "nni:accepted-success", "nni:accepted-reset", "nni:match-lt", "nni:match-eq", "nni:match-gt",
    "nni:unknown-node-keyerror", "nni:ignored-role", "nni:ignored-term", "rv:observer-ignores", "rv:term-lt", "rv:term-eq",
    "rv:term-gt", "rv:granted", "rv:refused", "conn:conn", "conn:disc", "conn:roconn", "conn:rodisc", "hasQuorum:true",
    "hasQuorum:false", "observer:case",
]


# ------------------------------------------------------------------------------------------------
# property monitors on the real post-state (written against the property texts, not the model)
# ------------------------------------------------------------------------------------------------
def monitors(case, real):
    s, c = case["s"], case["c"]
    post, outs = real["s"], real["o"]
    v = []

    def viol(sig, what):
        v.append({"signature": sig, "what": what, "replay": {"case": case}})
    single = len(case["es"]) == 1
    ev = case["es"][0]
    n = len(s["others"])
    # C04 (node-local): indices never move backwards
    if post["commit"] < s["commit"]:
        viol("indices:commit-moved-backwards", "commit %d -> %d on %r" % (s["commit"], post["commit"], ev))
    if post["applied"] < s["applied"]:
        viol("indices:applied-moved-backwards", "lastApplied %d -> %d on %r" % (s["applied"], post["applied"], ev))
    # C20: hasQuorum == connected to a majority of the voters it knows
    voters_conn = len(set(post["others"]) & set(post["connected"]))
    me = 0 if post["self"] is None else 1
    if real["hq"] != (2 * (voters_conn + me) > len(post["others"]) + me):
        viol("hasQuorum:wrong-value", "hasQuorum=%r with %d of %d other voters connected (self voter: %d)"
             % (real["hq"], voters_conn, len(post["others"]), me))
    if single and ev[0] == "tick":
        now = ev[1]
        # C20: a leader that has not heard from a majority for T no longer reports itself leader
        if s["role"] == 2:
            resp = dict((k, x) for k, x in s["resp"])
            heard = 1 + sum(1 for k in s["others"] if k in resp and resp[k] > now - c["T"])
            if 2 * heard <= n + 1 and (post["role"] == 2 or post["leader"] is not None):
                viol("fallback:leader-not-stepping-down",
                     "leader heard from %d of %d voters within T=%d but role=%d leader=%r after the tick"
                     % (heard, n + 1, c["T"], post["role"], post["leader"]))
            # C04/C18: a commit advance is backed by a majority of VOTERS holding the entry
            if post["commit"] > s["commit"]:
                m = dict((k, x) for k, x in s["match"])
                holders = 1 + sum(1 for k in s["others"] if m.get(k, 0) >= post["commit"])
                if 2 * holders <= n + 1:
                    ro_holders = sum(1 for k in s["readonly"] if m.get(k, 0) >= post["commit"])
                    viol("observer:counted-in-majority" if 2 * (holders + ro_holders) > n + 1 else "commit:without-majority",
                         "commit advanced %d -> %d with %d of %d voters holding it" % (s["commit"], post["commit"], holders, n + 1))
        # C12: the apply loop passes raising commands; callbacks exactly once; nothing escapes
        for o in outs:
            if o[0] == "exc":
                viol("apply-loop:exception-escapes", "exception escaped doTick: %r" % (o,))
        first, last = s["log"][0][1], s["log"][-1][1]
        rng_ok = (c["selfVer"] >= s["enabled"] and post["commit"] > s["applied"] and s["applied"] + 1 >= first
                  and post["commit"] <= last
                  and not any(e[0][0] == "v" and e[0][1] > c["selfVer"] for e in s["log"] if s["applied"] < e[1] <= post["commit"]))
        if rng_ok and post["applied"] != post["commit"]:
            nxt = [e for e in s["log"] if e[1] == post["applied"] + 1]
            sig = "apply-loop:raising-command-wedges" if (nxt and nxt[0][0][0] == "r" and nxt[0][0][2]) else "apply-loop:stalled"
            viol(sig, "lastApplied=%d commit=%d after the tick, next entry %r" % (post["applied"], post["commit"], nxt))
        fired = {}
        for o in outs:
            if o[0] == "cb" and o[4] != 5:
                fired[(o[1], o[2])] = fired.get((o[1], o[2]), 0) + 1
        for idx, subs in s["waiting"]:
            for (t_, cb) in subs:
                k = fired.get((idx, cb), 0)
                applied_now = s["applied"] < idx <= post["applied"]
                if applied_now and k != 1 and [idx, cb] not in [[i, x[1]] for i, ss in post["waiting"] for x in ss]:
                    viol("apply-loop:callback-not-once", "subscriber %d of applied index %d fired %d times" % (cb, idx, k))
                if not applied_now and k:
                    viol("apply-loop:callback-for-unapplied", "subscriber %d of index %d fired but the index was not applied" % (cb, idx))
    # C18: observers never vote, never stand, never lead
    if s["self"] is None and s["role"] == 0:
        if post["role"] != 0:
            viol("observer:changes-role", "observer role %d after %r" % (post["role"], ev))
        if any(o[0] in ("rv", "resp") for o in outs):
            viol("observer:votes-or-requests-votes", "observer sent %r" % ([o for o in outs if o[0] in ("rv", "resp")][:2],))
    return v


# ------------------------------------------------------------------------------------------------
def _key(case):
    return hashlib.sha1(L.line(case).encode()).hexdigest()


def _nontrivial(case, real):
    return real["s"] != case["s"] or bool(real["o"])


def _shrink(ctx, rig, case):
    """Drop optional parts while model and implementation still differ."""
    def differs(cs):
        try:
            real = rig.run_case(cs)
            resp = json.loads(ctx.driver("nodetick", [L.line(cs)])[0])
            return "error" in resp or L.canon_model(resp) != real
        except Exception:
            return False
    cur = json.loads(json.dumps(case))
    for field, empty in (("waiting", []), ("wreply", []), ("sm", []), ("readonly", [])):
        t = json.loads(json.dumps(cur))
        t["s"][field] = empty
        if differs(t):
            cur = t
    while len(cur["es"]) > 1:
        t = json.loads(json.dumps(cur))
        t["es"].pop()
        if differs(t):
            cur = t
        else:
            break
    while len(cur["s"]["log"]) > 1:
        t = json.loads(json.dumps(cur))
        t["s"]["log"].pop()
        if differs(t):
            cur = t
        else:
            break
    return cur


def run(ctx):
    t0 = time.time()
    rig = L.Rig(ctx.repo)
    rng = ctx.rng("nodetick_handlers")
    cases = []
    cdir = os.path.join(ctx.verif, "corpus", "nodetick")
    if os.path.isdir(cdir):
        for fn in sorted(os.listdir(cdir)):
            if fn.endswith(".json"):
                cs = json.load(open(os.path.join(cdir, fn)))
                cs.setdefault("tag", "corpus:" + fn)
                cases.append(cs)
    cases.extend(systematic())
    n_rand = ctx.scale(9000, 150000)
    for i in range(n_rand):
        conf = L.gen_conf(rng)
        now = L.NOW0 + rng.randrange(0, 5000)
        st = L.gen_state(rng, conf, now)
        es = [L.gen_event(rng, st, now)]
        if rng.random() < 0.12:
            for _ in range(rng.randint(1, 2)):
                now += rng.choice([0, 1, 64, 128, conf["T"]])
                es.append(L.gen_event(rng, st, now))
        cases.append(L.fix_timeout_exact({"tag": "rand", "c": conf, "s": st, "es": es}))

    reals, disagreements, violations = [], [], []
    cov = {}
    distinct = set()
    for cs in cases:
        real = rig.run_case(cs)
        reals.append(real)
        for tg in tags_of(cs, real):
            cov[tg] = cov.get(tg, 0) + 1
        for v in monitors(cs, real):
            if len(violations) < 20 and v["signature"] not in [x["signature"] for x in violations]:
                violations.append(v)
        if _nontrivial(cs, real):
            distinct.add(_key(cs))
    outs = ctx.driver("nodetick", [L.line(cs) for cs in cases])
    if len(outs) != len(cases):
        return {"cases": len(cases), "distinct": 0, "coverage": cov, "samples": [],
                "disagreements": [{"note": "driver returned %d lines for %d cases" % (len(outs), len(cases))}],
                "violations": violations}
    for cs, real, ln in zip(cases, reals, outs):
        resp = json.loads(ln)
        model = resp if "error" in resp else L.canon_model(resp)
        if model != real:
            if len(disagreements) < 3:
                small = _shrink(ctx, rig, cs)
                sreal = rig.run_case(small)
                sresp = json.loads(ctx.driver("nodetick", [L.line(small)])[0])
                smodel = sresp if "error" in sresp else L.canon_model(sresp)
                diff = {}
                if "error" not in smodel:
                    for k in ("o", "hq", "cta"):
                        if smodel[k] != sreal[k]:
                            diff[k] = {"model": smodel[k], "impl": sreal[k]}
                    for k in sreal["s"]:
                        if smodel["s"].get(k) != sreal["s"][k]:
                            diff["s." + k] = {"model": smodel["s"].get(k), "impl": sreal["s"][k]}
                disagreements.append({"input": small, "model": smodel if "error" in smodel else None, "impl": None,
                                      "diff": diff, "note": "tag %s" % cs.get("tag")})
                # the property's own statement on this very input
                for v in monitors(small, sreal):
                    if v["signature"] not in [x["signature"] for x in violations]:
                        violations.append(v)
            else:
                disagreements.append(None)
    n_dis = len(disagreements)
    disagreements = [d for d in disagreements if d is not None]
    missing = [f for f in FLOOR if not cov.get(f)]
    res = {"cases": len(cases), "distinct": len(distinct),
           "coverage": {"tags": dict(sorted(cov.items())), "systematic": len([c for c in cases if c["tag"].startswith("sys:")]),
                        "random": n_rand, "disagreeing_cases": n_dis},
           "samples": [{"case": {k: cases[i][k] for k in ("c", "s", "es")}, "impl": reals[i]} for i in (0, len(cases) // 2)][:2],
           "disagreements": disagreements, "violations": violations[:5], "wall_s": round(time.time() - t0, 2)}
    if missing:
        res["inconclusive"] = "guard outcomes not reached: %s" % ", ".join(missing)
    return res


def replay(ctx, violation):
    rig = L.Rig(ctx.repo)
    cs = violation["replay"]["case"]
    real = rig.run_case(cs)
    vs = monitors(cs, real)
    try:
        resp = json.loads(ctx.driver("nodetick", [L.line(cs)])[0])
        model = L.canon_model(resp)
    except Exception as e:  # noqa
        model = {"error": str(e)}
    return {"violated": any(v["signature"] == violation["signature"] for v in vs),
            "violations": [{"signature": v["signature"], "what": v["what"]} for v in vs], "impl": real, "model": model}
