"""Shared helpers of the `journal` components (C08, C06): loading `pysyncobj.journal` from the tree
under test, interception of the primitive writes of the REAL `FileJournal` / `ResizableFile` /
`MetaStorer`, a kill injector, the line protocol of `driver journal`, op encodings, the property
monitors (written against the C08 statement, never against the model) and shrinking.
(helper module, not a component: the registry line is deliberately absent here)

Primitive writes and how they are intercepted
  R<n>          mmap.resize(n)            } a Python proxy object stands in for the mmap object of
  S<off>:<len>  mm[off:off+len] = bytes   } ResizableFile (the C type cannot be monkeypatched): module
                                            global `pysyncobj.journal.mmap` is replaced, while a real
                                            call runs, by a shim whose `.mmap(...)` returns the proxy
                                            wrapping the real mapping (so the constructor's own
                                            resize-to-1024 is seen as well)
  TC            open(path + '.meta.tmp', 'wb')      } module global `pysyncobj.journal.open` (shadowing
  TW<v>         f.write(dumps(meta)); f.flush()     } the builtin; all other paths/modes go to the builtin)
  TM            shutil.move(tmp, meta)              -> module global `pysyncobj.journal.shutil` (proxy)
  JR JC JW JZ JS JM  the same kinds of writes on `<journal>.tmp`, the new file of a head drop
                (os.remove of a stale one, open 'wb', header write, resize, slice store, rename onto the
                journal): module global `pysyncobj.journal.os` (proxy: `remove`), the `open` wrapper, the
                mmap shim (it asks /proc/self/fd/<n> which file a new mapping belongs to) and the
                `shutil` proxy (a move of `*.meta.tmp` is TM, of `<journal>.tmp` is JM)
  FS:*          every OTHER file-system-changing call the module can make is intercepted one level lower and
                recorded as a primitive too, named by the roles of its paths (journal | meta | metatmp | jtmp |
                other:<name>): os.remove / unlink / rename / replace / renames / truncate, shutil.move / copy /
                copy2 / copyfile / copyfileobj, open() with w / a / x in the mode (creation or truncation is one
                event, the content reaching the file at flush / close a second, tearable one).  The known calls
                above are just the classified cases (remove of jtmp = JR, rename/move jtmp->journal = JM,
                metatmp->meta = TM, open 'wb' of metatmp / jtmp = TC+TW / JC+JW).  Kill plans stop before / after
                FS:* primitives like any other; `apply_prims` replays them on a directory image (remove = file
                absent, rename = target := source, source absent, copy, create = empty, write = content).
                Creating a fresh journal is ("FS","create","journal"), ("FS","write","journal",hdr), R1024; these
                two print as `FC`, `FW40:<adler>` (the model's names; creation is a modelled, crash-examined
                operation: kill_creation / judge_creation_image / replay_create, D74).
  fs call events = all primitives except R / S / JZ / JS; `Real.apply(op, fs_hook=...)` is called right before and
                right after each (fs_images: copy of the directory), `fs_kill=(n, "before"|"after")` kills there.
`mmap.flush()` (msync) is NOT forwarded to the real mapping (irrelevant for a killed process, no primitive
of the model, slow on a busy disk).  All four globals are restored after every single call (`patched`,
try/finally).

Kill plan `(k, t)` of a recorder: when primitive number k (0-based, counted per operation) is about to
happen, only its first t bytes are performed if it is tearable (a slice store that is not one aligned
word of <= 4 bytes; the content writes TW / JW), nothing for the atomic ones (resize, header word,
create, remove, rename), and `Killed` (a BaseException) is raised.  The Python objects are then abandoned WITHOUT `_destroy()` /
flush (the pages of a shared mapping are the file's pages: exactly what kill -9 leaves); the handles
are closed only after the files were copied (closing a mapping does not change the file).

Private attributes touched
  read only : `_FileJournal__currentOffset`, `_FileJournal__meta`, `_FileJournal__metaSaved`
              (`_ResizableFile__mm` IS our proxy, put there by the code itself through the shim; it and
              `_ResizableFile__f` / `_FileJournal__journalFile` / `_FileJournal__journalFileName` are not
              accessed: mappings and descriptors are tracked by the shim and the `open` wrapper)
  written   : none on the objects; module globals `pysyncobj.journal.mmap`, `.open`, `.shutil`, `.os`
              (restored after every call)
"""
import builtins
import hashlib
import io
import json
import mmap as _real_mmap
import os
import shutil as _real_shutil
import struct
import sys
import time
import zlib

from harness import checklib

FULL_IMG_LIMIT = 16384
INITIAL_SIZE = 1024
FIRST = 40
U32 = 2 ** 32
U64 = 2 ** 64


# ---------------------------------------------------------------------------------------------------
# tree under test
# ---------------------------------------------------------------------------------------------------
def load_journal(repo):
    """Import pysyncobj.journal from `repo` (and from nowhere else)."""
    repo = os.path.abspath(repo)
    m = sys.modules.get("pysyncobj")
    if m is not None and not os.path.abspath(getattr(m, "__file__", "") or "").startswith(repo + os.sep):
        for k in [k for k in sys.modules if k == "pysyncobj" or k.startswith("pysyncobj.")]:
            del sys.modules[k]
    if not sys.path or sys.path[0] != repo:
        sys.path.insert(0, repo)
    import pysyncobj.journal as jm
    assert os.path.abspath(jm.__file__).startswith(repo + os.sep), (jm.__file__, repo)
    return jm


def version_hex(jm):
    import pysyncobj.version as v
    return v.VERSION.encode().hex() or "-"


# ---------------------------------------------------------------------------------------------------
# recorder / kill injector
# ---------------------------------------------------------------------------------------------------
class Killed(BaseException):
    """the process was killed at the planned primitive write"""


def atomic_store(off, n):
    """one aligned word of <= 4 bytes (the header's last-record offset) cannot be torn"""
    return n <= 4 and off % 4 == 0


def is_jtmp(path):
    """`<journal>.tmp` (the new file of a head drop), as opposed to `<journal>.meta.tmp`"""
    return isinstance(path, str) and path.endswith(".tmp") and not path.endswith(".meta.tmp")


ROLE_SUFFIX = (("journal", ""), ("meta", ".meta"), ("metatmp", ".meta.tmp"), ("jtmp", ".tmp"))
ROLE_INDEX = {"journal": 0, "meta": 1, "metatmp": 2, "jtmp": 3}      # position in a directory image
MMAP_KINDS = ("R", "S", "JZ", "JS")


def is_fs_event(p):
    """a file-system call (as opposed to a store / resize through a mapping)"""
    return p[0] not in MMAP_KINDS


class Recorder(object):
    """Primitive writes in program order, each with its target file:
       journal file      ("R", n) ("S", off, bytes)
       <journal>.meta    ("TC",) ("TW", data) ("TM",)
       <journal>.tmp     ("JR",) ("JC",) ("JW", data) ("JZ", n) ("JS", off, bytes) ("JM",)
       any other file-system-changing call the module makes, by the roles of its path arguments
       (journal | meta | metatmp | jtmp | other:<basename>):
                         ("FS", "remove" | "truncate", role[, n])   ("FS", "rename" | "copy", src, dst)
                         ("FS", "create" | "append-open", role)     ("FS", "write" | "append", role, data)
    `fs_hook(n, "before"|"after", prim)` is called around every file-system call event (everything
    except R/S/JZ/JS), n = its index within the operation; `fs_kill = (n, "before"|"after")` kills there."""

    def __init__(self, base=None):
        self.base = base        # path of the journal file: roles of other paths are relative to it
        self.log = []
        self.kill = None
        self.fs_kill = None
        self.fs_hook = None
        self.fs_count = 0
        self.dead = False
        self.maps = []          # real mmap objects created through the shim
        self.files = []         # real file objects opened 'r+b' by ResizableFile
        self.flushes = 0        # mmap.flush() calls seen (not forwarded, see MmapProxy.flush)

    def begin(self, kill=None, fs_kill=None, fs_hook=None):
        self.log = []
        self.kill = kill
        self.fs_kill = fs_kill
        self.fs_hook = fs_hook
        self.fs_count = 0

    def role(self, path):
        try:
            path = os.fspath(path)
        except TypeError:
            return "other:?"
        if isinstance(path, bytes):
            path = path.decode("utf-8", "replace")
        b = os.path.basename(path)
        if self.base is not None:
            bb = os.path.basename(self.base)
            for role, sfx in ROLE_SUFFIX:
                if b == bb + sfx:
                    return role
        return "other:" + b

    def _due(self):
        if self.dead:
            raise Killed()
        return self.kill is not None and self.kill[0] == len(self.log)

    def _die(self):
        self.dead = True
        raise Killed()

    def _fs_before(self, prim):
        if self.fs_kill == (self.fs_count, "before"):
            self._die()
        if self.fs_hook is not None:
            self.fs_hook(self.fs_count, "before", prim)

    def _fs_after(self, prim):
        n = self.fs_count
        self.fs_count += 1
        if self.fs_hook is not None:
            self.fs_hook(n, "after", prim)
        if self.fs_kill == (n, "after"):
            self._die()

    def atomic(self, prim, action, *args, **kw):
        """a file-system call that happens entirely or not at all"""
        if self._due():
            self._die()
        self._fs_before(prim)
        r = action(*args, **kw)
        self.log.append(prim)
        self._fs_after(prim)
        return r

    def resize(self, mm, n, jt):
        if self._due():
            self._die()
        mm.resize(n)
        self.log.append(("JZ" if jt else "R", n))

    def store(self, mm, start, values, jt):
        values = bytes(values)
        if self._due():
            t = self.kill[1]
            if not atomic_store(start, len(values)) and t > 0:
                t = min(t, len(values))
                mm[start:start + t] = values[:t]
            self._die()
        mm[start:start + len(values)] = values          # raises IndexError when it does not fit (D8)
        self.log.append(("JS" if jt else "S", start, values))

    def file_write(self, head, f, data):
        """content written to a file opened for writing and flushed (TW: .meta.tmp, JW: <journal>.tmp,
        ("FS", "write", role) elsewhere); can be torn: a prefix"""
        prim = tuple(head) + (bytes(data),)
        if self._due():
            t = min(self.kill[1], len(data))
            if t > 0:
                f.write(data[:t])
            f.flush()
            self._die()
        self._fs_before(prim)
        f.write(data)
        f.flush()
        self.log.append(prim)
        self._fs_after(prim)

    # -- classification of file-system calls -------------------------------------------------------
    def call_remove(self, name, fn, path, *a, **k):
        role = self.role(path)
        prim = ("JR",) if role == "jtmp" else ("FS", "remove", role)
        return self.atomic(prim, fn, path, *a, **k)

    def call_move(self, name, fn, src, dst, *a, **k):
        rs, rd = self.role(src), self.role(dst)
        if (rs, rd) == ("jtmp", "journal"):
            prim = ("JM",)
        elif (rs, rd) == ("metatmp", "meta"):
            prim = ("TM",)
        else:
            prim = ("FS", "rename", rs, rd)
        return self.atomic(prim, fn, src, dst, *a, **k)

    def call_copy(self, name, fn, src, dst, *a, **k):
        rs = self.role(src) if isinstance(src, (str, bytes)) or hasattr(src, "__fspath__") else "other:<fileobj>"
        rd = self.role(dst) if isinstance(dst, (str, bytes)) or hasattr(dst, "__fspath__") else "other:<fileobj>"
        return self.atomic(("FS", "copy", rs, rd), fn, src, dst, *a, **k)

    def call_truncate(self, name, fn, path, n, *a, **k):
        return self.atomic(("FS", "truncate", self.role(path), n), fn, path, n, *a, **k)


class MmapProxy(object):
    """forwards to the real mapping; records resize and slice stores (with the file they go to)"""

    def __init__(self, rec, mm, jt):
        self._rec = rec
        self._mm = mm
        self._jt = jt

    def size(self):
        return self._mm.size()

    def __len__(self):
        return len(self._mm)

    def resize(self, n):
        self._rec.resize(self._mm, n, self._jt)

    def __getitem__(self, key):
        return self._mm[key]

    def __setitem__(self, key, values):
        if isinstance(key, slice) and key.step in (None, 1) and key.start is not None and key.start >= 0:
            if key.stop is not None and key.stop - key.start != len(values):
                self._mm[key] = values      # let the real mapping raise its own error
                raise AssertionError("unreachable: slice of the wrong size was accepted")
            self._rec.store(self._mm, key.start, values, self._jt)
        else:
            raise AssertionError("journal harness: unexpected mmap store %r" % (key,))

    def flush(self, *a):
        # msync is not forwarded: it only matters for power loss, not for a killed process (the pages of
        # a shared mapping are the file's page-cache pages, which is also what the harness reads), it is
        # not a primitive of the model, and on a busy disk it dominates the run time
        self._rec.flushes += 1
        return None

    def close(self):
        return self._mm.close()

    @property
    def closed(self):
        return self._mm.closed


class _MmapShim(object):
    """stands in for module `mmap` inside pysyncobj.journal"""

    def __init__(self, rec):
        self._rec = rec

    def mmap(self, fileno, *a, **k):
        mm = _real_mmap.mmap(fileno, *a, **k)
        self._rec.maps.append(mm)
        try:
            target = os.readlink("/proc/self/fd/%d" % fileno)
        except OSError:
            target = ""
        return MmapProxy(self._rec, mm, self._rec.role(target) == "jtmp" if self._rec.base else is_jtmp(target))

    def __getattr__(self, name):
        return getattr(_real_mmap, name)


class _NewFile(object):
    """a file opened for writing by the code under test: its creation / truncation is one file-system
    call event, the content reaching the file (flush or close) a second one.  `.meta.tmp`: TC, TW;
    `<journal>.tmp`: JC, JW; any other path: ("FS", "create", role), ("FS", "write", role, data);
    append mode: ("FS", "append-open", role), ("FS", "append", role, data).  write() is buffered."""

    def __init__(self, rec, path, mode, a, k):
        self._rec = rec
        role = rec.role(path)
        if "a" in mode:
            heads = (("FS", "append-open", role), ("FS", "append", role))
        elif role == "metatmp":
            heads = (("TC",), ("TW",))
        elif role == "jtmp":
            heads = (("JC",), ("JW",))
        else:
            heads = (("FS", "create", role), ("FS", "write", role))
        self._whead = heads[1]
        self._f = rec.atomic(heads[0], builtins.open, path, mode, *a, **k)
        self._buf = b""

    def write(self, data):
        self._buf += bytes(data)
        return len(data)

    def flush(self):
        if self._buf:
            data, self._buf = self._buf, b""
            self._rec.file_write(self._whead, self._f, data)

    def close(self):
        try:
            if self._buf and not self._rec.dead:
                self.flush()
        finally:
            self._f.close()

    def __enter__(self):
        return self

    def __exit__(self, *exc):
        self.close()
        return False

    def __getattr__(self, name):
        return getattr(self._f, name)


class _ShutilProxy(object):
    """stands in for module `shutil`: move / copy* are file-system call events"""

    def __init__(self, rec):
        self._rec = rec

    def move(self, src, dst, *a, **k):
        self._rec.call_move("move", _real_shutil.move, src, dst, *a, **k)
        return dst

    def copy(self, src, dst, *a, **k):
        return self._rec.call_copy("copy", _real_shutil.copy, src, dst, *a, **k)

    def copy2(self, src, dst, *a, **k):
        return self._rec.call_copy("copy2", _real_shutil.copy2, src, dst, *a, **k)

    def copyfile(self, src, dst, *a, **k):
        return self._rec.call_copy("copyfile", _real_shutil.copyfile, src, dst, *a, **k)

    def copyfileobj(self, src, dst, *a, **k):
        return self._rec.call_copy("copyfileobj", _real_shutil.copyfileobj, src, dst, *a, **k)

    def __getattr__(self, name):
        return getattr(_real_shutil, name)


class _OsProxy(object):
    """stands in for module `os`: remove / unlink / rename / replace / renames / truncate are
    file-system call events"""

    def __init__(self, rec):
        self._rec = rec

    def remove(self, path, *a, **k):
        return self._rec.call_remove("remove", os.remove, path, *a, **k)

    def unlink(self, path, *a, **k):
        return self._rec.call_remove("unlink", os.unlink, path, *a, **k)

    def rename(self, src, dst, *a, **k):
        return self._rec.call_move("rename", os.rename, src, dst, *a, **k)

    def replace(self, src, dst, *a, **k):
        return self._rec.call_move("replace", os.replace, src, dst, *a, **k)

    def renames(self, src, dst):
        return self._rec.call_move("renames", os.renames, src, dst)

    def truncate(self, path, n):
        return self._rec.call_truncate("truncate", os.truncate, path, n)

    def __getattr__(self, name):
        return getattr(os, name)


class patched(object):
    """context manager: install the module globals `open`, `shutil`, `mmap`, `os` of pysyncobj.journal,
    restore them on exit"""

    def __init__(self, jm, rec):
        self.jm, self.rec = jm, rec

    def __enter__(self):
        jm, rec = self.jm, self.rec
        self.had_open = "open" in jm.__dict__
        self.old_open = jm.__dict__.get("open")
        self.old = (jm.shutil, jm.mmap, jm.os)

        def _open(path, mode="r", *a, **k):
            if isinstance(path, (str, bytes)) or hasattr(path, "__fspath__"):
                if any(c in mode for c in "wax"):
                    return _NewFile(rec, path, mode, a, k)     # creation / truncation / append
            f = builtins.open(path, mode, *a, **k)
            if "+" in mode:                                    # 'r+b': the descriptor behind a mapping
                rec.files.append(f)
            return f

        jm.open = _open
        jm.shutil = _ShutilProxy(rec)
        jm.mmap = _MmapShim(rec)
        jm.os = _OsProxy(rec)
        return self

    def __exit__(self, *exc):
        jm = self.jm
        if self.had_open:
            jm.open = self.old_open
        else:
            del jm.open
        jm.shutil, jm.mmap, jm.os = self.old
        return False


# ---------------------------------------------------------------------------------------------------
# ops (JSON-able lists) and commands
# ---------------------------------------------------------------------------------------------------
#   ["add", idx, term, cmdspec]   cmdspec = {"n": len, "s": seed} | {"hex": "..."} | {"str": "..."}
#   ["clear"] ["delfrom", n] ["delto", n] ["setci", v] ["timer"] ["reopen", "destroy"|"abandon"]
#   ["settv", term, vote]         setTermAndVote (stores the whole meta dict at once); skipped silently on a
#                                 tree whose journal has no such method
#   ["crashat", ["delto", n], k, t]   head drop really killed at / before its rename, then reopened
def cmd_of(spec):
    if "hex" in spec:
        return bytes.fromhex(spec["hex"])
    if "str" in spec:
        return spec["str"]
    n = spec["n"]
    pat = hashlib.sha256(b"%d" % spec.get("s", 0)).digest()
    return (pat * (n // 32 + 1))[:n]


def to_bytes(c):
    return c if isinstance(c, bytes) else c.encode("utf-8")


def cmd_len(spec):
    if "n" in spec:
        return spec["n"]
    return len(to_bytes(cmd_of(spec)))


def op_line(op):
    k = op[0]
    if k == "add":
        return "add %d %d %s" % (op[1], op[2], to_bytes(cmd_of(op[3])).hex() or "-")
    if k in ("delfrom", "delto", "setci"):
        return "%s %d" % (k, op[1])
    return k            # clear, timer, reopen, settv


def ops_hash(obj):
    return hashlib.sha1(json.dumps(obj, sort_keys=True).encode()).hexdigest()


def adler(b):
    return zlib.adler32(b) & 0xFFFFFFFF


def ent_str(e):
    c = to_bytes(e[0])
    return "%d:%d:%d:%d" % (e[1], e[2], len(c), adler(c))


def ents_str(es):
    return ",".join(ent_str(e) for e in es) or "-"


def prim_str(p, jm):
    if p[0] in ("R", "JZ"):
        return "%s%d" % (p[0], p[1])
    if p[0] in ("S", "JS"):
        return "%s%d:%d:%d" % (p[0], p[1], len(p[2]), adler(p[2]))
    if p[0] == "TW":
        return "TW" + meta_value_str(jm, p[1])
    if p[0] == "JW":
        return "JW%d:%d" % (len(p[1]), adler(p[1]))
    if p[0] == "FS" and p[1:3] == ("create", "journal"):
        return "FC"
    if p[0] == "FS" and p[1:3] == ("write", "journal"):
        return "FW%d:%d" % (len(p[3]), adler(p[3]))
    if p[0] == "FS":
        if p[1] in ("rename", "copy"):
            return "FS:%s:%s->%s" % (p[1], p[2], p[3])
        if p[1] in ("write", "append"):
            return "FS:%s:%s:%d:%d" % (p[1], p[2], len(p[3]), adler(p[3]))
        return "FS:" + ":".join(str(x) for x in p[1:])
    return p[0]


def prims_str(ps, jm):
    return ",".join(prim_str(p, jm) for p in ps) or "-"


def meta_value_str(jm, data):
    """content of a (tmp) meta file -> stored raftCommitIndex, or None when not a complete pickle"""
    try:
        d = jm.loads(data)
        v = d.get("raftCommitIndex")
    except Exception:
        return "torn"
    return "none" if v is None else str(v)


# ---------------------------------------------------------------------------------------------------
# the real journal under the recorder
# ---------------------------------------------------------------------------------------------------
class Real(object):
    def __init__(self, jm, path, factory="FileJournal", kill=None, fs_kill=None, fs_hook=None):
        self.jm, self.path, self.factory = jm, path, factory
        self.rec = Recorder(base=path)
        self.rec.begin(kill, fs_kill, fs_hook)
        self.j = None
        try:
            with patched(jm, self.rec):
                self.j = jm.createJournal(path) if factory == "createJournal" else jm.FileJournal(path)
        except BaseException:
            # the constructor failed or was killed: release what it had opened (file content unaffected)
            self.abandon()
            raise
        finally:
            self.open_prims = list(self.rec.log)

    def apply(self, op, kill=None, fs_kill=None, fs_hook=None):
        """run one op (not reopen) on the real object; returns the recorded primitives.
        kill = (k, t): die when primitive k is due (t bytes of it done); fs_kill = (n, "before"|"after"):
        die right before / after file-system call event n; fs_hook(n, when, prim): called around each."""
        j, k = self.j, op[0]
        self.rec.begin(kill, fs_kill, fs_hook)
        with patched(self.jm, self.rec):
            if k == "add":
                j.add(cmd_of(op[3]), op[1], op[2])
            elif k == "clear":
                j.clear()
            elif k == "delfrom":
                j.deleteEntriesFrom(op[1])
            elif k == "delto":
                j.deleteEntriesTo(op[1])
            elif k == "setci":
                j.setRaftCommitIndex(op[1])
            elif k == "timer":
                j.onOneSecondTimer()
            elif k == "settv":
                j.setTermAndVote(op[1], op[2])
            else:
                raise ValueError("bad op %r" % (op,))
        return list(self.rec.log)

    def has_tv(self):
        return hasattr(self.j, "setTermAndVote")

    def tv(self):
        """(term, vote) as the journal reports it; (0, None) on a tree without the method"""
        return tuple(self.j.getTermAndVote()) if hasattr(self.j, "getTermAndVote") else (0, None)

    # -- observation
    def cur(self):
        return self.j._FileJournal__currentOffset

    def saved(self):
        return bool(self.j._FileJournal__metaSaved)

    def pending_ci(self):
        """value of an unsaved setRaftCommitIndex, else None"""
        if self.saved():
            return None
        return self.j._FileJournal__meta.get("raftCommitIndex")

    def entries(self):
        j = self.j
        return [j[i] for i in range(len(j))]

    def view(self):
        return {"len": len(self.j), "cur": self.cur(), "fsize": os.path.getsize(self.path)}

    def summary(self, prims=None):
        j = self.j
        s = "len=%d cur=%d ci=%d saved=%d %s" % (len(j), self.cur(), j.getRaftCommitIndex(),
                                                  1 if self.saved() else 0, disk_str(self.jm, self.path))
        if prims is not None:
            s += " P " + prims_str(prims, self.jm)
        return s

    # -- end of life
    def destroy(self):
        self.j._destroy()

    def abandon(self):
        """kill -9: no flush, no _destroy; only release the handles of every file this object ever
        mapped (journal and, inside a head drop, <journal>.tmp); file content is unaffected"""
        for h in self.rec.maps + self.rec.files:
            try:
                h.close()
            except Exception:
                pass


def reopen(real, style):
    """both styles of reopen; returns the new Real (its .open_prims are the primitives of the reopen)"""
    if style == "destroy":
        real.destroy()
        return Real(real.jm, real.path, real.factory)
    new = Real(real.jm, real.path, real.factory)        # old mapping still alive, as after a kill
    real.abandon()
    return new


# ---------------------------------------------------------------------------------------------------
# files
# ---------------------------------------------------------------------------------------------------
def _read(p):
    try:
        with builtins.open(p, "rb") as f:
            return f.read()
    except FileNotFoundError:
        return None


SUFFIXES = ("", ".meta", ".meta.tmp", ".tmp")


def snapshot(path):
    """image of the directory: (journal bytes, .meta bytes | None, .meta.tmp bytes | None,
    <journal>.tmp bytes | None)"""
    return tuple(_read(path + sfx) for sfx in SUFFIXES)


def write_snapshot(path, snap):
    for suffix, data in zip(SUFFIXES, snap):
        p = path + suffix
        if data is None:
            if os.path.exists(p):
                os.unlink(p)
        else:
            with builtins.open(p, "wb") as f:
                f.write(data)


def remove_files(path):
    for suffix in SUFFIXES:
        try:
            os.unlink(path + suffix)
        except FileNotFoundError:
            pass


def meta_str(jm, path):
    """commit index stored in <path>.meta read with the real MetaStorer"""
    v = jm.MetaStorer(path + ".meta").getMeta().get("raftCommitIndex")
    return "none" if v is None else str(v)


def tmp_str(jm, path):
    data = _read(path + ".meta.tmp")
    if data is None:
        return "absent"
    v = meta_value_str(jm, data)
    return "torn" if v == "torn" else "full:" + v


def jt_str(data):
    return "absent" if data is None else "%d:%d" % (len(data), adler(data))


def disk_str(jm, path, data=None):
    if data is None:
        data = _read(path) or b""
    return "fsize=%d fsum=%d meta=%s tmp=%s jt=%s" % (len(data), adler(data), meta_str(jm, path), tmp_str(jm, path),
                                                      jt_str(_read(path + ".tmp")))


def apply_prims(snap, prims, k, t):
    """crash image (A): the snapshot with the first k recorded primitives applied, plus the first t
    bytes of primitive k when that one can be torn.  A file that does not exist is None."""
    d = [None if x is None else bytearray(x) for x in snap]      # journal, meta, metatmp, jtmp
    J, M, T, JT = 0, 1, 2, 3

    def resize(i, n):
        g = d[i]
        if g is not None:
            if n >= len(g):
                g.extend(b"\0" * (n - len(g)))
            else:
                del g[n:]

    def one(p, torn=None):
        kind = p[0]
        if kind in ("R", "JZ"):
            if torn is None:
                resize(J if kind == "R" else JT, p[1])
        elif kind in ("S", "JS"):
            g = d[J if kind == "S" else JT]
            off, bs = p[1], p[2]
            if torn is not None:
                if atomic_store(off, len(bs)):
                    return
                bs = bs[:torn]
            if g is not None:
                g[off:off + len(bs)] = bs
        elif kind in ("JW", "TW"):
            d[JT if kind == "JW" else T] = bytearray(p[1] if torn is None else p[1][:torn])
        elif kind == "FS" and p[1] in ("write", "append"):
            i = ROLE_INDEX.get(p[2])
            if i is not None:
                data = p[3] if torn is None else p[3][:torn]
                d[i] = bytearray(data) if p[1] == "write" else (d[i] or bytearray()) + data
        elif torn is not None:
            return                                   # everything below is atomic
        elif kind == "TC":
            d[T] = bytearray()
        elif kind == "TM":
            if d[T] is not None:
                d[M], d[T] = d[T], None
        elif kind == "JR":
            d[JT] = None
        elif kind == "JC":
            d[JT] = bytearray()
        elif kind == "JM":
            if d[JT] is not None:
                d[J], d[JT] = d[JT], None
        elif kind == "FS":
            i = ROLE_INDEX.get(p[2])
            if p[1] == "remove":
                if i is not None:
                    d[i] = None
            elif p[1] == "create":
                if i is not None:
                    d[i] = bytearray()
            elif p[1] == "append-open":
                if i is not None and d[i] is None:
                    d[i] = bytearray()
            elif p[1] == "truncate":
                if i is not None:
                    resize(i, p[3])
            elif p[1] in ("rename", "copy"):
                jdst = ROLE_INDEX.get(p[3])
                src = d[i] if i is not None else None
                if jdst is not None and src is not None:
                    d[jdst] = bytearray(src)
                if p[1] == "rename" and i is not None:
                    d[i] = None

    for p in prims[:k]:
        one(p)
    if k < len(prims):
        one(prims[k], torn=t)
    return tuple(None if x is None else bytes(x) for x in d)


def prim_len(p):
    """length of a tearable primitive, 0 for the atomic ones"""
    if p[0] in ("S", "JS") and not atomic_store(p[1], len(p[2])):
        return len(p[2])
    if p[0] in ("TW", "JW"):
        return len(p[1])
    if p[0] == "FS" and p[1] in ("write", "append"):
        return len(p[3])
    return 0


def real_kill(jm, path, snap, pending_ci, op, k, t):
    """(B) really kill: pre-op files at `path`, fresh FileJournal, run `op` with kill plan (k, t).
    Returns (files after the kill, killed?, primitives that completed, exception of the op | None)."""
    write_snapshot(path, snap)
    r = Real(jm, path)
    killed, exc = False, None
    try:
        if pending_ci is not None:
            r.j.setRaftCommitIndex(pending_ci)
        try:
            r.apply(op, kill=(k, t))
        except Killed:
            killed = True
        except Exception as e:          # noqa  the op itself fails (e.g. D8 on an unrepaired tree)
            exc = e
        img = snapshot(path)            # copy first ...
    finally:
        r.abandon()                     # ... release the handles afterwards
    return img, killed, list(r.rec.log), exc


def open_image(jm, path, img):
    """reopen a crash image with the real class. Returns dict(err | len, cur, ci, ents, prims, disk)."""
    write_snapshot(path, img)
    disk = disk_str(jm, path)
    try:
        r = Real(jm, path)
    except struct.error:
        return {"err": "structError", "disk": disk}
    except ValueError as e:
        return {"err": "emptyFile" if "empty" in str(e) else "ValueError", "disk": disk}
    except Exception as e:                              # noqa
        return {"err": type(e).__name__, "disk": disk}
    return {"real": r, "len": len(r.j), "cur": r.cur(), "ci": r.j.getRaftCommitIndex(), "tv": r.tv(),
            "ents": r.entries(), "prims": r.open_prims, "disk": disk}


def is_creation(prims):
    """what creating a fresh journal does: open 'wb', write the 40-byte header, map, resize to 1024"""
    return (len(prims) == 3 and prims[0] == ("FS", "create", "journal") and prims[1][:3] == ("FS", "write", "journal")
            and len(prims[1][3]) == FIRST and prims[2] == ("R", INITIAL_SIZE))


def dry_prims(jm, scratch, real, op):
    """the primitives `op` issues at the current state of `real`: the op is run on a copy of the files"""
    img, killed, done, exc = real_kill(jm, scratch, snapshot(real.path), real.pending_ci(), op, 10 ** 9, 0)
    remove_files(scratch)
    return done


def concretise_crashat(jm, scratch, real, aop):
    """["crashat", ["delto", n], k, t]: really kill the head drop when primitive k is due (t bytes of it
    done), then reopen.  k / t may be floats in [0, 1): fraction of the primitives up to the rename /
    of the bytes of primitive k.  The kill is always placed at or before the rename (k <= its index),
    so the list must be unchanged; on a tree without the rename (clear + re-add) k becomes 0."""
    _, op, k, t = aop
    assert op[0] == "delto", aop
    done = dry_prims(jm, scratch, real, op)
    jm_idx = next((i for i, p in enumerate(done) if p[0] == "JM"), 0)
    k = int(k * (jm_idx + 1)) if isinstance(k, float) else k
    k = max(0, min(k, jm_idx))
    L = prim_len(done[k]) if k < len(done) else 0
    t = int(t * L) if isinstance(t, float) else t
    t = max(0, min(t, max(L - 1, 0)))
    return ["crashat", list(op), k, t], done


def crash_reopen(real, op, k, t):
    """kill `op` at (k, t) on the live object, abandon it, reopen the same path"""
    killed = False
    try:
        real.apply(op, kill=(k, t))
    except Killed:
        killed = True
    real.abandon()
    return Real(real.jm, real.path, real.factory), killed


def model_crash_load(model, op, k, t):
    """make the model's own crash image of `op` at (k, t) its new state (`load`); None when that image
    has a `.meta.tmp` (load cannot carry it)"""
    q = "%d %d %s" % (k, t, op_line(op))
    kv = parse_kv(model.ask("crash " + q).split(" | ")[0])
    if kv.get("tmp") != "absent":
        return None
    img = model.ask("crashimg " + q)
    jt = model.ask("crashjt " + q)
    return model.ask("load %s %s%s" % (img, kv.get("meta", "none"), "" if jt == "absent" else " " + jt))


# ---------------------------------------------------------------------------------------------------
# the model
# ---------------------------------------------------------------------------------------------------
class Model(object):
    """`driver journal` (started through checklib.DriverProc; reads are buffered here because the
    replies can be long hex lines)"""

    def __init__(self, jm):
        for attempt in range(40):                   # the binary vanishes for a moment while lake relinks it
            try:
                self.d = checklib.DriverProc("journal")
                break
            except (checklib.DriverError, OSError):
                if attempt == 39:
                    raise
                time.sleep(0.5)
        self.out = io.BufferedReader(self.d.p.stdout, 1 << 20)
        self.ver = version_hex(jm)

    def ask(self, line):
        data = memoryview((line + "\n").encode())
        fd = self.d.p.stdin
        while len(data):
            n = fd.write(data)
            data = data[n or 0:]
        r = self.out.readline()
        if not r:
            raise checklib.DriverError("driver journal died: " + self.d.p.stderr.read().decode()[-2000:])
        return r.decode().rstrip("\n")

    def new(self):
        return self.ask("new " + self.ver)

    def img(self):
        h = self.ask("img")
        return b"" if h == "-" else bytes.fromhex(h)

    def jt(self):
        h = self.ask("jt")
        return None if h == "absent" else (b"" if h == "-" else bytes.fromhex(h))

    def close(self):
        self.d.close()


def parse_kv(s):
    d = {}
    for tok in s.split(" "):
        if "=" in tok:
            a, b = tok.split("=", 1)
            d[a] = b
    return d


def first_diff(a, b):
    """name the first differing field of two summary strings"""
    ta, tb = a.split(" "), b.split(" ")
    for x, y in zip(ta, tb):
        if x != y:
            return "%s vs %s" % (x[:80], y[:80])
    return "length %d vs %d" % (len(ta), len(tb))


# ---------------------------------------------------------------------------------------------------
# list semantics of the property statement (reference = plain Python list)
# ---------------------------------------------------------------------------------------------------
def ref_apply(ref, op):
    k = op[0]
    if k == "add":
        ref.append((cmd_of(op[3]), op[1], op[2]))
    elif k == "clear":
        del ref[:]
    elif k == "delfrom":
        del ref[op[1]:]
    elif k == "delto":
        ref[:] = ref[op[1]:]
    elif k in ("reopen", "crashat"):
        # (crashat = head drop killed before its rename, then reopened: the list is unchanged)
        # a str command comes back as its utf-8 bytes after a reopen (SyncObj only stores bytes)
        ref[:] = [(to_bytes(c), i, t) for (c, i, t) in ref]
    return ref


def mem_apply(mj, op):
    k = op[0]
    if k == "add":
        mj.add(cmd_of(op[3]), op[1], op[2])
    elif k == "clear":
        mj.clear()
    elif k == "delfrom":
        mj.deleteEntriesFrom(op[1])
    elif k == "delto":
        mj.deleteEntriesTo(op[1])
    elif k == "setci":
        mj.setRaftCommitIndex(op[1])
    elif k == "timer":
        mj.onOneSecondTimer()
    elif k == "settv" and hasattr(mj, "setTermAndVote"):
        mj.setTermAndVote(op[1], op[2])


def short_ents(es, limit=6):
    s = ["(%d,%d,%dB)" % (e[1], e[2], len(to_bytes(e[0]))) for e in es[:limit]]
    if len(es) > limit:
        s.append("...%d more" % (len(es) - limit))
    return "[" + " ".join(s) + "]"


D15_SIGNATURE = "journal.deleteEntriesTo:kill-between-clear-and-readd"
D8_SIGNATURE = "journal.ResizableFile.write:grow-once-record-larger-than-file"


def crash_monitor(op, old, res, ci, allowed_ci):
    """The crash clause of C08 on the REAL reopened journal.  `old` = entries before the interrupted
    op, `res` = entries after reopen.  Returns None or (signature, what).  For deleteEntriesTo the
    statement admits old[a:] with a <= n (the repaired code only ever leaves old or old[n:]; anything
    in between would also show up as a disagreement with the model); a proper prefix of the entries to
    keep is the head-drop loss D15 (clear + re-add killed in between)."""
    k = op[0]
    if ci not in allowed_ci:
        return ("journal.meta:commit-index-never-set",
                "commit index %r after reopen is not among the admissible ones %s (values passed to setRaftCommitIndex; "
                "the default 1 only while no commit index had been stored)" % (ci, sorted(allowed_ci)))
    n = len(old)
    if k == "add":
        e = (to_bytes(cmd_of(op[3])), op[1], op[2])
        if res != old and res != old + [e]:
            return ("journal.add:torn-append-visible",
                    "append is not all-or-nothing: before %s, after kill+reopen %s" % (short_ents(old), short_ents(res)))
    elif k == "clear":
        if res != old and res != []:
            return ("journal.clear:partial", "before %s after %s" % (short_ents(old), short_ents(res)))
    elif k == "delfrom":
        keep = min(op[1], n)
        if not (keep <= len(res) <= n and res == old[:len(res)]):
            return ("journal.deleteEntriesFrom:kept-entry-lost",
                    "deleteEntriesFrom(%d) on %d entries: after kill+reopen %d entries %s, not a prefix holding the first %d"
                    % (op[1], n, len(res), short_ents(res), keep))
    elif k == "delto":
        a_max = min(op[1], n)
        # contiguous range of old that includes everything meant to be kept: old[a:] with a <= a_max
        if len(res) <= n and n - len(res) <= a_max and res == old[n - len(res):]:
            return None
        kept = old[a_max:]
        if len(res) < len(kept) and res == kept[:len(res)]:
            return (D15_SIGNATURE, "deleteEntriesTo(%d) on %d entries: after kill+reopen only %d of the %d entries to keep survive %s"
                    % (op[1], n, len(res), len(kept), short_ents(res)))
        return ("journal.deleteEntriesTo:not-a-range-of-previous-entries",
                "deleteEntriesTo(%d) on %d entries: after kill+reopen %s" % (op[1], n, short_ents(res)))
    else:
        if res != old:
            return ("journal.%s:entries-changed" % k, "before %s after %s" % (short_ents(old), short_ents(res)))
    return None


# ---------------------------------------------------------------------------------------------------
# file-system level crash images, model-free: the directory before and after every file-system call
# ---------------------------------------------------------------------------------------------------
METHOD = {"add": "add", "clear": "clear", "delfrom": "deleteEntriesFrom", "delto": "deleteEntriesTo",
          "setci": "setRaftCommitIndex", "timer": "onOneSecondTimer", "settv": "setTermAndVote"}


def no_stored_ci(jm, snap):
    """the default commit index 1 is admissible after a kill only while none had been stored: no .meta, or a
    .meta written by setTermAndVote before any setRaftCommitIndex"""
    return snap[1] is None or meta_value_str(jm, snap[1]) in ("none", "torn")


TAIL_SIG = "journal.%s:reopened-journal-breaks-on-continuation"


def tail_variant(jm, scratch, img, variant):
    """One fixed continuation on the journal reopened from a directory image, judged against a plain
    Python list that starts from the reopened entries (model-free).
      "A": deleteEntriesFrom(len-1) (skipped when empty), add, deleteEntriesTo(1), add, reopen
      "B": deleteEntriesFrom(0) (walks back over EVERY record, also those written before the kill), add, reopen
    Returns (None | text of the failing step, number of steps done)."""
    write_snapshot(scratch, img)
    steps = 0
    r = None
    try:
        try:
            r = Real(jm, scratch)
        except Exception as e:                           # noqa  (judged elsewhere: the reopen itself fails)
            return None, 0
        ref = r.entries()
        if variant == "A":
            plan = ([["delfrom", len(ref) - 1]] if ref else []) + [["add", 1001, 9, {"hex": "6331"}], ["delto", 1],
                                                                      ["add", 1002, 9, {"hex": "6332"}], ["reopen", "destroy"]]
        else:
            plan = [["delfrom", 0], ["add", 1003, 9, {"hex": "6333"}], ["reopen", "destroy"]]
        for op in plan:
            steps += 1
            name = "%s(%s)" % (METHOD.get(op[0], op[0]), op[1] if op[0] in ("delfrom", "delto") else "")
            try:
                if op[0] == "reopen":
                    r = reopen(r, op[1])
                else:
                    r.apply(op)
                ref_apply(ref, op)
                got = r.entries()
            except Exception as e:                       # noqa
                return "step %d %s raised %s: %s" % (steps, name, type(e).__name__, e), steps
            if got != ref:
                return "after step %d %s the journal holds %s, a plain list %s" % (steps, name, short_ents(got), short_ents(ref)), steps
        return None, steps
    finally:
        if r is not None:
            r.abandon()
        remove_files(scratch)


def judge_tail(jm, scratch, img, opname, cov=None):
    """both fixed tails on (fresh copies of) one crash image; None or (signature, what, variant)"""
    if cov is not None:
        cov.hit("tail.points")
        cov.hit("tail.after." + opname)
    key = hash(img)
    hit = _TAIL_CACHE.get(key)
    if hit is not None and hit[0] == img:               # the very same directory image was continued before
        if cov is not None:
            cov.hit("tail.same_image_as_before")
            cov.hit("tail.steps", hit[2])
        res = hit[1]
    else:
        res, total = None, 0
        for variant in ("A", "B"):
            bad, steps = tail_variant(jm, scratch, img, variant)
            total += steps
            if bad is not None:
                res = (bad, variant)
                break
        if cov is not None:
            cov.hit("tail.steps", total)
        if len(_TAIL_CACHE) > 4000:
            _TAIL_CACHE.clear()
        _TAIL_CACHE[key] = (img, res, total)
    if res is not None:
        return (TAIL_SIG % opname, "the journal reopened after the kill equals the expected list, but continuing on it fails "
                                   "(tail %s): %s" % (res[1], res[0]), res[1])
    return None


_TAIL_CACHE = {}


def judge_image(jm, scratch, img, op, old, adm_ci, tv_old, cov=None, tail=True):
    """Verdict of the property statement on one directory image left by a kill inside `op` (`old` =
    entries before the op): reopen it with the real class and apply crash_monitor + the (term, vote)
    rule.  A missing journal file is a violation by itself when there were entries: reopening silently
    creates a fresh empty journal.  Returns None or (signature, what)."""
    if img[0] is None and old:
        return ("journal.%s:journal-file-missing-after-kill" % METHOD.get(op[0], op[0]),
                "the journal file does not exist (a reopen creates a fresh empty journal); it held %d entries %s"
                % (len(old), short_ents(old)))
    o = open_image(jm, scratch, img)
    try:
        if "err" in o:
            return ("journal.%s:reopen-raises-after-kill:%s" % (op[0], o["err"]), "reopening raises " + o["err"])
        m = crash_monitor(op, old, o["ents"], o["ci"], adm_ci)
        tv_ok = {tuple(tv_old)} | ({(op[1], op[2])} if op[0] == "settv" else set())
        if m is None and o["tv"] not in tv_ok:
            m = ("journal.setTermAndVote:lost-or-invented-after-kill",
                 "(term, vote) after kill+reopen is %r, admissible: %s" % (o["tv"], sorted(tv_ok, key=repr)))
        if m is not None or not tail:
            return m
    finally:
        if "real" in o:
            o["real"].abandon()
        remove_files(scratch)
    t = judge_tail(jm, scratch, img, METHOD.get(op[0], op[0]), cov)
    return None if t is None else t[:2]


def fs_images(real, op):
    """run `op` on the live journal; returns (primitives, [(n, "before"|"after", prim, directory image)]):
    the four files as they are right before and right after each file-system call event of the op
    (stores through the mappings made so far are in the files already)"""
    imgs = []

    def hook(n, when, prim):
        imgs.append((n, when, prim, snapshot(real.path)))

    prims = real.apply(op, fs_hook=hook)
    return prims, imgs


def judge_fs_images(jm, scratch, imgs, op, old, adm_ci, tv_old, cov=None):
    """model-free verdict on every image of fs_images; returns [(signature, what, n, when)]"""
    out, seen = [], {}
    events = [x for x in imgs if x[1] == "after"]
    nev = len(events)
    if cov is not None:
        cov.hit("fs_calls." + op[0], nev)
        if op[0] == "delto":
            cov.hit("fs.headdrop_calls", nev)
            befores = set(x[0] for x in imgs if x[1] == "before")
            cov.hit("fs.headdrop_calls_with_before_and_after", len([e for e in events if e[0] in befores]))
    for i, (n, when, prim, img) in enumerate(imgs):
        if cov is not None:
            cov.hit("fs_images")
            if (when == "after" and n < nev - 1) or (when == "before" and n > 0):
                cov.hit("fs_images.between_two_fs_calls_of_one_op")
        if img in seen:
            m = seen[img]
        else:
            m = seen[img] = judge_image(jm, scratch, img, op, old, adm_ci, tv_old, cov)
            if cov is not None:
                cov.hit("fs_images.reopened")
        if m is not None:
            nxt = next((x for x in imgs[i + 1:] if x[1] == "before"), None)
            prv = next((x for x in reversed(imgs[:i + 1]) if x[1] == "after"), None)
            where = "%s %s (file-system call #%d of %s)" % (when, prim_str_short(prim), n, op[:2])
            if when == "after" and nxt is not None:
                where += ", i.e. between it and " + prim_str_short(nxt[2])
            elif when == "before" and prv is not None:
                where += ", i.e. between %s and it" % prim_str_short(prv[2])
            out.append((m[0], "killed %s: %s" % (where, m[1]), n, when))
    return out


def prim_str_short(p):
    if p[0] == "FS":
        return "FS:" + ":".join(str(x) for x in p[1:] if not isinstance(x, bytes))
    return {"JR": "os.remove(<journal>.tmp)", "JC": "open(<journal>.tmp,'wb')", "JW": "write of <journal>.tmp",
            "JM": "rename(<journal>.tmp -> journal)", "TC": "open(.meta.tmp,'wb')", "TW": "write of .meta.tmp",
            "TM": "rename(.meta.tmp -> .meta)"}.get(p[0], p[0])


class SeqState(object):
    """model-free bookkeeping while an op sequence runs on a real journal: reference list, commit
    indices ever set, (term, vote) last stored"""

    def __init__(self):
        self.ref, self.allowed, self.tv, self.pre = [], set(), (0, None), []

    def note(self, op):
        ref_apply(self.ref, op)
        if op[0] == "setci":
            self.allowed.add(op[1])
        elif op[0] == "settv":
            self.tv = (op[1], op[2])
        self.pre.append(op)


def step_plain(jm, real, op, scratch):
    """advance the real journal by one op of a replay / state-building sequence (no checks);
    returns the (possibly new) Real, or None when the op is skipped"""
    if op[0] == "reopen":
        return reopen(real, op[1])
    if op[0] == "crashat":
        op, _ = concretise_crashat(jm, scratch, real, op)
        return crash_reopen(real, op[1], op[2], op[3])[0]
    if op[0] == "settv" and not real.has_tv():
        return None
    real.apply(op)
    return real


def fs_check_sequence(jm, tmp, ops, factory="FileJournal", cov=None, limit=1):
    """The fs-level image pass on every op of a sequence, model-free.  Returns a list of violations
    (each with a replay dict of kind "fs"), at most `limit`."""
    path, scratch = os.path.join(tmp, "fsj"), os.path.join(tmp, "fsimg")
    remove_files(path)
    found = []
    try:
        real = Real(jm, path, factory)
    except Exception:                                   # noqa
        return found
    st = SeqState()
    try:
        for op in ops:
            if len(found) >= limit:
                break
            op = resolve(op, real.view())
            if op[0] in ("reopen", "crashat"):
                real = step_plain(jm, real, op, scratch + "-dry")
                st.note(op if op[0] == "reopen" else ["crashat"] + list(op[1:]))
                continue
            if op[0] == "settv" and not real.has_tv():
                continue
            if op[0] == "add" and (op[1] >= U64 or op[2] >= U64):
                break
            snap = snapshot(path)
            old, tv_old = list(st.ref), st.tv
            if op[0] == "setci":
                st.allowed.add(op[1])
            adm = set(st.allowed) | ({1} if no_stored_ci(jm, snap) else set())
            try:
                prims, imgs = fs_images(real, op)
            except Exception:                           # noqa  (reported by the other passes)
                break
            for sig, what, n, when in judge_fs_images(jm, scratch, imgs, op, old, adm, tv_old, cov):
                if sig not in [v["signature"] for v in found]:
                    found.append({"signature": sig, "what": "%s on %d entries %s" % (METHOD.get(op[0], op[0]), len(old), what),
                                  "replay": {"kind": "fs", "factory": factory, "pre": [list(o) for o in st.pre], "op": list(op),
                                             "fs_index": n, "when": when}})
            st.note(op)
    finally:
        real.abandon()
        remove_files(path)
        remove_files(scratch + "-dry")
    return found[:limit]


def replay_fs(jm, tmp, rp):
    """re-run one fs-level crash point with a REAL kill: Killed is raised out of the proxy right before /
    after file-system call #fs_index of the op, the objects are abandoned, the files copied and reopened.
    Returns (None | (signature, what), killed?)"""
    path, scratch = os.path.join(tmp, "fsj"), os.path.join(tmp, "fsimg")
    remove_files(path)
    real = Real(jm, path, rp.get("factory", "FileJournal"))
    st = SeqState()
    killed = False
    try:
        for op in rp.get("pre", []):
            r = step_plain(jm, real, op, scratch + "-dry")
            if r is None:
                continue
            real = r
            st.note(op)
        op = rp["op"]
        snap = snapshot(path)
        if op[0] == "setci":
            st.allowed.add(op[1])
        adm = set(st.allowed) | ({1} if no_stored_ci(jm, snap) else set())
        try:
            real.apply(op, fs_kill=(rp.get("fs_index", 0), rp.get("when", "before")))
        except Killed:
            killed = True
        img = snapshot(path)                # copy first ...
    finally:
        real.abandon()                      # ... then release the handles
        remove_files(path)
        remove_files(scratch + "-dry")
    return judge_image(jm, scratch, img, op, st.ref, adm, st.tv), killed


# ---------------------------------------------------------------------------------------------------
# creation of the journal file as an examined operation (D74: a kill between open 'wb' and the header
# write leaves a zero-length file)
# ---------------------------------------------------------------------------------------------------
CREATE_EMPTY_SIG = "journal.create:empty-file-does-not-reopen"
CREATE_TORN_SIG = "journal.create:torn-header-does-not-reopen"
CREATE_T = (1, 17, 36, 37, 39)


def make_meta(jm, tmp, ci=5, tv=(2, "n1:1")):
    """bytes of a `.meta` as the real class stores it (commit index, and term + vote where supported)"""
    path = os.path.join(tmp, "mk-meta")
    remove_files(path)
    r = Real(jm, path)
    try:
        r.apply(["setci", ci])
        if r.has_tv():
            r.apply(["settv", tv[0], tv[1]])
        else:
            r.apply(["timer"])
            tv = (0, None)
        data = _read(path + ".meta")
    finally:
        r.abandon()
        remove_files(path)
    return data, ci, tv


def kill_creation(jm, path, snap, kill=None, fs_kill=None):
    """(B) the constructor really killed: files of `snap` at `path` (journal missing or zero-length),
    FileJournal(path) with a kill plan.  Returns (directory image, killed?, primitives done, exception)."""
    write_snapshot(path, snap)
    killed, exc, r = False, None, None
    rec_log = []
    try:
        r = Real(jm, path, kill=kill, fs_kill=fs_kill)
        rec_log = r.open_prims
    except Killed:
        killed = True
    except Exception as e:                               # noqa
        exc = e
    img = snapshot(path)
    if r is not None:
        r.abandon()
    remove_files(path)
    return img, killed, rec_log, exc


def judge_creation_image(jm, scratch, img, ci, tv, cov=None):
    """A directory image left by a kill inside the creation of the journal: the next FileJournal(path)
    must open (an empty journal), still read the stored commit index / term / vote, and be usable
    (an appended entry survives a reopen).  Returns (None | (signature, what), dict of observations)."""
    size = None if img[0] is None else len(img[0])
    o = open_image(jm, scratch, img)
    obs = {"image_size": size}
    try:
        if "err" in o:
            obs["reopen"] = o["err"]
            if size == 0:
                return (CREATE_EMPTY_SIG, "a zero-length journal file (kill between open(path,'wb') and the header write) makes "
                                          "every later FileJournal(path) raise %s" % o["err"]), obs
            if size is None:
                return ("journal.create:missing-file-does-not-open", "FileJournal(path) raises %s" % o["err"]), obs
            return (CREATE_TORN_SIG, "a %d-byte journal file (torn header write) makes FileJournal(path) raise %s" % (size, o["err"])), obs
        r = o["real"]
        after = _read(r.path) or b""
        obs.update(len=o["len"], cur=o["cur"], ci=o["ci"], tv=o["tv"], prims=prims_str(o["prims"], jm), disk=o["disk"],
                   fsize=len(after), fsum=adler(after), summary=r.summary(o["prims"]))
        if o["len"] != 0 or o["cur"] != FIRST:
            return ("journal.create:reopened-journal-not-empty", "holds %s, offset %d" % (short_ents(o["ents"]), o["cur"])), obs
        if o["ci"] != ci:
            return ("journal.meta:commit-index-never-set", "commit index %r after reopen, .meta held %r" % (o["ci"], ci)), obs
        if o["tv"] != tuple(tv):
            return ("journal.setTermAndVote:lost-or-invented-after-kill", "(term, vote) %r after reopen, .meta held %r" % (o["tv"], tv)), obs
        e = (b"first-entry", 7, 3)
        try:
            r.j.add(*e)
            r = o["real"] = reopen(r, "abandon")
            got = r.entries()
        except Exception as x:                           # noqa
            return ("journal.create:reopened-journal-not-usable", "add + reopen raises %r" % (x,)), obs
        if got != [e]:
            return ("journal.create:reopened-journal-not-usable", "after add + reopen the journal holds %s" % short_ents(got)), obs
    finally:
        if "real" in o:
            o["real"].abandon()
        remove_files(scratch)
    t = judge_tail(jm, scratch, img, "create", cov)
    return (None if t is None else t[:2]), obs


def creation_points(prims):
    """(k, t) kill points of the creation primitives: every k, and inside the header write the given t"""
    pts = []
    for k in range(len(prims) + 1):
        L = prim_len(prims[k]) if k < len(prims) else 0
        for t in ([0] + [x for x in CREATE_T if x < L]) if L else [0]:
            pts.append((k, t))
    return pts


def replay_create(jm, tmp, rp):
    """re-run one creation crash point with a REAL kill"""
    meta, ci, tv = (None, 1, (0, None))
    if rp.get("meta"):
        meta, ci, tv = make_meta(jm, tmp)
    start = {"missing": None, "zero": b""}.get(rp.get("start", "missing"))
    snap = (start, meta, None, None)
    if rp.get("when"):
        img, killed, done, exc = kill_creation(jm, os.path.join(tmp, "cj"), snap, fs_kill=(rp.get("fs_index", 0), rp["when"]))
    elif "k" in rp:
        img, killed, done, exc = kill_creation(jm, os.path.join(tmp, "cj"), snap, kill=(rp["k"], rp.get("t", 0)))
    else:                                                # no kill: the files as given (e.g. a zero-length journal)
        img, killed, exc = snap, False, None
    if exc is not None:
        size = None if snap[0] is None else len(snap[0])
        return ((CREATE_EMPTY_SIG if size == 0 else "journal.create:exception:" + type(exc).__name__),
                "FileJournal(path) raises %r" % (exc,)), killed
    m, obs = judge_creation_image(jm, os.path.join(tmp, "cimg"), img, ci, tv)
    return m, killed


# ---------------------------------------------------------------------------------------------------
# one op sequence on the real code (+ model when given): the `journal_bytes` case runner
# ---------------------------------------------------------------------------------------------------
class Cov(dict):
    def hit(self, key, n=1):
        self[key] = self.get(key, 0) + n

    def mx(self, key, v):
        if v > self.get(key, 0):
            self[key] = v


def size_bucket(n):
    for lim, name in ((0, "0"), (63, "1-63"), (1023, "64-1023"), (16383, "1K-16K"), (262143, "16K-256K")):
        if n <= lim:
            return name
    return ">=256K"


def resolve(aop, view):
    """abstract op (generator vocabulary, relative to the current real state) -> concrete op"""
    k = aop[0]
    if k == "addfit":            # record ends exactly at mult * file size (+ delta)
        _, mult, delta, idx, term, seed = aop
        n = mult * view["fsize"] - view["cur"] - 24 + delta
        return ["add", idx, term, {"n": max(n, 0), "s": seed}]
    if k == "addx":              # command of mult * file size (+ delta) bytes
        _, mult, delta, idx, term, seed = aop
        return ["add", idx, term, {"n": max(mult * view["fsize"] + delta, 0), "s": seed}]
    if k == "delfrom_back":
        return ["delfrom", max(view["len"] - aop[1], 0)]
    if k == "delto_back":
        return ["delto", max(view["len"] - aop[1], 0)]
    if k == "crashat":
        return ["crashat", resolve(aop[1], view), aop[2], aop[3]]
    return list(aop)


class RandomSource(object):
    """draws the next op from the real state: boundary-biased sizes relative to the current file size"""

    def __init__(self, rng, length, cap, malformed=False):
        self.rng, self.left, self.cap, self.malformed = rng, length, cap, malformed
        self.idx = rng.choice([1, 1, 1, 2, 1000, U32 - 3])
        self.term = 1
        self.profile = rng.choice(["small", "small", "growth", "mixed", "mixed", "delete"])
        self.crashat = True

    def _idx(self):
        r = self.rng.random()
        if r < 0.03:
            return self.rng.choice([0, U32 - 1, U32, U64 - 1])
        self.idx += 1
        if self.rng.random() < 0.15:
            self.term += 1
        return self.idx

    def _add(self, view):
        rng = self.rng
        i = self._idx()
        t = self.term if rng.random() > 0.03 else rng.choice([0, U32 - 1, U32, U64 - 1])
        if self.malformed and rng.random() < 0.25:
            return ["add", U64 + rng.randrange(3), t, {"n": rng.randrange(40), "s": rng.randrange(99)}] \
                if rng.random() < 0.5 else ["add", i, U64 + rng.randrange(3), {"n": rng.randrange(40), "s": rng.randrange(99)}]
        seed = rng.randrange(1 << 16)
        fs, cur = view["fsize"], view["cur"]
        p = {"small": 0.08, "growth": 0.5, "mixed": 0.22, "delete": 0.04}[self.profile]
        r = rng.random()
        if r < p:
            kind = rng.choice(["fit", "fit", "fitm", "x", "rand8"])
            if kind == "fit":
                a = ["addfit", 1, rng.choice([-1, 0, 1]), i, t, seed]
            elif kind == "fitm":
                a = ["addfit", rng.choice([2, 2, 4, 8]), rng.choice([-1, 0, 1]), i, t, seed]
            elif kind == "x":
                a = ["addx", rng.choice([1, 2, 2, 4, 8]), rng.choice([-1, 0, 1]), i, t, seed]
            else:
                a = ["add", i, t, {"n": rng.randrange(8 * fs + 1), "s": seed}]
            op = resolve(a, view)
            if cur + 24 + op[3]["n"] <= self.cap:
                return op
        if r < p + 0.15:
            n = rng.randrange(max(fs // 4, 1))
            if cur + 24 + n <= self.cap:
                return ["add", i, t, {"n": n, "s": seed}]
        return ["add", i, t, {"n": rng.choice([0, 1, 2, 3, 8, 15, 16, 17, 31, 40]) if rng.random() < 0.5 else rng.randrange(64),
                              "s": seed}]

    def next(self, view):
        if self.left <= 0:
            return None
        self.left -= 1
        rng = self.rng
        n = view["len"]
        w_del = 0.25 if self.profile == "delete" else 0.1
        r = rng.random()
        if r < 0.08:
            return ["reopen", rng.choice(["destroy", "abandon"])]
        if r < 0.13:
            return ["setci", rng.choice([0, 1, n, rng.randrange(1000), U32 + rng.randrange(5)])]
        if r < 0.18:
            return ["timer"]
        if r < 0.23:
            return ["settv", rng.randrange(6), rng.choice([None, "n1:1", "n2:2"])]
        if r < 0.25:
            return ["clear"]
        if r < 0.25 + w_del:
            back = rng.choice([0, 1, 1, 2, 9, 10, 11, 20, 25, rng.randrange(n + 1)])
            return ["delfrom", rng.choice([max(n - back, 0), n + 3, rng.randrange(n + 1)])] if rng.random() < 0.85 \
                else ["delfrom", 0]
        if r < 0.25 + w_del + 0.08:
            op = ["delto", rng.choice([0, 1, 1, 2, n, max(n - 1, 0), n + 2, rng.randrange(n + 1)])]
            if self.crashat and rng.random() < 0.3:
                # head drop killed at or before its rename (leaves a stale <journal>.tmp), then reopened
                return ["crashat", op, rng.choice([rng.random(), 0.999]), rng.random()]
            return op
        return self._add(view)



class ChainSource(object):
    """a fixed (abstract) prefix, then another source"""

    def __init__(self, aops, then):
        self.first, self.then = ListSource(aops), then

    def next(self, view):
        op = self.first.next(view)
        return op if op is not None else self.then.next(view)


class ListSource(object):
    def __init__(self, aops):
        self.aops = list(aops)
        self.i = 0

    def next(self, view):
        if self.i >= len(self.aops):
            return None
        a = self.aops[self.i]
        self.i += 1
        return resolve(a, view)


def run_case(jm, model, path, source, factory="FileJournal", cov=None, rng=None, ents_every=4):
    """Runs one op sequence on the real FileJournal (recorder on).  With `model` given every
    observable is compared with the driver after every op; the list monitor (reference list + real
    MemoryJournal) always runs.  Returns {"ops", "factory", "disagreement", "violation", "err"}."""
    cov = cov if cov is not None else Cov()
    remove_files(path)
    res = {"ops": [], "factory": factory, "disagreement": None, "violation": None, "err": None}
    ops = res["ops"]
    ref, mj = [], jm.MemoryJournal()
    real = None
    # what the statement says about the meta data, model-free: the commit index last set (ci_cur), whether
    # it still waits for the timer (pending), what a reopen must give (ci_disk), the (term, vote) last stored
    mref = {"ci_cur": 1, "ci_disk": 1, "pending": False, "tv": (0, None)}

    def disagree(note, m, i):
        if res["disagreement"] is None:
            res["disagreement"] = {"input": {"factory": factory, "ops": [list(o) for o in ops]},
                                   "model": m[:400], "impl": i[:400], "note": note}

    def violate(site, fault, what):
        if res["violation"] is None:
            res["violation"] = {"signature": "journal.%s:%s" % (site, fault), "what": what,
                                "replay": {"kind": "bytes", "factory": factory, "ops": [list(o) for o in ops]}}

    def monitor(site, full=True):
        try:
            got = real.entries()
        except Exception as e:                           # noqa
            violate(site, "exception:" + type(e).__name__, "indexing the journal raised %r after %d ops" % (e, len(ops)))
            return
        if got != ref:
            violate(site, "list-divergence", "after op #%d %s the journal holds %s, a plain list holds %s"
                    % (len(ops), ops[-1][:3] if ops else "open", short_ents(got), short_ents(ref)))
            return
        mem = [mj[i] for i in range(len(mj))]
        if ops and ops[-1][0] in ("reopen", "crashat"):
            mem = [(to_bytes(c), i, t) for (c, i, t) in mem]
        if [(to_bytes(c), i, t) for (c, i, t) in got] != [(to_bytes(c), i, t) for (c, i, t) in mem] or len(real.j) != len(mj):
            violate(site, "memoryjournal-divergence", "after op #%d FileJournal %s, MemoryJournal %s"
                    % (len(ops), short_ents(got), short_ents(mem)))
            return
        if site == "reopen":
            if real.tv() != mref["tv"]:
                violate("setTermAndVote", "not-persisted", "after op #%d %s getTermAndVote() = %r, last stored was %r"
                        % (len(ops), ops[-1][:2], real.tv(), mref["tv"]))
            if real.j.getRaftCommitIndex() != mref["ci_disk"]:
                violate("meta", "commit-index-after-reopen", "after op #%d %s getRaftCommitIndex() = %r, the value last "
                        "written by the timer / setTermAndVote was %r" % (len(ops), ops[-1][:2], real.j.getRaftCommitIndex(), mref["ci_disk"]))
        elif real.j.getRaftCommitIndex() != mref["ci_cur"] or real.tv() != mref["tv"]:
            violate("meta", "in-memory-value", "after op #%d commit index %r / term+vote %r, expected %r / %r"
                    % (len(ops), real.j.getRaftCommitIndex(), real.tv(), mref["ci_cur"], mref["tv"]))
        if ref:
            if real.j[-1] != ref[-1] or real.j[0] != ref[0]:
                violate(site, "list-divergence", "j[-1]/j[0] differ from the list after op #%d" % len(ops))
            if rng is not None:
                i = rng.randrange(len(ref))
                if real.j[i] != ref[i] or real.j[i - len(ref)] != ref[i]:
                    violate(site, "list-divergence", "j[%d] differs from the list after op #%d" % (i, len(ops)))

    def compare(reply, prims, full_img, ents):
        data = _read(path) or b""
        mine = real.summary(prims)
        cov.mx("max_fsize", len(data))
        if reply != "ok " + mine:
            disagree("state after op #%d %s: %s" % (len(ops), ops[-1][:3] if ops else "new", first_diff(reply, "ok " + mine)),
                     reply, "ok " + mine)
            return
        if full_img or len(data) <= FULL_IMG_LIMIT:
            cov.hit("img_compared")
            mi = model.img()
            if mi != data:
                pos = next((x for x in range(min(len(mi), len(data))) if mi[x] != data[x]), min(len(mi), len(data)))
                disagree("file image differs at byte %d after op #%d" % (pos, len(ops)),
                         mi[max(pos - 8, 0):pos + 24].hex(), data[max(pos - 8, 0):pos + 24].hex())
                return
            jt = _read(path + ".tmp")
            if jt is not None:
                cov.hit("stale_tmp_compared")
                if model.jt() != jt:
                    disagree("content of <journal>.tmp differs after op #%d" % len(ops), "-", jt[:64].hex())
                    return
        if ents:
            cov.hit("ents_compared")
            me = model.ask("ents")
            ie = ents_str(real.entries())
            if me != ie:
                disagree("entry list after op #%d" % len(ops), me, ie)

    try:
        try:
            real = Real(jm, path, factory)
        except Exception as e:                           # noqa
            violate("open", "exception:" + type(e).__name__, "creating a fresh journal raised %r" % (e,))
            return res
        if model is not None:
            # creation is a modelled operation: FC (open 'wb'), FW40 (header written), R1024
            reply = model.new()
            compare(reply, real.open_prims, True, True)
        monitor("open")
        while res["disagreement"] is None and res["violation"] is None:
            op = source.next(real.view())
            if op is None:
                break
            if op[0] == "settv" and not real.has_tv():
                continue                                  # tree without setTermAndVote: op skipped silently
            stale = os.path.exists(path + ".tmp")
            if op[0] == "crashat":
                op, _ = concretise_crashat(jm, path + "-dry", real, op)
            ops.append(op)
            k = op[0]
            cov.hit("op." + k)
            old_size = os.path.getsize(path)
            # ---- real
            impl_err = None
            prims = None
            reply = None
            try:
                if k == "reopen":
                    cov.hit("reopen." + op[1])
                    if stale:
                        cov.hit("reopen.with_stale_tmp")
                    real = reopen(real, op[1])
                    prims = real.open_prims
                elif k == "crashat":
                    # head drop really killed at or before its rename, then reopened; the model takes its
                    # own crash image as the new state
                    real, _killed = crash_reopen(real, op[1], op[2], op[3])
                    prims = real.open_prims
                    if os.path.exists(path + ".tmp"):
                        cov.hit("crashat.leaves_stale_tmp")
                    if model is not None:
                        reply = model_crash_load(model, op[1], op[2], op[3])
                        if reply is None:
                            disagree("crashat: model image has a .meta.tmp", "-", "-")
                            break
                else:
                    prims = real.apply(op)
            except struct.error:
                impl_err = "structError"
            except Exception as e:                       # noqa
                impl_err = type(e).__name__
                violate(k, "exception:" + impl_err, "op #%d %s raised %r (file size %d, offset %d)"
                        % (len(ops), op[:3], e, old_size, real.cur()))
            # ---- model
            if k != "crashat":
                reply = model.ask(op_line(op)) if model is not None else None
            if impl_err == "structError":
                cov.hit("err.structError")
                res["err"] = impl_err
                if reply is not None and reply != "err structError":
                    disagree("real raises struct.error at op #%d" % len(ops), reply, "err structError")
                break
            if impl_err is not None:
                if reply is not None:
                    disagree("real raises %s at op #%d" % (impl_err, len(ops)), reply, "exception " + impl_err)
                break
            if reply is not None and reply.startswith("err"):
                disagree("model fails at op #%d, real does not" % len(ops), reply, "ok " + real.summary(prims))
                break
            # ---- reference
            ref_apply(ref, op)
            mem_apply(mj, op)
            if k == "setci":
                mref["ci_cur"], mref["pending"] = op[1], True
            elif k == "timer" and mref["pending"]:
                mref["ci_disk"], mref["pending"] = mref["ci_cur"], False
            elif k == "settv":
                if mref["pending"]:
                    cov.hit("settv.with_pending_ci")
                mref["tv"] = (op[1], op[2])
                mref["ci_disk"], mref["pending"] = mref["ci_cur"], False
                if not prims:
                    cov.hit("settv.no_prims")
            elif k in ("reopen", "crashat"):
                mref["ci_cur"], mref["pending"] = mref["ci_disk"], False
            # ---- coverage
            if k == "add":
                n = cmd_len(op[3])
                cov.hit("cmdsize." + size_bucket(n))
                if isinstance(cmd_of(op[3]), str):
                    cov.hit("add.str_command")
                if op[1] >= U32 or op[2] >= U32:
                    cov.hit("add.idx_or_term>=2^32")
                if op[1] == U64 - 1 or op[2] == U64 - 1:
                    cov.hit("add.idx_or_term=2^64-1")
                rs = [p for p in prims if p[0] == "R"]
                if rs:
                    cov.hit("add.grow")
                    need = real.cur()
                    if rs[0][1] == 2 * old_size and rs[0][1] > need:
                        cov.hit("grow.double")
                    elif rs[0][1] == need and need > 2 * old_size:
                        cov.hit("grow.to_fit")
                    elif rs[0][1] == need == 2 * old_size:
                        cov.hit("grow.double=fit")
                    else:
                        cov.hit("grow.other")
                else:
                    cov.hit("add.nogrow")
                    if real.cur() == old_size:
                        cov.hit("add.exact_fill")
            elif k == "delfrom":
                removed = len(prims) - 1
                cov.hit("delfrom.hdr_writes=%s" % (len(prims) if len(prims) < 3 else "3+"))
                if removed:
                    cov.hit("delfrom.hdr10")
            elif k == "timer":
                cov.hit("timer.saved" if prims else "timer.idle")
                if not prims and ops[:-1] and ops[-2][0] == "settv":
                    cov.hit("timer.idle_after_settv")
            elif k == "delto":
                cov.hit("delto.kept=%s" % ("0" if not len(real.j) else "some"))
                kinds = [p[0] for p in prims]
                if "JM" in kinds:
                    cov.hit("delto.by_rename")
                    if kinds[0] == "JR":
                        cov.hit("delto.removes_stale_tmp")
                    if kinds.count("JZ") > 1:
                        cov.hit("delto.tmp_grows")
                    if os.path.getsize(path) < old_size:
                        cov.hit("delto.file_shrinks")
            # ---- compare + monitor
            if model is not None:
                compare(reply, prims, k in ("reopen", "crashat"), k in ("reopen", "crashat") or len(ops) % ents_every == 0)
            monitor("reopen" if k in ("reopen", "crashat") else k)
        if model is not None and res["disagreement"] is None and res["err"] is None and real is not None \
                and (res["violation"] is None):
            data = _read(path) or b""
            if model.img() != data:
                disagree("final file image differs", "-", "-")
            me, ie = model.ask("ents"), ents_str(real.entries())
            if me != ie:
                disagree("final entry list", me, ie)
    finally:
        if real is not None:
            try:
                real.abandon()
            except Exception:                            # noqa
                pass
        remove_files(path)
        remove_files(path + "-dry")
    return res


def shrink_ops(ops, still_fails, budget=120):
    """greedy: drop ops, then shrink command sizes, while `still_fails(ops)` holds"""
    ops = [list(o) for o in ops]
    runs = 0
    changed = True
    while changed and runs < budget:
        changed = False
        i = len(ops) - 1
        while i >= 0 and runs < budget:
            cand = ops[:i] + ops[i + 1:]
            runs += 1
            if cand and still_fails(cand):
                ops = cand
                changed = True
            i -= 1
        for i, o in enumerate(ops):
            if o[0] == "add" and "n" in o[3] and o[3]["n"] > 0 and runs < budget:
                for n in (0, o[3]["n"] // 2, o[3]["n"] - 1):
                    cand = [list(x) for x in ops]
                    cand[i] = ["add", o[1], o[2], {"n": n, "s": o[3].get("s", 0)}]
                    runs += 1
                    if still_fails(cand):
                        ops = cand
                        changed = True
                        break
    return ops


def monitor_ops(jm, path, ops, factory="FileJournal", rng=None):
    """list monitor only (no model): used by replay / search / the disagreement follow-up"""
    return run_case(jm, None, path, ListSource(ops), factory=factory, rng=rng)


# ---------------------------------------------------------------------------------------------------
# corpus
# ---------------------------------------------------------------------------------------------------
def corpus_cases(verif):
    d = os.path.join(verif, "corpus", "journal")
    out = []
    if os.path.isdir(d):
        for fn in sorted(os.listdir(d)):
            if fn.endswith(".json"):
                with builtins.open(os.path.join(d, fn)) as f:
                    c = json.load(f)
                c.setdefault("name", fn[:-5])
                out.append(c)
    return out
