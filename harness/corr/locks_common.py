"""Shared helpers of the `locks` components (C16): loading the tree under test, a virtual clock for
`pysyncobj.batteries`, thread shims for `ReplLockManager`, and a miniature commit pipeline that applies
pickled replicated commands to real `_ReplLockManagerImpl` replicas the way `SyncObj.__doApplyCommand`
does (one common log, every replica a prefix of it -- what C01 provides).

Private attributes touched: `_ReplLockManagerImpl__locks`, `_ReplLockManagerImpl__autoUnlockTime`,
`ReplLockManager._ReplLockManager__lockImpl`, `__selfID`, `__lastProlongateTime`, `__destroying`,
`SyncObjConsumer._syncObj`; module globals `pysyncobj.batteries.time`, `pysyncobj.batteries.threading`.
(not a component: no PROPERTIES line)"""
import os
import pickle
import sys
import threading
import types


def load_batteries(repo):
    """Import pysyncobj.batteries from `repo` (and from nowhere else)."""
    repo = os.path.abspath(repo)
    m = sys.modules.get("pysyncobj")
    if m is not None and not os.path.abspath(getattr(m, "__file__", "") or "").startswith(repo + os.sep):
        for k in [k for k in sys.modules if k == "pysyncobj" or k.startswith("pysyncobj.")]:
            del sys.modules[k]
    if repo not in sys.path:
        sys.path.insert(0, repo)
    import pysyncobj.batteries as bat
    assert os.path.abspath(bat.__file__).startswith(repo + os.sep), (bat.__file__, repo)
    return bat


# ---------------------------------------------------------------------------------------------------
# virtual clock + thread shims
# ---------------------------------------------------------------------------------------------------
class StopLoop(BaseException):
    """raised by the patched time.sleep to leave `_autoAcquireThread` after the passes we asked for"""


class VClock(object):
    """Stands in for the `time` module inside pysyncobj.batteries.  `time()` returns the next value of
    `script` if one is queued (to give successive readings different values), else `now`.
    `on_time` (optional) is called with the value just read, *after* the reading was taken: this is
    where another thread may be scheduled."""

    def __init__(self, now=0):
        self.now = now
        self.script = []
        self.sleeps_left = 0
        self.reads = 0
        self.on_time = None

    def time(self):
        self.reads += 1
        v = self.script.pop(0) if self.script else self.now
        hook = self.on_time
        if hook is not None:
            self.on_time = None
            hook(v)
        return v

    def sleep(self, _dt):
        if self.sleeps_left <= 0:
            raise StopLoop()
        self.sleeps_left -= 1


class _FakeThread(object):
    def __init__(self, target=None, args=(), kwargs=None, **_kw):
        self.target, self.args = target, args

    def start(self):
        pass

    def is_alive(self):
        return True

    def join(self, timeout=None):
        pass


class _SetEvent(object):
    def is_set(self):
        return True

    def set(self):
        pass


class _AliveThread(object):
    def is_alive(self):
        return True


def thread_shim():
    """replacement for the `threading` module inside pysyncobj.batteries: no thread is started; the loop
    body of `_autoAcquireThread` is run by `tick_once` on the caller's thread."""
    sh = types.SimpleNamespace()
    sh.Thread = _FakeThread
    sh.Event = _SetEvent
    sh.current_thread = lambda: _AliveThread()
    sh.Lock = threading.Lock
    sh.RLock = threading.RLock
    return sh


class Patched(object):
    """context manager: pysyncobj.batteries uses `clock` as `time` and the thread shim as `threading`."""

    def __init__(self, bat, clock):
        self.bat, self.clock = bat, clock

    def __enter__(self):
        self.saved = (self.bat.time, self.bat.threading)
        self.bat.time = self.clock
        self.bat.threading = thread_shim()
        return self

    def __exit__(self, *a):
        self.bat.time, self.bat.threading = self.saved
        return False


def tick_once(bat, mgr, clock):
    """Run exactly one pass of the real `ReplLockManager._autoAcquireThread` loop body on `mgr`."""
    clock.sleeps_left = 1
    try:
        bat.ReplLockManager._autoAcquireThread(mgr)
    except StopLoop:
        return
    raise AssertionError("_autoAcquireThread returned (destroying / main thread dead?)")


# ---------------------------------------------------------------------------------------------------
# ids
# ---------------------------------------------------------------------------------------------------
def lock_name(i):
    return "L%d" % i


def client_name(i):
    return "c%d" % i


def lock_num(s):
    return int(s[1:])


def client_num(s):
    return int(s[1:])


def table_of(impl):
    """canonical lock table of a real impl: sorted list of (lock, client, time) as ints"""
    d = getattr(impl, "_ReplLockManagerImpl__locks")
    return sorted((lock_num(l), client_num(c), t) for l, (c, t) in d.items())


def table_str(tbl):
    return ",".join("%d:%d:%d" % e for e in tbl) if tbl else "-"


def cmd_str(cmd):
    k = cmd[0]
    if k == "acq":
        return "acq:%d:%d:%d" % cmd[1:]
    if k == "pro":
        return "pro:%d:%d" % cmd[1:]
    return "rel:%d:%d" % cmd[1:]


def cmds_str(cmds):
    return ",".join(cmd_str(c) for c in cmds) if cmds else "-"


def apply_cmd(impl, cmd):
    """apply an abstract command to a real `_ReplLockManagerImpl` (the replicated method body)."""
    k = cmd[0]
    if k == "acq":
        return impl.acquire(lock_name(cmd[1]), client_name(cmd[2]), cmd[3], _doApply=True)
    if k == "pro":
        return impl.prolongate(client_name(cmd[1]), cmd[2], _doApply=True)
    if k == "rel":
        return impl.release(lock_name(cmd[1]), client_name(cmd[2]), _doApply=True)
    raise ValueError(cmd)


# ---------------------------------------------------------------------------------------------------
# miniature commit pipeline for real wrappers
# ---------------------------------------------------------------------------------------------------
class FakeSyncObj(object):
    """What a `SyncObjConsumer` needs from its SyncObj to *submit* a replicated call: name tables and
    `_applyCommand`.  Submitted commands are decoded and queued in submission order (the node's
    FastQueue is FIFO)."""

    def __init__(self, owner, impl, leader=True):
        self.owner = owner
        self.leader = leader
        self.queue = []          # [(abstract cmd, callback)]
        self.submitted = []      # every abstract cmd in submission order
        self.on_submit = None    # optional hook(cmd, callback) -> True when it answered the call itself
        self._ids = {}
        self._names = {}
        for i, name in enumerate(("acquire", "prolongate", "release")):
            self._ids[(id(impl), name)] = i
            self._names[i] = name
        self._methodToID = self._ids

    def _getFuncName(self, key):
        return key[1]

    def _getLeader(self):
        return "leader" if self.leader else None

    def _applyCommand(self, command, callback, commandType=None):
        cmd = pickle.loads(command)
        kwargs = {}
        if isinstance(cmd, tuple) and len(cmd) == 3:
            fid, args, kwargs = cmd
        elif isinstance(cmd, tuple):
            fid, args = cmd
        else:
            fid, args = cmd, ()
        assert not kwargs, kwargs
        name = self._names[fid]
        if name == "acquire":
            a = ("acq", lock_num(args[0]), client_num(args[1]), args[2])
        elif name == "prolongate":
            a = ("pro", client_num(args[0]), args[1])
        else:
            a = ("rel", lock_num(args[0]), client_num(args[1]))
        self.submitted.append(a)
        hook = self.on_submit
        if hook is not None and hook(a, callback):
            return
        self.queue.append((a, callback))


def make_manager(bat, U, cid, leader=True):
    """real ReplLockManager (threads shimmed -- call inside `Patched`) wired to a FakeSyncObj."""
    mgr = bat.ReplLockManager(U, selfID=client_name(cid))
    impl = mgr._consumer()
    so = FakeSyncObj(cid, impl, leader=leader)
    impl._syncObj = so
    return mgr, impl, so


# ---------------------------------------------------------------------------------------------------
# snapshots: the path SyncObj uses for consumers (`_serialize()` -> pickled dump -> `_deserialize()`)
# ---------------------------------------------------------------------------------------------------
def snapshot_of(impl):
    """what ends up in a dump for this consumer (pickled and unpickled, as in Serializer)"""
    return pickle.loads(pickle.dumps(impl._serialize(), 2))


def fresh_impl(bat, u, junk=True):
    """an instance as a restarted / lagging node has it before the snapshot is installed: created with its
    own autoUnlockTime `u`, possibly holding something stale"""
    impl = bat._ReplLockManagerImpl(u)
    if junk:
        impl.acquire(lock_name(99), client_name(99), 0, _doApply=True)
    return impl


def unlock_time_of(impl):
    return getattr(impl, "_ReplLockManagerImpl__autoUnlockTime")


SIG_SNAPSHOT = "batteries._ReplLockManagerImpl._serialize:lock-table-missing-from-snapshot"


# ---------------------------------------------------------------------------------------------------
# "a holder that shows up in time never loses its lock" -- checked on a real replica at the log head
# ---------------------------------------------------------------------------------------------------
class KeepMonitor(object):
    """Applies the common log to a real `_ReplLockManagerImpl` and checks, per applied command, the
    property clause: a lock held by Y with time t_y leaves Y's hands only through Y's own release or through
    a command stamped later than t_y + U (expiry).  Anything else took a properly held lock away.
    `apply` returns (return value, violation-or-None, flags)."""

    def __init__(self, bat, U):
        self.U = U
        self.impl = bat._ReplLockManagerImpl(U)
        # per lock: (holder, greatest stamp the holder showed since it was granted the lock) -- or absent when
        # nobody validly holds it: never granted, released by the holder, or *expired*: a prolongation stamped
        # later than the holder's greatest stamp + U went through the log (the holder "stopped prolonging").
        self.grant = {}

    def rebuild(self, bat, u):
        """the log-head replica is replaced by one rebuilt from its snapshot (restart from a dump / install
        on another node); the property needs the rebuilt replica to hold exactly the same locks."""
        before, ubefore = table_of(self.impl), unlock_time_of(self.impl)
        new = fresh_impl(bat, u)
        new._deserialize(snapshot_of(self.impl))
        self.impl = new
        if table_of(new) != before or unlock_time_of(new) != ubefore:
            return {"signature": SIG_SNAPSHOT,
                    "what": "replica with locks %s (autoUnlockTime %s) rebuilt from its own snapshot has locks %s (autoUnlockTime %s)"
                            % (before, ubefore, table_of(new), unlock_time_of(new))}
        return None

    def apply(self, cmd):
        before = dict((e[0], (e[1], e[2])) for e in table_of(self.impl))
        r = apply_cmd(self.impl, cmd)
        after = dict((e[0], (e[1], e[2])) for e in table_of(self.impl))
        stamp = cmd[-1] if cmd[0] in ("acq", "pro") else None
        flags = []
        viol = None
        if cmd[0] == "pro":
            for l, (c0, t0) in before.items():
                if c0 != cmd[1] and t0 > stamp + self.U:
                    flags.append("pro.stale-while-fresh-lock-of-another-client")
        for l, (c0, t0) in before.items():
            if l in after and after[l][0] == c0:
                continue
            if cmd == ("rel", l, c0):
                continue
            if stamp is not None and stamp > t0 + self.U:
                continue
            kind = {"acq": "acquire", "pro": "prolongate", "rel": "release"}[cmd[0]]
            viol = {"signature": "batteries._ReplLockManagerImpl.%s:held-lock-dropped-before-expiry" % kind,
                    "what": "L%d held by client %d with time %d (U=%d) is %s after %s -- not the holder's release, "
                            "and the stamp is not later than %d+%d: the holder lost the lock without release and without expiry"
                            % (l, c0, t0, self.U, ("held by %d" % after[l][0]) if l in after else "gone", cmd_str(cmd), t0, self.U)}
            break
        viol2 = self.obtainable(cmd, r, after, flags)
        return r, viol or viol2, flags

    def obtainable(self, cmd, r, after, flags):
        """'A lock whose holder stops prolonging it becomes obtainable by others after the auto-unlock time':
        once a prolongation (of anybody) stamped later than the holder's greatest stamp + U has gone through
        the log, (a) the old holder does not hold the lock again unless it acquires again, (b) the next acquire
        of the lock -- by anybody, whatever its stamp, whatever prolongations of the old holder are committed
        around it -- is granted.  Also: an acquire stamped later than the holder's greatest stamp + U is granted."""
        U, viol = self.U, None
        if cmd[0] == "acq":
            _, l, c, t = cmd
            g = self.grant.get(l)
            must = g is None or g[0] == c or t > g[1] + U
            if g is None:
                flags.append("acq.of-free-or-expired-lock")
            elif g[0] == c and t > g[1] + U:
                flags.append("acq.reacquire-of-own-expired-lock")
            if must and r is not True:
                viol = {"signature": "batteries._ReplLockManagerImpl.acquire:expired-lock-not-obtainable",
                        "what": "acquire(L%d, client %d, stamp %d) answered %r although %s (U=%d); table %s"
                                % (l, c, t, r, "nobody validly holds the lock (never granted / released / its holder's lock expired "
                                   "earlier in the log)" if g is None else
                                   "the holder %d's greatest stamp since it got the lock is %d" % g, U, sorted(after.items()))}
            if g is not None and g[0] != c and t < g[1] + U and r is True and viol is None:
                viol = {"signature": "batteries._ReplLockManagerImpl.acquire:lock-granted-within-unlock-time-of-holder",
                        "what": "acquire(L%d, client %d, stamp %d) was granted although client %d was granted the lock and showed stamp %d "
                                "since (U=%d, no release in between): two clients were told they hold L%d; table %s"
                                % (l, c, t, g[0], g[1], U, l, sorted(after.items()))}
            if r is True:
                self.grant[l] = (c, t if g is None or g[0] != c or t > g[1] + U else max(t, g[1]))
        elif cmd[0] == "pro":
            _, c, t = cmd
            for l, g in list(self.grant.items()):
                if g is None:
                    continue
                if t > g[1] + U:
                    del self.grant[l]             # expired: the holder stopped prolonging for more than U
                    flags.append("pro.expires-lock" + (".of-the-prolonging-holder" if g[0] == c else ""))
                    if l in after and viol is None:
                        viol = {"signature": "batteries._ReplLockManagerImpl.prolongate:expired-lock-revived-without-acquire",
                                "what": "client %d's greatest stamp for L%d was %d (U=%d); %s is stamped more than U later, so the lock "
                                        "had expired -- yet afterwards L%d is held by client %d with time %d: revived without an acquire"
                                        % (g[0], l, g[1], U, cmd_str(cmd), l, after[l][0], after[l][1])}
                elif g[0] == c:
                    self.grant[l] = (c, max(t, g[1]))
        else:
            _, l, c = cmd
            g = self.grant.get(l)
            if g is not None and g[0] == c:
                del self.grant[l]
        if viol is None:
            for l, e in after.items():
                if self.grant.get(l) is None:
                    viol = {"signature": "batteries._ReplLockManagerImpl.%s:lock-held-without-grant"
                                         % {"acq": "acquire", "pro": "prolongate", "rel": "release"}[cmd[0]],
                            "what": "after %s L%d is held by client %d (time %d) although nobody was granted it since it was "
                                    "released / expired" % (cmd_str(cmd), l, e[0], e[1])}
                    break
        return viol


def silent_before(cmds, U, z, l):
    """read off a command log: before z's acquire of l (stamp t) every other client that acquired l had shown no
    stamp in [t-U, t], and none of them acquired l with a later stamp before it"""
    idx = next((i for i, c in enumerate(cmds) if c[0] == "acq" and c[1] == l and c[2] == z), None)
    if idx is None:
        return False
    t = cmds[idx][3]
    others = set(c[2] for c in cmds[:idx] if c[0] == "acq" and c[1] == l and c[2] != z)
    if not others:
        return False
    for c in cmds[:idx]:
        who = c[2] if c[0] == "acq" else c[1] if c[0] == "pro" else None
        if who in others:
            if c[0] == "acq" and c[1] == l and c[3] > t:
                return False
            if c[0] in ("acq", "pro") and t - U <= c[-1] <= t:
                return False
    return True


def stalled(cmds, U, y, l):
    """read off a command log: y acquired l and one of its later prolongations is stamped more than U after
    everything it had shown before"""
    m = None
    for c in cmds:
        if c[0] == "acq" and c[1] == l and c[2] == y:
            m = c[3] if m is None else max(m, c[3])
        elif c[0] == "pro" and c[1] == y and m is not None:
            if c[2] > m + U:
                return True
            m = max(m, c[2])
    return False


def release_overtaken(submitted, committed, l, c, att):
    """D73b, and only D73b: the client submitted `acquire(l, c, att)` and, after it, at least one `release(l, c)`
    (the compensation); in the committed sequence every release of (l, c) that belongs after that acquire in
    submission order sits BEFORE the acquire, none after it.  `submitted`: the client's own commands in submission
    order; `committed`: the common sequence.  Anything else that keeps a failed acquire (no compensation submitted,
    a compensation committed after the acquire and ignored, ...) is not this finding."""
    acq, rel = ("acq", l, c, att), ("rel", l, c)
    if acq not in submitted or acq not in committed:
        return False
    si, ci = submitted.index(acq), committed.index(acq)
    sub_before, sub_after = submitted[:si].count(rel), submitted[si + 1:].count(rel)
    com_before, com_after = committed[:ci].count(rel), committed[ci + 1:].count(rel)
    return sub_after >= 1 and com_after == 0 and com_before > sub_before
