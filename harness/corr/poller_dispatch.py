"""Event-loop dispatch of the REAL pollers (`pysyncobj/poller.py`: SelectPoller, PollPoller) when callbacks change
the subscriptions during a pass (C13: "never an exception escaping the event loop"; C14: a stale connection is
replaced / a removed node's connection is closed from inside another connection's callback; C11: no node raises
while receiving).

The kernel side (`select.select`, `select.poll().poll`) is replaced by a script that reports a chosen set of
descriptors as ready; everything else is the real class.  For every order of dispatch, every pair (actor, victim) of
ready descriptors and every action of the actor's callback on the victim — unsubscribe, unsubscribe + re-subscribe
with a new callback (descriptor number reused by a new socket), unsubscribe of itself — the monitor demands:

  * `poll()` returns normally (no exception escapes the event loop),
  * a descriptor unsubscribed before its turn gets no call of the callback that was unsubscribed... unless the
    poller documents late delivery: the old callback may still be called ONCE in the same pass with the old
    descriptor (PollPoller keeps it; TcpConnection ignores events of a descriptor that is no longer its own) —
    what must never happen is a call in a LATER pass,
  * a re-subscribed descriptor is served by the new callback in later passes,
  * descriptors not touched are served exactly once per pass with the reported event mask.

D64 (SelectPoller raised KeyError for a descriptor unsubscribed earlier in the same pass) is found by this monitor on
the unrepaired tree.
"""
import importlib
import itertools
import sys
import time

PROPERTIES = ["C13", "C14", "C11"]
ORDER = 35

SIG_RAISE = "poller.dispatch:exception-escapes-poll"
SIG_LATE = "poller.dispatch:unsubscribed-callback-called-in-later-pass"
SIG_NEW = "poller.dispatch:resubscribed-descriptor-not-served"
SIG_ONCE = "poller.dispatch:untouched-descriptor-not-served-once"


def load_poller(repo):
    for m in [k for k in sys.modules if k == "pysyncobj" or k.startswith("pysyncobj.")]:
        del sys.modules[m]
    sys.path.insert(0, repo)
    try:
        return importlib.import_module("pysyncobj.poller")
    finally:
        sys.path.remove(repo)


class FakeSelect(object):
    """stands in for the `select` module inside pysyncobj.poller"""
    POLLIN, POLLOUT, POLLERR, POLLHUP = 1, 4, 8, 16

    def __init__(self):
        self.ready = []          # [(descr, readable, writable, error)] in kernel report order
        self.registered = {}

    # select.select
    def select(self, r, w, x, timeout=None):
        rl = [d for (d, a, b, c) in self.ready if a and d in r]
        wl = [d for (d, a, b, c) in self.ready if b and d in w]
        xl = [d for (d, a, b, c) in self.ready if c and d in x]
        return rl, wl, xl

    # select.poll()
    def poll(self):
        outer = self

        class P(object):
            def register(self, d, mask):
                outer.registered[d] = mask

            def unregister(self, d):
                del outer.registered[d]          # KeyError like the real one

            def modify(self, d, mask):
                outer.registered[d] = mask

            def poll(self, timeout=None):
                out = []
                for (d, a, b, c) in outer.ready:
                    if d not in outer.registered:
                        continue
                    ev = (outer.POLLIN if a else 0) | (outer.POLLOUT if b else 0) | (outer.POLLERR if c else 0)
                    ev &= outer.registered[d] | outer.POLLERR | outer.POLLHUP
                    if ev:
                        out.append((d, ev))
                return out
        return P()


def one_case(mod, kind, order, actor, victim, action):
    fake = FakeSelect()
    real = mod.select
    mod.select = fake
    try:
        p = mod.SelectPoller() if kind == "select" else mod.PollPoller()
        T = mod.POLL_EVENT_TYPE
        calls = []          # (pass, descr, tag, mask)
        state = {"pass": 0}

        def mk(tag):
            def cb(descr, mask, tag=tag):
                calls.append((state["pass"], descr, tag, mask))
                if tag == "old%d" % actor and state["pass"] == 1:
                    if action == "unsub":
                        p.unsubscribe(victim)
                    elif action == "resub":
                        p.unsubscribe(victim)
                        p.subscribe(victim, mk("new%d" % victim), T.READ | T.ERROR)
                    elif action == "unsub-self":
                        p.unsubscribe(actor)
            return cb
        ds = sorted(order)
        for d in ds:
            p.subscribe(d, mk("old%d" % d), T.READ | T.ERROR)
        viols = []
        for pas in (1, 2):
            state["pass"] = pas
            fake.ready = [(d, True, False, False) for d in order]
            try:
                p.poll(0.0)
            except Exception as e:
                viols.append({"signature": SIG_RAISE,
                              "what": "%s: descriptors %s ready, callback of %d does `%s` on %d: poll() raised %s(%s) in pass %d"
                                      % (type(p).__name__, list(order), actor, action, victim, type(e).__name__, e, pas)})
                return viols, calls
        # later pass: the unsubscribed callback must be silent, a re-subscribed one served
        late = [c for c in calls if c[0] == 2 and c[1] == (victim if action != "unsub-self" else actor)
                and c[2].startswith("old")]
        if late:
            viols.append({"signature": SIG_LATE,
                          "what": "%s: %s on %d in pass 1, old callback called again in pass 2: %s" % (type(p).__name__, action, victim, late)})
        if action == "resub":
            got = [c for c in calls if c[0] == 2 and c[1] == victim and c[2] == "new%d" % victim]
            if len(got) != 1:
                viols.append({"signature": SIG_NEW,
                              "what": "%s: descriptor %d re-subscribed in pass 1, new callback called %d times in pass 2"
                                      % (type(p).__name__, victim, len(got))})
        touched = {victim, actor} if action != "unsub-self" else {actor}
        for d in ds:
            if d in touched and d != actor:
                continue
            for pas in (1, 2):
                if d == actor and action == "unsub-self" and pas == 2:
                    continue
                n = len([c for c in calls if c[0] == pas and c[1] == d])
                if n != 1:
                    viols.append({"signature": SIG_ONCE,
                                  "what": "%s: descriptor %d served %d times in pass %d (action %s of %d on %d)"
                                          % (type(p).__name__, d, n, pas, action, actor, victim)})
        return viols, calls
    finally:
        mod.select = real


def run(ctx):
    t0 = time.time()
    mod = load_poller(ctx.repo)
    viols, cases, cov = [], 0, {}
    kinds = ["select"] + (["poll"] if hasattr(mod, "PollPoller") else [])
    for kind in kinds:
        for n in (2, 3):
            for order in itertools.permutations(range(5, 5 + n)):
                for actor in order:
                    for victim in order:
                        for action in ("unsub", "resub", "unsub-self"):
                            if (action == "unsub-self") != (actor == victim):
                                continue
                            v, calls = one_case(mod, kind, order, actor, victim, action)
                            cases += 1
                            before = order.index(actor) < order.index(victim)
                            key = "%s:%s:%s" % (kind, action, "victim-after-actor" if before else "victim-not-after")
                            cov[key] = cov.get(key, 0) + 1
                            for x in v:
                                x["replay"] = {"component": "corr.poller_dispatch", "kind": kind, "order": list(order),
                                               "actor": actor, "victim": victim, "action": action}
                            viols.extend(v)
    out, seen = [], set()
    for v in viols:
        k = (v["signature"], v["replay"]["kind"])
        if k not in seen:
            seen.add(k)
            out.append(v)
    return {"name": "corr.poller_dispatch", "cases": cases, "distinct": len(cov), "coverage": cov, "violations": out[:6],
            "samples": [], "wall_s": round(time.time() - t0, 2)}


def replay(ctx, violation):
    rp = violation.get("replay", {})
    mod = load_poller(ctx.repo)
    v, calls = one_case(mod, rp.get("kind", "select"), tuple(rp.get("order", [5, 6])), rp.get("actor", 5),
                        rp.get("victim", 6), rp.get("action", "unsub"))
    return {"violated": bool(v), "violations": v[:4], "calls": calls}
