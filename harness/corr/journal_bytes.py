"""C08 (and the journal layer of C06): the REAL `FileJournal` (pysyncobj/journal.py of the tree under
test) against the Lean model `PSO.Journal` (`driver journal`), op sequence by op sequence, byte for
byte: after every op len / current offset / commit index / metaSaved, the intercepted primitive
writes (kind, target file, offset, length, adler32, order), file size + adler32, the full file image
(<= 16 KiB: every op; always at the end and after a reopen), `.meta` / `.meta.tmp`, the head-drop file
`<journal>.tmp` (size + adler32, bytes), the entry list.  A `crashat` op kills a head drop for real at
or before its rename and reopens: the stale `<journal>.tmp` it leaves must be ignored by reopen and
removed by the next head drop, on both sides.
Independently of the model a monitor checks the property statement itself: the journal returns what a
plain Python list (and a real `MemoryJournal`) returns, after every op and after both kinds of reopen.
Order: corpus/journal/*.json, a systematic enumerator of the boundary cases, then the seeded stream.
Interception and private attributes: see journal_lib."""
import os
import re
import shutil
import time

from harness.corr import journal_lib as lib

PROPERTIES = ["C08", "C06", "C11"]
ORDER = 50

U32, U64 = lib.U32, lib.U64


# ---------------------------------------------------------------------------------------------------
# systematic enumerator (abstract ops are resolved against the real state by lib.resolve)
# ---------------------------------------------------------------------------------------------------
def small_adds(n, start=1, term=1, size=None, seed=0):
    return [["add", start + i, term, {"n": (3 + 5 * i) % 23 if size is None else size, "s": seed + i}]
            for i in range(n)]


def directed_cases():
    cs = []

    def case(name, ops, factory="FileJournal"):
        cs.append({"name": name, "factory": factory, "ops": ops})

    # growth boundaries: the record ends exactly at mult * size (+-1)
    for mult in (1, 2, 4, 8):
        for d in (-1, 0, 1):
            for style in ("destroy", "abandon"):
                case("fit%dx%+d-%s" % (mult, d, style),
                     [["add", 1, 1, {"n": 10, "s": 1}], ["addfit", mult, d, 2, 1, 7], ["reopen", style],
                      ["add", 3, 2, {"n": 5, "s": 2}], ["addfit", 1, 0, 4, 2, 8], ["add", 5, 2, {"n": 0}],
                      ["reopen", style]])
    # command of exactly mult * size (+-1) bytes
    for mult in (1, 2, 4, 8):
        for d in (-1, 0, 1):
            case("cmd%dx%+d" % (mult, d),
                 [["addx", mult, d, 1, 1, 3], ["add", 2, 1, {"n": 1, "s": 1}], ["reopen", "abandon"],
                  ["delfrom_back", 1], ["addx", 1, d, 3, 1, 4], ["reopen", "destroy"]])
    # first record on a fresh file larger than the file
    case("first-record-8x", [["addx", 8, 1, 1, 1, 5], ["reopen", "destroy"], ["delto", 1], ["reopen", "abandon"]])
    case("empty-commands", [["add", 1, 1, {"n": 0}], ["add", 2, 1, {"hex": ""}], ["add", 3, 1, {"n": 0}],
                            ["reopen", "destroy"], ["delfrom", 1], ["delto", 1], ["add", 9, 9, {"n": 0}], ["reopen", "abandon"]])
    # idx / term extremes
    for v in (0, U32 - 1, U32, U64 - 1):
        case("idx-%d" % v, [["add", v, 1, {"n": 4, "s": 1}], ["add", 1, v, {"n": 4, "s": 2}], ["add", v, v, {"n": 0}],
                            ["reopen", "destroy"], ["delfrom", 2], ["reopen", "abandon"]])
    # malformed: out of range for '<QQ' -> struct.error on both sides, sequence ends there
    case("idx-2^64", [["add", 1, 1, {"n": 3, "s": 1}], ["add", U64, 1, {"n": 3, "s": 2}]])
    case("term-2^64", [["add", 1, 1, {"n": 3, "s": 1}], ["add", 2, U64, {"n": 3, "s": 2}]])
    case("term-2^64-grow", [["add", 1, 1, {"n": 3, "s": 1}], ["add", 2, U64 + 5, {"n": 5000, "s": 2}]])
    # deleteEntriesFrom: header rewritten every 10 removed records
    for r in (0, 1, 9, 10, 11, 19, 20, 21, 25, 30, 31):
        case("delfrom-back%d" % r, small_adds(30) + [["delfrom_back", r], ["reopen", "abandon" if r % 2 else "destroy"],
                                                     ["add", 100, 3, {"n": 7, "s": 9}], ["delfrom_back", 1]])
    case("delfrom-beyond", small_adds(4) + [["delfrom", 7], ["delfrom", 4], ["delfrom", 3], ["reopen", "destroy"],
                                            ["delfrom", 0], ["delfrom", 0], ["reopen", "abandon"]])
    case("delfrom-mixed-sizes", [["add", 1, 1, {"n": 0}], ["add", 2, 1, {"n": 700, "s": 1}], ["add", 3, 1, {"n": 1, "s": 2}],
                                 ["add", 4, 1, {"n": 2000, "s": 3}], ["delfrom", 3], ["delfrom", 1], ["reopen", "destroy"]])
    # deleteEntriesTo
    for n in (0, 1, 2, 4, 5, 7):
        case("delto-%d" % n, small_adds(5) + [["delto", n], ["reopen", "destroy"], ["add", 50, 2, {"n": 9, "s": 4}],
                                              ["delto", 1], ["reopen", "abandon"]])
    case("delto-on-grown", [["add", 1, 1, {"n": 900, "s": 1}], ["add", 2, 1, {"n": 900, "s": 2}], ["add", 3, 1, {"n": 3000, "s": 3}],
                            ["delto", 2], ["reopen", "destroy"], ["addfit", 1, 0, 4, 1, 4], ["delto", 1], ["reopen", "abandon"]])
    case("delto-empty", [["delto", 0], ["delto", 3], ["reopen", "destroy"]])
    # head drop = new file <journal>.tmp + rename: the file shrinks, the tmp file grows like any journal
    case("delto-big-grown", [["add", 1, 1, {"n": 40000, "s": 1}], ["add", 2, 1, {"n": 40000, "s": 2}], ["add", 3, 1, {"n": 7, "s": 3}],
                             ["delto", 2], ["reopen", "destroy"], ["add", 4, 1, {"n": 9, "s": 4}], ["delto", 0], ["reopen", "abandon"]])
    case("delto-keeps-big", [["add", 1, 1, {"n": 5, "s": 1}], ["add", 2, 1, {"n": 3000, "s": 2}], ["add", 3, 1, {"n": 20000, "s": 3}],
                             ["delto", 1], ["addfit", 1, 0, 4, 1, 4], ["delto", 1], ["reopen", "destroy"]])
    case("delto-fit-boundaries", [["add", 1, 1, {"n": 1, "s": 1}], ["add", 2, 1, {"n": 960 - 25, "s": 2}], ["delto", 1], ["reopen", "abandon"],
                                  ["add", 3, 1, {"n": 0}], ["delto", 1], ["delto", 0], ["reopen", "destroy"]])
    case("delto-after-reopen", small_adds(6) + [["reopen", "destroy"], ["delto", 2], ["reopen", "abandon"], ["delto", 1], ["delto", 1],
                                                ["delto", 9], ["add", 1, 1, {"n": 3, "s": 1}], ["reopen", "destroy"]])
    case("delto-twice", small_adds(8) + [["delto", 3], ["delto", 2], ["delto", 0], ["delto", 3], ["delto", 0], ["reopen", "destroy"]])
    case("delto-pending-ci", small_adds(4) + [["setci", 3], ["delto", 2], ["timer"], ["reopen", "destroy"], ["setci", 4], ["delto", 1],
                                              ["reopen", "abandon"]])
    # head drop and tail drop in ONE session (no reopen in between), records of pairwise different sizes, both
    # orders: offsets remembered from the file before the head drop must not leak into the tail drop (seeded C08-13)
    mixed = [["add", i + 1, 1, {"n": n, "s": i}] for i, n in enumerate((3, 50, 7, 120, 1, 33, 64, 9, 200, 17, 0, 81))]
    for style in ("destroy", "abandon"):
        case("headdrop-then-taildrop-%s" % style,
             mixed + [["delto", 3], ["delfrom", 5], ["add", 20, 2, {"n": 13, "s": 20}], ["reopen", style],
                      ["delfrom", 2], ["add", 21, 2, {"n": 41, "s": 21}], ["reopen", style]])
        case("taildrop-then-headdrop-%s" % style,
             mixed + [["delfrom", 9], ["delto", 2], ["add", 20, 2, {"n": 13, "s": 20}], ["reopen", style],
                      ["delto", 1], ["delfrom", 3], ["add", 21, 2, {"n": 41, "s": 21}], ["reopen", style]])
        case("headdrop-add-taildrop-%s" % style,
             mixed[:7] + [["delto", 2], ["add", 20, 2, {"n": 77, "s": 20}], ["add", 21, 2, {"n": 5, "s": 21}], ["delfrom", 4],
                          ["reopen", style], ["delfrom", 1], ["reopen", style]])
        case("headdrop-taildrop-to-first-%s" % style,
             mixed[:6] + [["delto", 4], ["delfrom", 1], ["reopen", style], ["add", 22, 3, {"n": 19, "s": 22}], ["delto", 1],
                          ["delfrom", 0], ["add", 23, 3, {"n": 2, "s": 23}], ["reopen", style]])
    case("headdrop-taildrop-12", mixed + small_adds(14, start=30, seed=40) + [["delto", 5], ["delfrom", 9], ["reopen", "destroy"],
                                                                               ["delto", 2], ["delfrom", 1], ["reopen", "abandon"]])
    # a head drop killed at or before its rename leaves a stale <journal>.tmp: reopen ignores it, the next
    # head drop removes it first (JR); every position of the kill, torn header / record writes included
    for k, t in ((0, 0), (1, 0), (1, 17), (2, 0), (3, 0), (3, 9), (4, 0), (5, 0), (0.999, 0)):
        for style in ("destroy", "abandon"):
            case("stale-tmp-k%s-t%d-%s" % (k, t, style),
                 small_adds(5) + [["crashat", ["delto", 2], k, t], ["reopen", style], ["add", 9, 2, {"n": 12, "s": 5}],
                                  ["delfrom_back", 1], ["delto", 1], ["reopen", style], ["delto", 1]])
    case("stale-tmp-twice", small_adds(5) + [["crashat", ["delto", 2], 0.999, 0], ["crashat", ["delto", 1], 0, 0],
                                             ["crashat", ["delto", 1], 1, 0], ["crashat", ["delto", 3], 0.999, 0], ["clear"],
                                             ["reopen", "destroy"], ["delto", 0], ["reopen", "abandon"]])
    case("stale-tmp-big", [["add", 1, 1, {"n": 3000, "s": 1}], ["add", 2, 1, {"n": 5000, "s": 2}], ["crashat", ["delto", 1], 0.999, 0],
                           ["timer"], ["setci", 4], ["timer"], ["crashat", ["delto", 1], 0.7, 0.5], ["delto", 1], ["reopen", "destroy"]])
    case("stale-tmp-empty-journal", [["crashat", ["delto", 0], 0.999, 0], ["reopen", "abandon"], ["delto", 4], ["reopen", "destroy"]])
    # clear
    case("clear-empty", [["clear"], ["clear"], ["reopen", "destroy"], ["add", 1, 1, {"n": 3, "s": 1}]])
    case("clear-nonempty", small_adds(6) + [["clear"], ["reopen", "abandon"], ["add", 7, 2, {"n": 3, "s": 1}], ["clear"],
                                            ["add", 8, 2, {"n": 2000, "s": 2}], ["reopen", "destroy"]])
    # commit index / timer
    case("timer-idle", [["timer"], ["timer"], ["reopen", "destroy"], ["timer"]])
    case("setci-timer", [["setci", 5], ["timer"], ["timer"], ["reopen", "destroy"], ["setci", 6], ["setci", 7], ["timer"],
                         ["reopen", "abandon"], ["timer"]])
    case("setci-lost-on-reopen", [["setci", 5], ["timer"], ["setci", 9], ["reopen", "abandon"], ["timer"], ["reopen", "destroy"]])
    case("setci-never-saved", [["setci", 3], ["add", 1, 1, {"n": 2, "s": 1}], ["reopen", "destroy"], ["setci", 0], ["timer"],
                               ["reopen", "destroy"]])
    case("setci-big", [["setci", U64 + 17], ["timer"], ["reopen", "destroy"], ["setci", 1], ["timer"], ["timer"]])
    # setTermAndVote stores the whole meta dict at once - a pending commit index included
    case("settv-pending-ci", [["setci", 5], ["settv", 1, "n1:1"], ["reopen", "destroy"], ["setci", 6], ["settv", 2, None],
                              ["reopen", "abandon"], ["timer"]])
    case("settv-twice", [["settv", 1, "n1:1"], ["settv", 1, "n2:2"], ["settv", 3, None], ["reopen", "destroy"], ["settv", 3, None],
                         ["reopen", "abandon"]])
    case("settv-then-timer", [["setci", 4], ["settv", 2, "n2:2"], ["timer"], ["timer"], ["setci", 8], ["timer"], ["settv", 2, "n1:1"],
                              ["timer"], ["reopen", "destroy"], ["timer"]])
    case("settv-ci-persisted", small_adds(3) + [["setci", 3], ["settv", 1, "n1:1"], ["reopen", "abandon"], ["setci", 9],
                                                ["reopen", "destroy"], ["settv", 2, "n1:1"], ["reopen", "destroy"]])
    case("settv-no-ci", [["settv", 4, "n1:1"], ["reopen", "destroy"], ["setci", 2], ["timer"], ["reopen", "abandon"],
                         ["delto", 0], ["settv", 5, None], ["reopen", "destroy"]], factory="createJournal")
    case("settv-with-stale-tmp", small_adds(4) + [["crashat", ["delto", 1], 0.999, 0], ["setci", 2], ["settv", 1, "n2:2"],
                                                  ["reopen", "abandon"], ["delto", 1], ["settv", 2, "n2:2"], ["reopen", "destroy"]])
    # reopen after every kind of op, both styles
    for style in ("destroy", "abandon"):
        case("reopen-everywhere-" + style,
             [["reopen", style], ["add", 1, 1, {"n": 12, "s": 1}], ["reopen", style], ["add", 2, 1, {"n": 2100, "s": 2}],
              ["reopen", style], ["setci", 2], ["reopen", style], ["setci", 2], ["timer"], ["reopen", style],
              ["delto", 1], ["reopen", style], ["delfrom", 0], ["reopen", style], ["clear"], ["reopen", style],
              ["reopen", style]])
    case("factory", small_adds(3) + [["reopen", "destroy"], ["delto", 1], ["setci", 4], ["timer"], ["reopen", "destroy"]],
         factory="createJournal")
    # str commands: the file holds utf-8, the cached list the str until the next reopen
    case("str-commands", [["add", 1, 1, {"str": "abc"}], ["add", 2, 1, {"str": "ä€\U0001f600"}], ["add", 3, 1, {"str": ""}],
                          ["delto", 1], ["reopen", "destroy"], ["add", 4, 1, {"str": "x" * 1500}], ["reopen", "abandon"]])
    # big records
    case("100KiB", [["add", 1, 1, {"n": 100 * 1024, "s": 1}], ["add", 2, 1, {"n": 17, "s": 2}], ["reopen", "destroy"],
                    ["delfrom", 1], ["reopen", "abandon"]])
    case("1MiB", [["add", 1, 1, {"n": 5, "s": 1}], ["add", 2, 1, {"n": 1 << 20, "s": 2}], ["reopen", "abandon"], ["delto", 1]])
    return cs


# ---------------------------------------------------------------------------------------------------
def _fixed(jm, model, path, ops, factory, rng=None):
    return lib.run_case(jm, model, path, lib.ListSource(ops), factory=factory, rng=rng)


def _key(note):
    return re.sub(r"\d+", "#", note.split(":")[0])[:60]


def _report(jm, model, path, r, out, seen_notes):
    """shrink a disagreement / record a violation of one finished case"""
    fac = r["factory"]
    if r["violation"] is not None and len(out["violations"]) < 3 and \
            r["violation"]["signature"] not in [w["signature"] for w in out["violations"]]:
        v = r["violation"]
        sig = v["signature"]

        def fails(ops):
            x = lib.monitor_ops(jm, path, ops, fac)
            return x["violation"] is not None and x["violation"]["signature"] == sig
        small = lib.shrink_ops(v["replay"]["ops"], fails, budget=80)
        x = lib.monitor_ops(jm, path, small, fac)
        v2 = x["violation"] if x["violation"] is not None else v
        if sig not in [w["signature"] for w in out["violations"]]:
            out["violations"].append(v2)
    if r["disagreement"] is not None and len(out["violations"]) < 3:
        # the property's own statement (model-free list monitor) on the WHOLE case as generated: the run stops at
        # the first disagreement, and the shrunk disagreement below may no longer contain the reopen that shows a
        # loss; this runs for every disagreeing case, also when its note was reported before
        full = r.get("full_ops") or r.get("ops") or r["disagreement"]["input"]["ops"]
        m = lib.monitor_ops(jm, path, full, fac)
        if m["violation"] is not None and m["violation"]["signature"] not in [w["signature"] for w in out["violations"]]:
            sig = m["violation"]["signature"]

            def fails2(ops):
                x = lib.monitor_ops(jm, path, ops, fac)
                return x["violation"] is not None and x["violation"]["signature"] == sig
            small = lib.shrink_ops(m["violation"]["replay"]["ops"], fails2, budget=80)
            x = lib.monitor_ops(jm, path, small, fac)
            out["violations"].append(x["violation"] if x["violation"] is not None else m["violation"])
            out["coverage"].hit("monitor_on_disagreeing_case_tripped")
    if r["disagreement"] is not None and len(out["disagreements"]) < 3 and \
            _key(r["disagreement"]["note"]) not in seen_notes:
        d = r["disagreement"]

        def differs(ops):
            return _fixed(jm, model, path, ops, fac)["disagreement"] is not None
        small = lib.shrink_ops(d["input"]["ops"], differs, budget=80)
        x = _fixed(jm, model, path, small, fac)
        d2 = x["disagreement"] if x["disagreement"] is not None else d
        key = _key(d2["note"])
        fresh = key not in seen_notes
        seen_notes.update([key, _key(d["note"])])
        if fresh:
            out["disagreements"].append(d2)
        # the property's own statement on that input (monitor, model-free)
        m = lib.monitor_ops(jm, path, d2["input"]["ops"], fac)
        if m["violation"] is not None and m["violation"]["signature"] not in [w["signature"] for w in out["violations"]]:
            out["violations"].append(m["violation"])
        # ... and its crash clause: the directory before / after every file-system call of every op of the
        # input (shrunk and as found), reopened with the real class
        for ops in (d2["input"]["ops"], d["input"]["ops"]):
            out["coverage"].hit("fs_pass_on_disagreement")
            for v in lib.fs_check_sequence(jm, os.path.dirname(path), ops, fac, cov=out["coverage"], limit=2):
                if v["signature"] not in [w["signature"] for w in out["violations"]]:
                    out["violations"].append(v)


def run(ctx):
    t0 = time.time()
    jm = lib.load_journal(ctx.repo)
    rng = ctx.rng("journal_bytes")
    tmp = ctx.tmpdir()
    model = lib.Model(jm)
    cov = lib.Cov()
    out = {"cases": 0, "distinct": 0, "coverage": cov, "samples": [], "disagreements": [], "violations": []}
    hashes, seen_notes = set(), set()

    def finish(name, r, group, full_ops=None):
        if full_ops is not None:
            r["full_ops"] = [list(o) for o in full_ops]      # the whole case as generated (abstract ops)
        out["cases"] += 1
        cov.hit("cases." + group)
        cov.hit("ops_total", len(r["ops"]))
        if len(r["ops"]) >= 2:
            hashes.add(lib.ops_hash([r["factory"], r["ops"]]))
        if r["err"]:
            cov.hit("sequences_ended_by_struct_error")
        if r["disagreement"] is not None or r["violation"] is not None:
            _report(jm, model, os.path.join(tmp, "shrink"), r, out, seen_notes)
        if len(out["samples"]) < 3 and group != "corpus" and len(r["ops"]) <= 12 and name in ("fit2x+0-destroy", "setci-timer", "delto-2"):
            out["samples"].append({"name": name, "factory": r["factory"], "ops": r["ops"], "agreed": r["disagreement"] is None,
                                   "list_monitor_ok": r["violation"] is None})

    try:
        n = 0
        for c in lib.corpus_cases(ctx.verif):
            n += 1
            r = lib.run_case(jm, model, os.path.join(tmp, "c%d" % n), lib.ListSource(c["ops"]), factory=c.get("factory", "FileJournal"),
                             cov=cov, rng=rng)
            finish(c["name"], r, "corpus", c["ops"])
        for c in directed_cases():
            n += 1
            r = lib.run_case(jm, model, os.path.join(tmp, "d%d" % n), lib.ListSource(c["ops"]), factory=c["factory"], cov=cov, rng=rng)
            finish(c["name"], r, "directed", c["ops"])
        n_rand = ctx.scale(60, 7000)
        n_big = ctx.scale(1, 24)
        budget = ctx.scale(24.0, 230.0)       # safety net only: the counts above are what normally ends the run
        done_rand = 0
        for i in range(n_rand):
            if time.time() - t0 > budget or len(out["disagreements"]) >= 3:
                break
            crng = ctx.rng("journal_bytes/%d" % i)
            cap = crng.choice([4096, 8192, 8192, 16384, 16384, 16384, 16384, 65536, 65536, 262144])
            src = lib.RandomSource(crng, crng.choice([4, 8, 12, 20, 30, 45]), cap, malformed=(i % 25 == 7))
            r = lib.run_case(jm, model, os.path.join(tmp, "r%d" % i), src, factory="createJournal" if i % 9 == 4 else "FileJournal",
                             cov=cov, rng=crng)
            finish("random-%d" % i, r, "random")
            done_rand += 1
        for i in range(n_big):
            if time.time() - t0 > budget or len(out["disagreements"]) >= 3:
                break
            crng = ctx.rng("journal_bytes/big/%d" % i)
            src = lib.RandomSource(crng, crng.choice([3, 5, 8]), 1 << 21)
            src.profile = "growth"
            src = lib.ChainSource([["add", 1, 1, {"n": crng.choice([100, 300, 600, 1024]) * 1024 + crng.randrange(-2, 3), "s": i}]], src)
            r = lib.run_case(jm, model, os.path.join(tmp, "b%d" % i), src, cov=cov, rng=crng)
            finish("big-%d" % i, r, "big")
        cov["random_planned"] = n_rand
        cov["random_done"] = done_rand
    finally:
        model.close()

    out["distinct"] = len(hashes)
    out["coverage"] = dict(sorted(cov.items()))
    out["wall_s"] = round(time.time() - t0, 2)
    floors = [("add.grow", 5), ("add.nogrow", 5), ("grow.double", 2), ("grow.to_fit", 2), ("add.exact_fill", 2),
              ("delfrom.hdr10", 3), ("reopen.destroy", 5), ("reopen.abandon", 5), ("op.delto", 5), ("op.clear", 3),
              ("delto.by_rename", 10), ("delto.removes_stale_tmp", 5), ("delto.tmp_grows", 2), ("delto.file_shrinks", 2),
              ("crashat.leaves_stale_tmp", 5), ("reopen.with_stale_tmp", 5), ("stale_tmp_compared", 10),
              ("op.settv", 10), ("settv.with_pending_ci", 3), ("timer.idle_after_settv", 2),
              ("timer.saved", 3), ("timer.idle", 2), ("err.structError", 2), ("cmdsize.0", 2), ("cmdsize.>=256K", 1),
              ("add.idx_or_term=2^64-1", 1), ("img_compared", 50), ("ents_compared", 20)]
    missed = ["%s=%d<%d" % (k, cov.get(k, 0), f) for k, f in floors if cov.get(k, 0) < f]
    # (a slow machine that ran fewer random sequences than planned is not a reason to call the run inconclusive:
    #  the directed cases guarantee the floors; the number done is published in coverage.random_done)
    if missed and not out["violations"] and not out["disagreements"]:
        out["inconclusive"] = "journal_bytes coverage floor missed: " + ", ".join(missed)
    return out


# ---------------------------------------------------------------------------------------------------
def search(ctx, unproved):
    """monitor-only fuzz on the real code (no model): a few seconds, derived seed"""
    jm = lib.load_journal(ctx.repo)
    tmp = ctx.tmpdir()
    t0 = time.time()
    found = []
    limit = ctx.scale(4.0, 30.0)
    cases = [(c["ops"], c["factory"]) for c in directed_cases()]
    i = 0
    while time.time() - t0 < limit and len(found) < 2:
        crng = ctx.rng("journal_bytes/search/%d" % i)
        path = os.path.join(tmp, "s%d" % i)
        if i < len(cases):
            r = lib.run_case(jm, None, path, lib.ListSource(cases[i][0]), factory=cases[i][1], rng=crng)
        else:
            src = lib.RandomSource(crng, crng.choice([6, 12, 25, 40]), crng.choice([16384, 65536, 1 << 20]))
            r = lib.run_case(jm, None, path, src, rng=crng)
        i += 1
        v = r["violation"]
        if v is not None and v["signature"] not in [w["signature"] for w in found]:
            sig = v["signature"]

            def fails(ops, fac=r["factory"], sig=sig, path=path):
                x = lib.monitor_ops(jm, path, ops, fac)
                return x["violation"] is not None and x["violation"]["signature"] == sig
            small = lib.shrink_ops(v["replay"]["ops"], fails, budget=60)
            x = lib.monitor_ops(jm, path, small, r["factory"])
            found.append(x["violation"] or v)
    return found


def replay(ctx, violation):
    jm = lib.load_journal(ctx.repo)
    rp = violation.get("replay") or {}
    tmp = ctx.tmpdir()
    try:
        if rp.get("kind") == "fs":
            m, killed = lib.replay_fs(jm, tmp, rp)
            return {"violated": m is not None, "signature": m and m[0], "what": m and m[1], "killed": killed, "tree": ctx.repo}
        r = lib.monitor_ops(jm, os.path.join(tmp, "replay"), rp.get("ops", []), rp.get("factory", "FileJournal"),
                            rng=ctx.rng("journal_bytes/replay"))
    finally:
        shutil.rmtree(tmp, ignore_errors=True)      # ./check --replay does not clean up the ctx
    v = r["violation"]
    return {"violated": v is not None, "signature": v and v["signature"], "what": v and v["what"],
            "ops_executed": len(r["ops"]), "tree": ctx.repo}
