"""C15, schedule level: the six batteries as consumers of real SyncObj instances in a simulated
3-node cluster (harness/sim.py: real Raft code, simulated transport, virtual clock).  Operations are
submitted through the REPLICATED path (`battery.method(args, callback=...)`: command pickling, method-id
tables, defaults applied on every replica), one node is kept partitioned, the others compact their
logs, the straggler rejoins and is brought up to date FROM A SNAPSHOT (its batteries are rebuilt by
`_deserialize`), more operations follow.

Every second schedule draws its arguments from the MIXED domain of `corr/batteries_mixed.py` (None, 0, False,
'', (), ... as values, keys, items and defaults; optional arguments omitted vs. an explicit None) and is
compared by repr.

Optional arguments (`pop(position)`, `sort(reverse)`, `pop(key, default)`, `setdefault(key, default)`,
`get(default)`) are issued in all three forms -- omitted, positional, BY KEYWORD (the keyword travels through the
log) -- and every keyword call is followed, from the same node, by the same method without the argument, by a
method of the same battery that does not accept that keyword, and by a method of another battery (floored).

Monitor (the property statement): every callback result == the builtin's result for the same call, in
submission order; at the end all three replicas hold contents equal to the builtin's.
`ReplSet.pop` is part of the streams (D20 repaired): the callback result must be a member of the mimic
set, exactly it is removed from the mimic, and every replica -- the one rebuilt from the snapshot
included -- must end with the mimic's contents.  Calls on which the Python container RAISES are part of the
streams (KeyError / IndexError / ValueError of misses, AssertionError / TypeError of reset() with a wrong type, and
directed TypeError bursts in the mixed domain: sort() of a list holding 1 and 'a', the unhashable key [1] in
dict/set calls, add('x') on the counter, two priority-queue items tying on priority with unorderable payloads): the
callback must carry an exception of the same class, every replica moves on, later operations are applied.
`ReplList.__setitem__` is `@replicated(ver=1)` and needs `setCodeVersion(1)`: property C17.)
"""
import hashlib
import json
import time

from harness.corr import batteries_ops as bo
from harness.corr import batteries_mixed as bm

PROPERTIES = ["C15"]
ORDER = 60

NAMES = ["counter", "list", "dict", "set", "queue", "pq"]


def make_sim(repo, seed, maxsize):
    import logging
    logging.getLogger("pysyncobj").addHandler(logging.NullHandler())   # "replicated method raised" tracebacks: observed via callbacks
    bo.load_batteries(repo)
    from harness.sim import Sim

    class BSim(Sim):
        def _make_class(self):
            so = self.so
            import pysyncobj.batteries as B

            class Obj(so.SyncObj):
                def __init__(self, nid, selfNode, others, conf, transport):
                    self._nid = nid
                    self.bat = {"counter": B.ReplCounter(), "list": B.ReplList(), "dict": B.ReplDict(),
                                "set": B.ReplSet(), "queue": B.ReplQueue(maxsize), "pq": B.ReplPriorityQueue(maxsize)}
                    so.SyncObj.__init__(self, selfNode, others, conf=conf, transport=transport,
                                        consumers=[self.bat[n] for n in NAMES])
            return Obj
    return BSim(repo, ["a", "b", "c"], seed=seed,
                conf={"logCompactionMinEntries": 10 ** 9, "logCompactionMinTime": 10 ** 9})


# optional parameters of replicated battery methods: (class, method) -> (number of required positionals, name)
KWPARAM = {("list", "pop"): (0, "position"), ("list", "sort"): (0, "reverse"), ("dict", "pop"): (1, "default"),
           ("dict", "setdefault"): (1, "default"), ("queue", "get"): (0, "default"), ("pq", "get"): (0, "default")}
# methods of the same battery that do NOT accept that keyword (they must neither see it nor fail because of it)
LACKING = {"list": [["append", 3], ["extend", [1]]], "dict": [["set", 2, 2], ["clear"]],
           "queue": [["put", 4]], "pq": [["put", 4]]}
OTHER = [("counter", ["inc"]), ("set", ["add", 5]), ("list", ["append", 8]), ("queue", ["put", 6]), ("dict", ["set", 1, 1])]


class Gen(object):
    """op stream for one schedule: mutating calls only (reads are local; contents are compared at the end), raising
    calls included.  The tracker only steers the generation (sizes, non-raising calls); for ReplSet.pop it removes
    the element with the smallest (type name, repr) -- should the implementation choose otherwise, `evaluate`
    follows the implementation.  Optional arguments are issued in all three forms: omitted, positional, BY
    KEYWORD (`kwforms[index] = [parameter name]`: the last argument travels through the log as a keyword); every
    keyword call is followed by the same method without the argument, by a method of the same battery that lacks
    the keyword and by a method of another battery of the same node."""

    def __init__(self, rng, maxsize, mixed):
        self.rng, self.mixed = rng, mixed
        self.track = dict((c, bo.make_builtin(c, maxsize)) for c in NAMES)
        self.out, self.kwforms, self.cov = [], {}, {}

    def enc(self, op):
        return [op[0]] + [bm.lit(a) for a in op[1:]] if self.mixed else op

    def emit(self, cls, op, kw=None):
        import copy
        mixed = self.mixed
        v = self.track[cls].v
        name = op[0]
        if name not in bo.REPLICATED[cls]:
            return False
        if cls == "list" and name == "__setitem__":
            # @replicated(ver=1): only callable through a cluster after setCodeVersion(1) -- code versions
            # are property C17's subject; `set` has the same body
            return False
        if cls == "set" and name == "pop":
            if not v:
                return False
            v.remove(min(v, key=bm.value_key))
        else:
            # calls that RAISE on the mimic are part of the stream: the callback has to report the same error
            # class, every replica has to move on (see evaluate)
            r = (bm.call_builtin if mixed else bo.call_builtin)(cls, self.track[cls], op)
            if isinstance(r, bm.Err):
                self.count("raises:%s.%s:%s" % (cls, name, r.name))
                self.count("raises:any:" + r.name)
            elif isinstance(r, dict) and not mixed and "e" in r:
                self.count("raises:%s.%s:%s" % (cls, name, r["e"]))
                self.count("raises:any:" + r["e"])
        if kw:
            self.kwforms[len(self.out)] = kw
        self.out.append((cls, op))
        return True

    def size(self, cls):
        v = self.track[cls].v
        return v.qsize() if cls in ("queue", "pq") else 0 if cls == "counter" else len(v)

    def count(self, key):
        self.cov[key] = self.cov.get(key, 0) + 1

    FAMILIES = [[(1, 'a'), ('a', 1), (1, None), (1, 2)], [((1,), 'x'), ((1,), 2), (None, (0, 'b'))], [1j, 2j, (3+1j)],
                [frozenset([1, 2]), frozenset([2, 3]), frozenset([1]), frozenset()],
                [frozenset([45, 53]), frozenset([50]), frozenset([53, 61, 45])], [frozenset(['a', 'b']), frozenset(['a', 'c'])],
                [(frozenset([45, 53]), 1), (frozenset([50]), 1), (frozenset([45, 53]), 0)]]

    def unordered_family(self):
        """ReplSet holding only members of one kind without a total order, then pops (mixed domain only): the
        member pop() removes must not depend on comparing members (TypeError) or on the layout (frozensets)"""
        fam = self.rng.choice(self.FAMILIES)
        self.emit("set", ["clear"])
        for x in self.rng.sample(fam, len(fam)):
            self.emit("set", ["add", bm.lit(x)])
        for _ in range(self.rng.randrange(1, len(fam))):
            if self.emit("set", ["pop"]):
                self.count("set.pop:only-unordered-members")

    def type_error_burst(self):
        """calls on which the Python containers raise TypeError / AssertionError (mixed domain), each followed by a
        call that succeeds: the callback must carry that error class, later operations must still be applied"""
        L = bm.lit
        kind = self.rng.choice(["sort", "unhashable-dict", "unhashable-set", "counter", "pq-tie", "reset"])
        if kind == "sort":                      # a list holding 1 and 'a', then sort()
            burst = [("list", ["append", L(1)]), ("list", ["append", L('a')]), ("list", ["sort"]), ("list", ["append", L(2)]),
                     ("list", ["sort", L(True)]), ("list", ["pop"])]
        elif kind == "unhashable-dict":         # key [1]
            burst = [("dict", ["set", L([1]), L(0)]), ("dict", ["set", L('k'), L(1)]), ("dict", ["setdefault", L([1]), L(2)]),
                     ("dict", ["pop", L([1])]), ("dict", ["update", L({'u': None})])]
        elif kind == "unhashable-set":
            burst = [("set", ["add", L([1])]), ("set", ["add", L(3)]), ("set", ["discard", L([1])]), ("set", ["remove", L({})]),
                     ("set", ["update", L([[1]])]), ("set", ["add", L(4)])]
        elif kind == "counter":                 # add('x') on the counter
            burst = [("counter", ["add", L('x')]), ("counter", ["inc"]), ("counter", ["sub", L(None)]), ("counter", ["add", L(2)])]
        elif kind == "pq-tie":                  # two items that tie on priority with unorderable payloads
            burst = [("pq", ["put", L((1, 'a'))]), ("pq", ["put", L((1, None))]), ("pq", ["put", L((0, 'z'))]), ("pq", ["get"]),
                     ("pq", ["get"]), ("pq", ["get"]), ("pq", ["get"])]
        else:                                   # reset() with a wrong type
            burst = [("list", ["reset", L(None)]), ("dict", ["reset", L([])]), ("set", ["reset", L({})]), ("list", ["append", L(0)]),
                     ("list", ["extend", L(5)])]
        for cls, op in burst:
            self.emit(cls, op)
        self.count("type-error-burst:" + kind)

    def step(self):
        rng = self.rng
        if self.mixed and rng.random() < 0.04:
            self.unordered_family()
            return
        if self.mixed and rng.random() < 0.05:
            self.type_error_burst()
            return
        cls = rng.choice(NAMES)
        op = (bm.gen_op if self.mixed else bo.gen_op)(rng, cls, self.size(cls))
        par = KWPARAM.get((cls, op[0]))
        if par is None or len(op) - 1 <= par[0]:
            if self.emit(cls, op) and par is not None:
                self.count("form:omitted")
            return
        if rng.random() < 0.5:
            if self.emit(cls, op):
                self.count("form:positional")
            return
        if not self.emit(cls, op, [par[1]]):
            return
        self.count("form:keyword")
        # follow-ups on the same node (the submitter of a burst is one node; see scenario.phase)
        if self.emit(cls, op[:1 + par[0]] if par[0] == 0 else [op[0], op[1]]):
            self.count("keyword-then-same-method-without-it")
        for cand in LACKING.get(cls, []):
            if self.emit(cls, self.enc(cand)):
                self.count("keyword-then-method-lacking-the-keyword")
                break
        for c2, cand in rng.sample(OTHER, len(OTHER)):
            if c2 != cls and self.emit(c2, self.enc(cand)):
                self.count("keyword-then-other-battery")
                break


def gen_ops(rng, n, maxsize, mixed=False):
    g = Gen(rng, maxsize, mixed)
    while len(g.out) < n:
        g.step()
    return g.out, g.kwforms, g.cov


def scenario(repo, seed, rng, n_ops, maxsize, mixed=False):
    sim = make_sim(repo, seed, maxsize)
    sim.connect_all()
    L = sim.elect()
    if L is None:
        return None, {"note": "no leader"}
    others = [i for i in sim.voters if i != L]
    F, S = others                    # S = straggler
    sim.run(4)
    ops, kwforms, gcov = gen_ops(rng, n_ops, maxsize, mixed)
    n_ops = len(ops)
    results = {}                     # submission index -> result / error

    def submit(k, node, cls, op):
        name, args = bm.args_of(op) if mixed else bo.args_of(cls, op)
        if mixed and cls == "set" and name == "pop":
            args = []
        n_err = len(sim.errors)

        def cb(res, err, k=k):
            results[k] = (res, err)
        kw = {}
        for pname in reversed(kwforms.get(k, [])):          # the trailing arguments travel BY KEYWORD
            kw[pname] = args.pop()
        sim._call(node, getattr(sim.objs[node].bat[cls], name), *args, callback=cb, **kw)
        if len(sim.errors) > n_err and k not in results:
            # the call raised at the CALLER (before anything was replicated), e.g. a missing argument
            results[k] = ("raised-at-caller", sim.errors[-1][1])

    def phase(lo, hi, nodes, among):
        """bursts of 1..6 commands from ONE node (so that log order = submission order), then run until
        every callback of the burst has arrived"""
        k = lo
        while k < hi:
            node = rng.choice(nodes)
            burst = min(hi - k, rng.randrange(1, 7))
            for j in range(k, k + burst):
                submit(j, node, *ops[j])
            k += burst
            for _ in range(40):
                if all(j in results for j in range(lo, k)):
                    break
                sim.run(1, among=among)
            else:
                stuck.append(k)                 # callbacks do not arrive any more: do not submit further
                return

    stuck = []
    third = n_ops // 3
    phase(0, third, [L, F, S], None)                       # phase 1: everybody connected
    sim.disconnect(S, L)                                   # phase 2: S partitioned; L and F go on and compact
    sim.disconnect(S, F)
    if not stuck:
        phase(third, 2 * third, [L, F], [L, F])
    sim.compact(L)
    sim.compact(F)
    sim.run(4, among=[L, F])
    first_idx = [sim.P(i, "raftLog")[0][1] for i in (L, F)]
    s_last_before = sim.last_index(S)
    sim.connect(S, L)                                      # phase 3: S rejoins, is served the snapshot
    sim.connect(S, F)
    sim.run(12)
    s_first_after = sim.P(S, "raftLog")[0][1]
    if sim.leader() is None:
        sim.elect()
    if not stuck:
        phase(2 * third, n_ops, [L, F, S], None)
    sim.run(8)
    info = {"leader": L, "straggler": S, "first_log_index_after_compaction": first_idx,
            "straggler_last_index_before_rejoin": s_last_before, "straggler_first_index_after_rejoin": s_first_after,
            "snapshot_installed": s_first_after > s_last_before, "errors": [e[:3] for e in sim.errors[:3]],
            "argument_forms": gcov, "keyword_calls": sorted(kwforms)[:8], "stuck_after_submission": stuck[:1]}
    return (sim, ops, results), info


def evaluate(sim, ops, results, maxsize, mixed=False):
    """property monitor: callbacks == builtin results (in log order = submission order here, one
    submitter at a time and FIFO channels), replicas' contents == builtins' contents"""
    viols = []
    builtins = dict((c, bo.make_builtin(c, maxsize)) for c in NAMES)
    # the log order is the order in which the leader appended: recover it from the leader's apply order is
    # not observable for consumers, so the comparison is per battery in submission order, which the
    # schedule preserves per battery only if commands are not reordered: check with the final contents too.
    n_cb = 0
    for k, (cls, op) in enumerate(ops):
        called = k in results and results[k][0] != "raised-at-caller"
        if mixed:
            if cls == "set" and op[0] == "pop" and called:
                want = bm.canon(bm.call_builtin(cls, builtins[cls], op, results[k][0] if results[k][1] == 0 and not isinstance(results[k][0], BaseException) else bm.NO_ORACLE))
            else:
                want = bm.canon(bm.call_builtin(cls, builtins[cls], op))
        elif cls == "set" and op[0] == "pop" and called:
            # reference = the set abstraction: the returned element is a member, exactly it is removed
            want = bo.call_builtin(cls, builtins[cls], op, results[k][0] if results[k][1] == 0 and not isinstance(results[k][0], BaseException) else bo.NO_ORACLE)
        else:
            want = bo.call_builtin(cls, builtins[cls], op)
        if k in results and results[k][0] == "raised-at-caller":
            viols.append({"signature": "batteries.%s.%s:differs-from-builtin:%s" % (bo.CLSNAME[cls], op[0], results[k][1]),
                          "what": "%s.%s%r raised %s at the caller (nothing was replicated); %s given the same call returned %r "
                                  "(submission %d)" % (bo.CLSNAME[cls], op[0], tuple(op[1:]), results[k][1], bo.BUILTIN[cls], want, k)})
            break
        if k not in results:
            raising = isinstance(want, dict) and "e" in want
            viols.append({"signature": ("batteries.%s.%s:raising-call-never-answered:%s" % (bo.CLSNAME[cls], op[0], want["e"])) if raising
                          else "batteries.cluster:callback-missing",
                          "what": "no callback for %s.%s%r (submission %d; %s given the same call: %r); escaped from the nodes: %r"
                                  % (bo.CLSNAME[cls], op[0], tuple(op[1:]), k, bo.BUILTIN[cls], want,
                                     sorted(set((e[0], e[1]) for e in sim.errors))[:4])})
            break
        res, err = results[k]
        n_cb += 1
        if isinstance(want, dict) and "e" in want:
            # the Python container raises: the callback has to carry an exception of the same class (the command is
            # committed, every replica executes it and sees the same exception), and the cluster moves on
            if not (err == 0 and isinstance(res, BaseException) and type(res).__name__ == want["e"]):
                viols.append({"signature": "batteries.%s.%s:replicated-error-differs-from-builtin" % (bo.CLSNAME[cls], op[0]),
                              "what": "through the cluster %s.%s%r -> (%r, err %r); %s given the same call raises %s (submission %d)"
                                      % (bo.CLSNAME[cls], op[0], tuple(op[1:]), res, err, bo.BUILTIN[cls], want["e"], k)})
                break
            continue
        if err == 0 and isinstance(res, BaseException):
            # the method raised on the replicas (the callback carries the exception) where the builtin does not
            viols.append({"signature": "batteries.%s.%s:differs-from-builtin:%s" % (bo.CLSNAME[cls], op[0], type(res).__name__),
                          "what": "through the cluster %s.%s%r raised %r on the replicas; %s given the same call returned %r "
                                  "(submission %d)" % (bo.CLSNAME[cls], op[0], tuple(op[1:]), res, bo.BUILTIN[cls], want, k)})
            break
        if err != 0 or not bo.same(bm.canon(res) if mixed else bo.enc(res), want):
            viols.append({"signature": "batteries.%s.%s:replicated-result-differs-from-builtin" % (bo.CLSNAME[cls], op[0]),
                          "what": "through the cluster %s.%s%r -> (%r, err %r); %s -> %r (submission %d)"
                                  % (bo.CLSNAME[cls], op[0], tuple(op[1:]), res, err, bo.BUILTIN[cls], want, k)})
            break
    contents = {}
    for i in sim.voters:
        contents[i] = {}
        for c in NAMES:
            if mixed:
                st, m = bm.battery_raw_contents(c, sim.objs[i].bat[c])
                st = bm.contents_canon(c, st)
            else:
                st, m = bo.battery_contents(c, sim.objs[i].bat[c])
                if c == "pq":
                    st = {"l": sorted(st["l"])}
            contents[i][c] = [st, m]
    want = {}
    for c in NAMES:
        if mixed:
            st, m = bm.builtin_raw_contents(c, builtins[c])
            st = bm.contents_canon(c, st)
        else:
            st, m = bo.builtin_contents(c, builtins[c])
        want[c] = [st, m]
    for i in sim.voters:
        for c in NAMES:
            if not bo.same(contents[i][c], want[c]) and not viols:
                viols.append({"signature": "batteries.%s:replica-contents-differ-from-builtin" % bo.CLSNAME[c],
                              "what": "replica %s holds %r for %s; %s given the same operations holds %r; other replicas: %r"
                                      % (i, contents[i][c], bo.CLSNAME[c], bo.BUILTIN[c], want[c],
                                         dict((j, contents[j][c]) for j in sim.voters if j != i))})
    return viols, n_cb, contents


def version_scenario(repo, seed, sub):
    """Code versions and `ReplList.__setitem__` (the only `@replicated(ver=1)` battery method).
    Expectation, from the code-version semantics (C17) and from what the code does: while version 0 is enabled
    `lst[i] = x` is NOT callable -- `_getFuncName` has no name for it and the call raises KeyError at the caller,
    nothing is replicated; after `setCodeVersion(1)` has been applied, `lst[i] = x` behaves like `list.__setitem__`
    when issued on ANY node, in particular on a node whose state was REBUILT from a snapshot taken after the switch
    (its version table has to be rebuilt with the restored version)."""
    import random
    rng = random.Random("%d/%d/version" % (seed, sub))
    sim = make_sim(repo, seed * 1000 + 500 + sub, 0)
    sim.connect_all()
    L = sim.elect()
    info = {"kind": "version", "sub": sub}
    if L is None:
        return [], dict(info, note="no leader"), {}
    F, S = [i for i in sim.voters if i != L]
    sim.run(4)
    mimic = []
    viols, cov = [], {}
    results = {}
    counter = [0]

    def count(k):
        cov[k] = cov.get(k, 0) + 1

    def call(node, name, *args):
        """replicated list call from `node`; returns ('ok', result) | ('raised', ExcName) | ('no-callback',)"""
        counter[0] += 1
        k = counter[0]

        def cb(res, err, k=k):
            results[k] = (res, err)
        n_err = len(sim.errors)
        sim._call(node, getattr(sim.objs[node].bat["list"], name), *args, callback=cb)
        if len(sim.errors) > n_err and k not in results:
            return ("raised", sim.errors[-1][1])
        for _ in range(40):
            if k in results:
                break
            sim.run(1, among=[i for i in sim.voters if (node, i) in sim.up or i == node] or None)
        if k not in results:
            return ("no-callback",)
        res, err = results[k]
        if err == 0 and isinstance(res, BaseException):
            return ("raised", type(res).__name__)
        return ("ok", res) if err == 0 else ("failed", err)

    def ref(name, *args):
        try:
            return ("ok", getattr(mimic, name)(*args))
        except (IndexError, ValueError, TypeError) as e:
            return ("raised", type(e).__name__)

    def expect_same(node, where, name, *args):
        got, want = call(node, name, *args), ref(name, *args)
        if repr(got) != repr(want):
            viols.append({"signature": "batteries.ReplList.%s:differs-from-builtin:%s" % (name, got[1] if got[0] == "raised" else got[0] if got[0] != "ok" else "value"),
                          "what": "%s: ReplList.%s%r issued on node %s -> %r; list given the same call -> %r (list before: %r)"
                                  % (where, name, args, node, got, want, mimic)})
            return False
        return True

    # 1. some contents (version 0)
    for x in [rng.choice(bo.VALS) for _ in range(rng.randrange(3, 7))]:
        expect_same(rng.choice([L, F, S]), "version 0", "append", x)
    # 2. before the switch: lst[i] = x is refused at the caller on every node, nothing changes
    for node in (L, F, S):
        got = call(node, "__setitem__", 0, 99)
        count("setitem-before-switch")
        if got != ("raised", "KeyError"):
            viols.append({"signature": "batteries.ReplList.__setitem__:callable-before-version-enabled",
                          "what": "version 0 enabled on %s (getCodeVersion()=%r): ReplList.__setitem__(0, 99) -> %r; a ver=1 method is "
                                  "not callable before setCodeVersion(1): expected KeyError at the caller"
                                  % (node, sim.objs[node].getCodeVersion(), got)})
    sim.run(2)
    # 3. S partitioned; switch to version 1; use __setitem__ on L and F; compact
    sim.disconnect(S, L)
    sim.disconnect(S, F)
    done = {}
    sim._call(L, sim.objs[L].setCodeVersion, 1, lambda res, err: done.setdefault("v", (res, err)))
    for _ in range(40):
        if "v" in done and all(sim.objs[i].getCodeVersion() == 1 for i in (L, F)):
            break
        sim.run(1, among=[L, F])
    info["setCodeVersion"] = repr(done.get("v"))
    info["versions_after_switch"] = dict((i, sim.objs[i].getCodeVersion()) for i in sim.voters)
    if not all(sim.objs[i].getCodeVersion() == 1 for i in (L, F)):
        return viols, dict(info, note="switch did not take effect"), cov
    for _ in range(rng.randrange(2, 6)):
        node = rng.choice([L, F])
        if rng.random() < 0.6:
            if expect_same(node, "after the switch", "__setitem__", rng.randrange(-len(mimic), len(mimic)), rng.choice(bo.VALS)):
                count("setitem-after-switch-live-node")
        else:
            expect_same(node, "after the switch", "append", rng.choice(bo.VALS))
    sim.compact(L)
    sim.compact(F)
    sim.run(4, among=[L, F])
    s_last = sim.last_index(S)
    # 4. S rejoins and is rebuilt from the snapshot (contents AND enabled version)
    sim.connect(S, L)
    sim.connect(S, F)
    sim.run(14)
    rebuilt = sim.P(S, "raftLog")[0][1] > s_last
    info["rebuilt_from_snapshot"] = rebuilt
    info["versions_after_rejoin"] = dict((i, sim.objs[i].getCodeVersion()) for i in sim.voters)
    if sim.leader() is None:
        sim.elect()
    order = [S, L, F, S]
    for node in order:
        where = "node %s%s, version %r enabled" % (node, " REBUILT from a snapshot taken after setCodeVersion(1)" if node == S and rebuilt else "",
                                                    sim.objs[node].getCodeVersion())
        if expect_same(node, where, "__setitem__", rng.randrange(-len(mimic), len(mimic)), rng.choice(bo.VALS)) and node == S and rebuilt:
            count("setitem-on-node-rebuilt-from-snapshot-after-switch")
        elif node == S and rebuilt:
            count("setitem-on-node-rebuilt-from-snapshot-after-switch")
    expect_same(S, "after rejoin", "__setitem__", len(mimic), 1)       # IndexError like the list, on every replica
    sim.run(6)
    for i in sim.voters:
        have = list(sim.objs[i].bat["list"].rawData())
        if have != mimic and not viols:
            viols.append({"signature": "batteries.ReplList:replica-contents-differ-from-builtin",
                          "what": "replica %s holds %r; list given the same operations holds %r" % (i, have, mimic)})
        if sim.objs[i].getCodeVersion() != 1 and not viols:
            viols.append({"signature": "batteries.cluster:code-version-not-restored",
                          "what": "replica %s reports getCodeVersion()=%r after the cluster switched to 1" % (i, sim.objs[i].getCodeVersion())})
    for v in viols:
        v["replay"] = {"kind": "version", "sub": sub}
    return viols, info, cov


def one(repo, seed, sub, n_ops, maxsize, mixed=False):
    import random
    rng = random.Random("%d/%d/cluster" % (seed, sub))
    r, info = scenario(repo, seed * 1000 + sub, rng, n_ops, maxsize, mixed)
    if r is None:
        return [], info, 0, []
    sim, ops, results = r
    viols, n_cb, contents = evaluate(sim, ops, results, maxsize, mixed)
    info["domain"] = "mixed" if mixed else "int"
    for v in viols:
        v["replay"] = {"sub": sub, "n_ops": n_ops, "maxsize": maxsize, "mixed": mixed}
    info["callbacks"] = n_cb
    return viols, info, n_cb, ops


def run(ctx):
    t0 = time.time()
    n_sched = ctx.scale(40, 1500)
    viols, samples, cov = [], [], {"schedules": 0, "mixed_domain_schedules": 0, "snapshot_installs": 0, "callbacks_compared": 0,
                                   "ops": {}}
    distinct = set()
    for sub in range(n_sched):
        maxsize = [0, 2, 3, 5][sub % 4]
        n_ops = ctx.scale(90, 150)
        mixed = sub % 2 == 1
        v, info, n_cb, ops = one(ctx.repo, ctx.seed, sub, n_ops, maxsize, mixed)
        cov["schedules"] += 1
        cov["mixed_domain_schedules"] += 1 if mixed else 0
        cov["snapshot_installs"] += 1 if info.get("snapshot_installed") else 0
        for gk, gv in info.get("argument_forms", {}).items():
            cov.setdefault("argument_forms", {})
            cov["argument_forms"][gk] = cov["argument_forms"].get(gk, 0) + gv
        cov["callbacks_compared"] += n_cb
        for cls, op in ops:
            k = ("mixed:%s.%s/%d" % (cls, op[0], len(op) - 1)) if mixed else "%s.%s" % (cls, bo.shape(op))
            cov["ops"][k] = cov["ops"].get(k, 0) + 1
        distinct.add(hashlib.sha1(json.dumps(ops).encode()).hexdigest())
        if len(samples) < 3:
            samples.append(info)
        for x in v:
            if not any(y["signature"] == x["signature"] for y in viols):
                viols.append(x)
        if time.time() - t0 > ctx.budget_s * 0.6:
            break
    cov["code_version"] = {"schedules": 0}
    for sub in range(ctx.scale(8, 150)):
        v, info, vc = version_scenario(ctx.repo, ctx.seed, sub)
        cov["code_version"]["schedules"] += 1
        cov["schedules"] += 1
        for k_, n_ in vc.items():
            cov["code_version"][k_] = cov["code_version"].get(k_, 0) + n_
        distinct.add("version/%d/%d" % (ctx.seed, sub))
        if sub == 0:
            samples.append(info)
        for x in v:
            if not any(y["signature"] == x["signature"] for y in viols):
                viols.append(x)
    res = {"cases": cov["schedules"], "distinct": len(distinct), "coverage": cov, "samples": samples,
           "disagreements": [], "violations": viols[:5], "wall_s": round(time.time() - t0, 2),
           "notes": "private attributes read: _SyncObj__raftLog (via sim.P) and those of corr.batteries_ops"}
    forms = cov.get("argument_forms", {})
    need = ["form:omitted", "form:positional", "form:keyword", "keyword-then-same-method-without-it",
            "keyword-then-method-lacking-the-keyword", "keyword-then-other-battery", "set.pop:only-unordered-members",
            "raises:any:TypeError", "raises:any:AssertionError", "raises:any:KeyError", "raises:any:IndexError", "raises:any:ValueError",
            "raises:list.sort:TypeError", "raises:dict.set:TypeError", "raises:set.add:TypeError", "raises:counter.add:TypeError",
            "raises:pq.put:TypeError"]
    if cov["snapshot_installs"] == 0 and not viols:
        res["inconclusive"] = "no schedule made the straggler install a snapshot"
    elif not viols and [f for f in ("setitem-before-switch", "setitem-after-switch-live-node",
                                    "setitem-on-node-rebuilt-from-snapshot-after-switch") if not cov["code_version"].get(f)]:
        res["inconclusive"] = "coverage floor missed (code version schedules): %r" % (cov["code_version"],)
    elif [f for f in need if not forms.get(f)] and not viols:
        res["inconclusive"] = "coverage floor missed: " + ", ".join(f for f in need if not forms.get(f))
    return res


def replay(ctx, violation):
    r = violation.get("replay", {})
    if r.get("kind") == "version":
        v, info, vc = version_scenario(ctx.repo, ctx.seed, r.get("sub", 0))
        return {"violated": any(x["signature"] == violation["signature"] for x in v), "violations": v, "info": info}
    v, info, n_cb, ops = one(ctx.repo, ctx.seed, r.get("sub", 0), r.get("n_ops", 60), r.get("maxsize", 0), r.get("mixed", False))
    return {"violated": any(x["signature"] == violation["signature"] for x in v), "violations": v, "info": info}
