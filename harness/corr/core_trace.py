"""Core trace validation: REAL SyncObj clusters (harness/sim.py) against the abstract Raft protocol model
`PSO.Raft.step` (lean/PSO/Model/Raft.lean, executed by `driver core`).

After EVERY real event (tick of one node, delivery of the head of one channel, cut / notice / connect,
submission, forced compaction) the effects the real handler just produced (journal add / deleteEntriesFrom /
clear / deleteEntriesTo / setRaftCommitIndex, transport sends, state changes, applies -- recorded in their
real order by wrapping instance attributes from the harness, no repo change) are translated into a
sequence of model actions.  Every action must be enabled (`{"ok":true}`) and afterwards the abstract state
of every real node (term, votedFor, role, votes, FULL log as (term, command id) with the compacted prefix
re-attached, commit-1, applied-1, matchIndex) must equal the model state, and the number of model messages
must equal the number of real in-flight messages that have a model counterpart.

In the same pass the property monitors of harness/monitors.py run on the real cluster after every event;
what they find is returned as `violations` (true failures of the property statements C01..C04 on the real
code, with a replayable, shrunk schedule).

Mapping real -> model (positions = real index - 1):
  tick      election start                        timeout n dsts      (dsts: request_vote actually enqueued)
            leader commit advance                 advanceCommit n pos
            leader fallback                       stepDown n
            each applied entry                    apply n
            each entry appended by the queue drain clientAppend n cmd (the no-op of __onBecomeLeader is part of
                                                  becomeLeader inside timeout / recvVote)
  send      regular append_entries                sendAppend n dst prev k
            chunked entry                         ONE sendAppend n dst prev 1 when the `finish` chunk is sent
            snapshot burst                        sendSnapshot n dst k when the isLast chunk is sent
            prevLogIdx None / serialized None     no model message
  deliver   request_vote / response_vote          recvReqVote / recvVote
            regular or `finish` append_entries    recvAppend (below the receiver's compaction horizon, where the
                                                  real code answers `reset` although the ghost-complete model
                                                  log still holds `prev`: observeTerm + lose)
            start/process chunk, non-final snapshot chunk, serialized None, prevLogIdx None
                                                  observeTerm n t when t >= own term, else nothing
            last snapshot chunk                   recvSnapshot
            next_node_idx success=True            recvAck (idx = next_node_idx - 2); success=False: nothing
            apply_command(_response)              nothing
  message that the transport drops (connection cut, send on a dead or unknown connection): lose
"""
import collections
import gzip
import hashlib
import json
import multiprocessing
import os
import pickle
import shutil
import tempfile
import time

from harness import checklib
from harness import monitors
from harness.sim import Sim

PROPERTIES = ["C01", "C02", "C03", "C04", "C06", "C07", "C18"]
ORDER = 40

CORPUS = os.path.join(checklib.VERIF, "corpus", "core_trace")
NOOP = b"\x01"
FOLLOWER, CANDIDATE, LEADER = 0, 1, 2
LOOP_BUDGET = 3000
# journal + dump restarts need `sendAppend`/`sendSnapshot` with an explicit commit value (after such a restart
# the real commit index lags behind the applied index and that lower value travels in the messages)
ENABLE_DUMP_RESTART = True


class Stop(Exception):
    pass


# ------------------------------------------------------------------------------------------------
# the tracer: real cluster + effect recording + translation
# ------------------------------------------------------------------------------------------------
class Tracer(object):
    def __init__(self, repo, voters, conf, seed, with_monitors=True, observers=(), journal=None):
        """journal: None (memory journal) | "journal" (file journal) | "dump" (file journal + dump file)"""
        self.repo = repo
        self.voters = list(voters)
        self.observers = list(observers)
        self.all = self.voters + self.observers
        self.N = len(self.voters)
        self.M = len(self.all)
        self.ix = dict((v, k) for k, v in enumerate(self.all))
        self.conf = dict(conf or {})
        self.seed = seed
        self.journal = journal
        self.tmpdir = None
        simconf = dict(self.conf)
        if journal:
            self.tmpdir = tempfile.mkdtemp(prefix="pso-verif-core-")
            simconf["useFork"] = False          # dumps are written synchronously, no fork inside the harness
        self.sim = Sim(repo, self.voters, observers=self.observers, conf=simconf, seed=seed,
                       journal_dir=self.tmpdir, dump=(journal == "dump"))
        self.Node = self.sim.Node
        self.effects = []
        self.cmdid = {NOOP: 0}
        self.ghost = dict((v, []) for v in self.all)         # abstract entries dropped by compaction
        self._in_delto = set()
        self.votes_given = {}                                # (voter, term) -> candidate (across restarts, C07)
        self.snapreg = {}                                    # snapshot blob -> creator's abstract log up to its index
        self.tags = {}                                       # id(msg) -> (msg, model message | None)
        self.chunkbuf = {}
        self.snapbuf = {}
        self.inflight_tagged = 0
        self.events = []                                     # executed events (the schedule)
        self.lines = ['{"N":%d,"M":%d}' % (self.N, self.M)]  # driver input
        self.line_ev = [-1]                                  # event number of every line
        self.expect = {}                                     # line number -> (expected states, nmsgs)
        self.cov = collections.Counter()
        self.flags = set()
        self.leaders_seen = []
        self.submits = 0
        self.with_monitors = with_monitors
        self.watch = monitors.CommitWatch(self.sim)
        self.stepmon = monitors.StepMonitors(self.sim)
        self._n_err = 0
        self.violations = []                                 # (event no, violation dict)
        self._viol_seen = set()
        self.internal = []                                   # harness-side inconsistencies (reported as disagreement)
        self._extra = []                                     # violations seen by the tracer's own monitors (C06/C07/C18)
        for v in self.all:
            self._hook(v)
        base_apply = self.sim.so.SyncObj._SyncObj__doApplyCommand

        def do_apply(obj, command):
            self.effects.append(("apply", obj._nid))
            return base_apply(obj, command)
        self.sim.Obj._SyncObj__doApplyCommand = do_apply
        # loop budget: the simulator's clock stands still inside a handler, but the send loop of
        # __sendAppendEntries and the queue drain are only bounded by wall-clock time; after LOOP_BUDGET
        # clock reads inside ONE event the executing node's clock moves on by 0.25 s (= the handler took
        # that long), which is what ends such a loop on a real machine.
        orig_mono = self.sim.so.monotonicTime
        self.mono_calls = 0

        def mono():
            self.mono_calls += 1
            if self.mono_calls > LOOP_BUDGET and self.sim.cur is not None:
                self.mono_calls = 0
                self.sim.now[self.sim.cur] += 0.25
                self.cov["real:loop-budget-exhausted"] += 1
            return orig_mono()
        self.sim.so.monotonicTime = mono
        self.sim.tr.monotonicTime = mono
        orig_send = self.sim._send

        def send(a, b, msg, orig_send=orig_send):
            up = (a, b) in self.sim.up
            alive = frozenset((a, b)) in self.sim.alive
            r = orig_send(a, b, msg)
            self.effects.append(("send", a, b, msg, up, alive))
            return r
        self.sim._send = send

    # -- instrumentation (instance attributes only) ------------------------------------------------
    def _hook(self, v):
        o = self.sim.objs[v]
        eff = self.effects_append
        j = o._SyncObj__raftLog
        o_add, o_from, o_to, o_clear, o_sci = j.add, j.deleteEntriesFrom, j.deleteEntriesTo, j.clear, j.setRaftCommitIndex

        def add(command, idx, term):
            if v not in self._in_delto:
                eff(("add", v, command, idx, term))
            return o_add(command, idx, term)

        def delete_from(n):
            eff(("delFrom", v, n, len(j)))
            return o_from(n)

        def delete_to(n):
            dropped = j[:n]
            self.ghost[v].extend(self.abs_entry(e) for e in dropped)
            eff(("delTo", v, n))
            self._in_delto.add(v)            # FileJournal.deleteEntriesTo = self.clear() + self.add(...) of the rest
            try:
                return o_to(n)
            finally:
                self._in_delto.discard(v)

        def clear():
            if v not in self._in_delto:
                eff(("clear", v))
            return o_clear()

        def set_commit(c):
            eff(("commit", v, c))
            return o_sci(c)
        j.add, j.deleteEntriesFrom, j.deleteEntriesTo, j.clear, j.setRaftCommitIndex = add, delete_from, delete_to, clear, set_commit

        conf = o._SyncObj__conf
        o_state = conf.onStateChanged

        def on_state(old, new):
            eff(("state", v, old, new))
            if o_state is not None:
                o_state(old, new)
        conf.onStateChanged = on_state

        # (the apply hook is a class attribute of the per-simulation subclass, see __init__: an instance
        #  attribute would become part of the serialized user state)

        ser = o._SyncObj__serializer
        o_ser = ser.serialize

        def serialize(data, sid):
            r = o_ser(data, sid)
            blob = self.blob_of(v)
            k_idx = data[1][1]
            full = self.full_log(v)
            if blob is not None and blob not in self.snapreg:
                self.snapreg[blob] = full[:k_idx]
            eff(("serialize", v, k_idx))
            return r
        ser.serialize = serialize

    def effects_append(self, e):
        self.effects.append(e)

    def blob_of(self, v):
        """The serialized snapshot node v currently holds (what it would transmit)."""
        o = self.sim.objs[v]
        fn = o._SyncObj__conf.fullDumpFile
        if fn is None:
            return o._SyncObj__serializer._Serializer__inMemorySerializedData
        try:
            with open(fn, "rb") as f:
                return f.read()
        except IOError:
            return None

    def close(self):
        if self.tmpdir:
            for o in list(self.sim.objs.values()) + list(getattr(self.sim, "dead", {}).values()):
                try:
                    o._SyncObj__raftLog._destroy()
                except Exception:
                    pass
            shutil.rmtree(self.tmpdir, ignore_errors=True)
            self.tmpdir = None

    # -- abstraction -------------------------------------------------------------------------------
    def cid(self, command):
        c = self.cmdid.get(command)
        if c is None:
            c = self.cmdid[command] = len(self.cmdid)
        return c

    def abs_entry(self, e):
        return [e[2], self.cid(e[0])]

    def full_log(self, v):
        j = self.sim.objs[v]._SyncObj__raftLog
        return self.ghost[v] + [self.abs_entry(e) for e in j[:]]

    def P(self, v, name):
        return getattr(self.sim.objs[v], "_SyncObj__" + name)

    def abstract(self, v):
        o = self.sim.objs[v]
        j = o._SyncObj__raftLog
        first = j[0][1]
        if first != len(self.ghost[v]) + 1:
            self.internal.append("node %s: journal starts at index %d but %d entries are recorded as compacted"
                                 % (v, first, len(self.ghost[v])))
        voted = o._SyncObj__votedForNodeId
        mi = o._SyncObj__raftMatchIndex
        return {"term": o.raftCurrentTerm,
                "voted": None if voted is None else self.ix[voted],
                "role": o._SyncObj__raftState,
                "votes": o._SyncObj__votesCount,
                "log": self.full_log(v),
                # after a restart the stored commit index may lag behind the position of the loaded dump
                "commit": max(o.raftCommitIndex, o.raftLastApplied) - 1,
                "applied": o.raftLastApplied - 1,
                "match": [max(mi.get(self.Node(w), 0) - 1, 0) for w in self.all]}

    # -- driver lines ------------------------------------------------------------------------------
    def act(self, a):
        self.lines.append(json.dumps(a, separators=(",", ":")))
        self.line_ev.append(len(self.events) - 1)
        self.cov["act:" + a["a"]] += 1

    def lose(self, tag):
        if tag is not None:
            self.act({"a": "lose", "m": tag})

    # -- message tagging ---------------------------------------------------------------------------
    def _register(self, msg, tag, up, alive):
        """A message handed to the transport: returns False when the transport dropped it at once."""
        if up and alive:
            self.tags[id(msg)] = (msg, tag)
            if tag is not None:
                self.inflight_tagged += 1
            return True
        return False

    def _untag(self, msg):
        ent = self.tags.pop(id(msg), None)
        if ent is None:
            return None
        if ent[1] is not None:
            self.inflight_tagged -= 1
        return ent[1]

    def _send_effect(self, ef, ctx):
        """Translate one message handed to the transport."""
        _, a, b, msg, up, alive = ef
        ia, ib = self.ix[a], self.ix[b]
        t = msg["type"]
        self.cov["sent:" + t] += 1
        if a in self.observers and t in ("request_vote", "response_vote"):
            self._extra.append({"signature": "observer:takes-part-in-election",
                                "what": "read-only node %s sent %s" % (a, t)})
            return
        if t == "request_vote":
            tag = {"k": "reqVote", "t": msg["term"], "cand": ia, "dst": ib,
                   "li": msg["last_log_index"] - 1, "lt": msg["last_log_term"]}
            # the model created it inside `timeout` (dsts = sends with an open connection)
            if up and not self._register(msg, tag, up, alive):
                self.lose(tag)
            return
        if t == "response_vote":
            prev = self.votes_given.setdefault((a, msg["term"]), b)
            if prev != b:
                self._extra.append({"signature": "restart:vote-granted-twice-in-term" if self.sim.generation[a] > 1
                                    else "election:vote-granted-twice-in-term",
                                    "what": "voter %s granted its vote in term %d to %s and to %s" % (a, msg["term"], prev, b)})
            tag = {"k": "vote", "t": msg["term"], "voter": ia, "cand": ib}
            if not self._register(msg, tag, up, alive):
                self.lose(tag)
            return
        if t == "next_node_idx":
            if msg["success"]:
                tag = {"k": "ack", "t": msg["term"], "flw": ia, "ldr": ib, "idx": msg["next_node_idx"] - 2}
                if not self._register(msg, tag, up, alive):
                    self.lose(tag)
            else:
                self._register(msg, None, up, alive)
            return
        if t != "append_entries":
            self._register(msg, None, up, alive)
            return
        # append_entries from a leader
        if not up:
            return           # the transport refused it: nothing was sent
        if "prevLogIdx" in msg:
            tr = msg.get("transmission")
            if tr is None:
                if msg["prevLogIdx"] is None:
                    self.cov["send:append-without-prev"] += 1
                    self._register(msg, None, up, alive)
                    return
                es = [self.abs_entry(e) for e in msg["entries"]]
                tag = {"k": "append", "t": msg["term"], "ldr": ia, "dst": ib, "prev": msg["prevLogIdx"] - 1,
                       "prevTerm": msg["prevLogTerm"], "es": es, "commit": msg["commit_index"] - 1}
                self.act({"a": "sendAppend", "n": ia, "dst": ib, "prev": msg["prevLogIdx"] - 1, "k": len(es),
                          "c": msg["commit_index"] - 1})
                self.cov["send:batch-%s" % ("0" if not es else "1" if len(es) == 1 else "n")] += 1
                if not self._register(msg, tag, up, alive):
                    self.lose(tag)
                return
            if tr == "start":
                self.chunkbuf[(a, b)] = [msg["data"]]
                self._register(msg, None, up, alive)
                return
            buf = self.chunkbuf.get((a, b))
            if buf is None:
                self.internal.append("chunk %r sent without start" % tr)
                buf = self.chunkbuf[(a, b)] = []
            buf.append(msg["data"])
            if tr == "process":
                self._register(msg, None, up, alive)
                return
            # finish
            data = b"".join(buf)
            self.chunkbuf.pop((a, b), None)
            try:
                entry = pickle.loads(data)
            except Exception as e:
                self.internal.append("chunked entry does not decode at the sender: %r" % (e,))
                self._register(msg, None, up, alive)
                return
            self.cov["send:chunked-entry"] += 1
            self.cov["send:chunks"] += len(buf)
            tag = {"k": "append", "t": msg["term"], "ldr": ia, "dst": ib, "prev": msg["prevLogIdx"] - 1,
                   "prevTerm": msg["prevLogTerm"], "es": [self.abs_entry(entry)], "commit": msg["commit_index"] - 1}
            self.act({"a": "sendAppend", "n": ia, "dst": ib, "prev": msg["prevLogIdx"] - 1, "k": 1,
                      "c": msg["commit_index"] - 1})
            if not self._register(msg, tag, up, alive):
                self.lose(tag)
            return
        td = msg.get("serialized")
        if td is None:
            self.cov["send:serialized-none"] += 1
            self._register(msg, None, up, alive)
            return
        data, is_first, is_last = td
        if is_first:
            self.snapbuf[(a, b)] = []
        buf = self.snapbuf.setdefault((a, b), [])
        buf.append(bytes(data))
        if not is_last:
            self._register(msg, None, up, alive)
            return
        blob = b"".join(buf)
        self.snapbuf.pop((a, b), None)
        self.cov["send:snapshot"] += 1
        self.cov["send:snapshot-chunks"] += len(buf)
        try:
            snap = pickle.loads(gzip.decompress(blob))
            k_idx, k_term = snap[1][1], snap[1][2]
        except Exception as e:
            self.internal.append("snapshot burst does not decode at the sender: %r" % (e,))
            self._register(msg, None, up, alive)
            return
        tag = {"k": "snapshot", "t": msg["term"], "ldr": ia, "dst": ib, "pos": k_idx - 1, "posTerm": k_term,
               "commit": msg["commit_index"] - 1}
        self.act({"a": "sendSnapshot", "n": ia, "dst": ib, "k": k_idx - 1, "c": msg["commit_index"] - 1})
        if not self._register(msg, tag, up, alive):
            self.lose(tag)

    # -- effects -> actions ------------------------------------------------------------------------
    def _translate(self, v, ctx, commit_pos, applied_idx=None):
        """Common part: the ordered effects of the handler that just ran at node v.
        commit_pos: abstract commit position (max(raftCommitIndex, raftLastApplied) - 1) before the handler,
        applied_idx: raftLastApplied before the handler's applies (tick context)."""
        i = self.ix[v]
        expect_noop = False
        for ef in self.effects:
            k = ef[0]
            if k == "send":
                self._send_effect(ef, ctx)
            elif k == "state":
                old, new = ef[2], ef[3]
                if v in self.observers and new != FOLLOWER:
                    self._extra.append({"signature": "observer:became-candidate-or-leader",
                                        "what": "read-only node %s changed state %s -> %s" % (v, old, new)})
                if new == LEADER:
                    expect_noop = True
                    self.cov["real:become-leader"] += 1
                    self.leaders_seen.append(v)
                elif old == LEADER and new == FOLLOWER and ctx == "tick":
                    self.act({"a": "stepDown", "n": i})
            elif k == "add":
                if ctx == "append":
                    continue           # follower side merge / snapshot install: part of recvAppend / recvSnapshot
                if expect_noop:
                    expect_noop = False
                    if ef[2] != NOOP:
                        self.internal.append("first entry after becoming leader is not the no-op")
                    continue
                self.act({"a": "clientAppend", "n": i, "cmd": self.cid(ef[2])})
            elif k == "commit":
                if ctx == "tick" and max(ef[2], applied_idx or 0) - 1 > commit_pos:
                    commit_pos = max(ef[2], applied_idx or 0) - 1
                    self.act({"a": "advanceCommit", "n": i, "i": commit_pos})
            elif k == "apply":
                self.act({"a": "apply", "n": i})
            elif k == "delFrom":
                if ef[2] < ef[3]:
                    self.cov["real:truncate"] += 1
                    self.flags.add("truncation")
            elif k == "delTo":
                self.cov["real:compaction-trim"] += 1
            elif k == "serialize":
                self.cov["real:serialize"] += 1

    # -- events ------------------------------------------------------------------------------------
    def event(self, ev):
        """Execute one real event, emit its model actions, the state query and run the monitors.
        Returns False when the event was not applicable (nothing happened)."""
        sim = self.sim
        kind = ev[0]
        self.effects[:] = []
        self.mono_calls = 0
        if kind == "deliver":
            q = sim.chan[(ev[1], ev[2])]
            if not q:
                return False
        self.events.append(list(ev))
        self.cov["ev:" + kind] += 1
        if kind == "tick":
            v = ev[1]
            o = sim.objs[v]
            pre_term, pre_commit = o.raftCurrentTerm, max(o.raftCommitIndex, o.raftLastApplied) - 1
            pre_applied = o.raftLastApplied
            sim.tick(v, ev[2])
            if o.raftCurrentTerm > pre_term:
                dsts = [self.ix[e[2]] for e in self.effects
                        if e[0] == "send" and e[3]["type"] == "request_vote" and e[4]]
                self.act({"a": "timeout", "n": self.ix[v], "dsts": dsts})
            self._translate(v, "tick", pre_commit, pre_applied)
            if o._SyncObj__raftState == LEADER or any(e[0] == "state" and e[2] == LEADER for e in self.effects):
                self._commit_rule_coverage(v, pre_commit)
        elif kind == "deliver":
            self._deliver(ev[1], ev[2])
        elif kind in ("cut", "notice", "connect"):
            a, b = ev[1], ev[2]
            before = list(sim.chan[(a, b)]) + list(sim.chan[(b, a)])
            getattr(sim, kind)(a, b)
            left = set(id(m) for m in list(sim.chan[(a, b)]) + list(sim.chan[(b, a)]))
            for m in before:
                if id(m) not in left:
                    self.cov["real:message-lost-in-flight"] += 1
                    self.lose(self._untag(m))
            self._translate(a, "net", None)
        elif kind == "submit":
            v = ev[1]
            self.submits += 1
            if v in self.observers:
                self.cov["observer:submit"] += 1
            sim.submit(v, ev[2], ev[3] if len(ev) > 3 else "add")
            self._translate(v, "submit", None)
        elif kind == "compact":
            sim.compact(ev[1])
        elif kind == "restart":
            if not self.journal:
                raise ValueError("restart of a node without journal is not part of any property")
            self._restart(ev[1])
        else:
            raise ValueError("unknown event %r" % (ev,))
        self.lines.append('{"q":"state"}')
        self.line_ev.append(len(self.events) - 1)
        self.expect[len(self.lines) - 1] = ([self.abstract(v) for v in self.all], self.inflight_tagged, self.N)
        if self.with_monitors:
            self._monitors()
        return True

    def _restart(self, v):
        """kill -9 + start + first tick of a journaled node = ONE model step `restart n c a`:
        term, vote and log come back from the journal (+ .meta), the applied position from the dump file
        (loaded by the first tick), the commit index from the .meta file (stored once a second)."""
        sim = self.sim
        i = self.ix[v]
        before_log = self.full_log(v)
        before_term = sim.objs[v].raftCurrentTerm
        lost = []
        for w in self.all:
            if w != v:
                lost += list(sim.chan[(v, w)]) + list(sim.chan[(w, v)])
        sim.kill(v)
        for m in lost:
            self.cov["real:message-lost-in-flight"] += 1
            self.lose(self._untag(m))
        self.chunkbuf = dict((k, b) for k, b in self.chunkbuf.items() if v not in k)
        self.snapbuf = dict((k, b) for k, b in self.snapbuf.items() if v not in k)
        sim.restart(v)
        self._hook(v)
        o = sim.objs[v]
        self.effects[:] = []
        stored_commit = o.raftCommitIndex
        sim.tick(v, 0.0)
        n_apply = len([e for e in self.effects if e[0] == "apply"])
        loaded = o.raftLastApplied - n_apply            # position of the dump file (1 without one)
        self.cov["restart:%s" % ("dump-loaded" if loaded > 1 else "from-journal-start")] += 1
        self.act({"a": "restart", "n": i, "c": max(stored_commit, loaded) - 1, "ap": loaded - 1})
        self.flags.add("restart")
        # C06 / C07 statements on the real node (kill between two simulator steps)
        after_log = self.full_log(v)
        if after_log[:len(before_log)] != before_log:
            k = 0
            while k < len(after_log) and k < len(before_log) and after_log[k] == before_log[k]:
                k += 1
            self._extra.append({"signature": "restart:journal-lost-entries",
                                "what": "node %s held %d entries before the kill, after the restart its log differs from position %d (length %d)"
                                        % (v, len(before_log), k, len(after_log))})
        if o.raftCurrentTerm < before_term:
            self._extra.append({"signature": "restart:term-moved-backwards",
                                "what": "node %s had term %d before the kill and %d after the restart" % (v, before_term, o.raftCurrentTerm)})
        self._translate(v, "tick", max(stored_commit, loaded) - 1, loaded)

    def _commit_rule_coverage(self, v, pre_commit):
        """Which side of the leader's commit rule this tick was on (evaluated on the real attributes)."""
        o = self.sim.objs[v]
        if max(o.raftCommitIndex, o.raftLastApplied) - 1 > pre_commit:
            self.cov["commit:advanced"] += 1
            return
        mi = o._SyncObj__raftMatchIndex
        j = o._SyncObj__raftLog
        term = o.raftCurrentTerm
        blocked_old = False
        for e in j[:]:
            if e[1] <= o.raftCommitIndex:
                continue
            cnt = 1 + len([w for w in self.voters if w != v and mi.get(self.Node(w), 0) >= e[1]])
            if 2 * cnt <= self.N:
                break
            if e[2] != term:
                blocked_old = True
        if blocked_old:
            self.cov["commit:majority-holds-old-term-entry-only"] += 1
            self.flags.add("old-term-skip")
        elif j[-1][1] > o.raftCommitIndex:
            self.cov["commit:no-majority-yet"] += 1

    def _deliver(self, a, b):
        sim = self.sim
        msg = sim.chan[(a, b)][0]
        tag = self._untag(msg)
        o = sim.objs[b]
        ib = self.ix[b]
        pre_term, pre_role = o.raftCurrentTerm, o._SyncObj__raftState
        pre_first = o._SyncObj__raftLog[0][1]
        pre_applied = o.raftLastApplied
        t = msg["type"]
        self.cov["deliver:" + t] += 1
        sim.deliver(a, b)
        ctx = "deliver"
        if t == "request_vote":
            self.act({"a": "recvReqVote", "n": ib, "m": tag})
            granted = any(e[0] == "send" and e[3]["type"] == "response_vote" for e in self.effects)
            self.cov["vote:granted" if granted else "vote:denied"] += 1
        elif t == "response_vote":
            self.act({"a": "recvVote", "n": ib, "m": tag})
            self.cov["voteReply:%s" % ("counted" if pre_role == CANDIDATE and msg["term"] == pre_term else "ignored")] += 1
        elif t == "next_node_idx":
            if tag is not None:
                self.act({"a": "recvAck", "n": ib, "m": tag})
                if pre_role != LEADER:
                    self.cov["ack:ignored-not-leader"] += 1
                elif msg.get("term") != pre_term:
                    self.cov["ack:ignored-other-term"] += 1
                    self.flags.add("stale-ack")
                else:
                    self.cov["ack:current-term"] += 1
                    if a in self.observers:
                        self.cov["observer:ack-at-leader"] += 1
            else:
                self.cov["ack:failure-reply"] += 1
        elif t == "append_entries":
            ctx = "append"
            stale = msg["term"] < pre_term
            if "prevLogIdx" in msg:
                tr = msg.get("transmission")
                final = tr in (None, "finish") and msg["prevLogIdx"] is not None
            else:
                td = msg.get("serialized")
                final = td is not None and td[2]
            if stale:
                self.cov["append:stale-term"] += 1
            if final and tag is not None:
                if tag["k"] == "snapshot":
                    self.act({"a": "recvSnapshot", "n": ib, "m": tag})
                    if not stale:
                        installed = any(e[0] == "clear" for e in self.effects)
                        replied = any(e[0] == "send" and e[3]["type"] == "next_node_idx" and e[3]["success"]
                                      for e in self.effects)
                        if installed:
                            self.cov["snapshot:installed"] += 1
                            if b in self.observers:
                                self.cov["observer:snapshot-installed"] += 1
                            self.flags.add("snapshot-installed")
                            blob = self.blob_of(b)
                            full = self.snapreg.get(blob)
                            if full is None:
                                self.internal.append("installed snapshot has no registered creator")
                            else:
                                self.ghost[b] = [list(e) for e in full[:max(tag["pos"] - 1, 0)]]
                        elif replied:
                            self.cov["snapshot:kept"] += 1
                            self.flags.add("snapshot-kept")
                            self.cov["snapshot:kept-%s" % ("applied" if tag["pos"] + 1 <= pre_applied else "held")] += 1
                        else:
                            self.cov["snapshot:load-failed"] += 1
                elif (not stale) and msg["prevLogIdx"] < pre_first:
                    # below the compaction horizon: the code cannot look at `prev` any more and answers `reset`
                    self.cov["append:below-horizon"] += 1
                    self.act({"a": "observeTerm", "n": ib, "t": msg["term"]})
                    self.lose(tag)
                else:
                    self.act({"a": "recvAppend", "n": ib, "m": tag})
                    if not stale:
                        ok = any(e[0] == "send" and e[3]["type"] == "next_node_idx" and e[3]["success"]
                                 for e in self.effects)
                        self.cov["append:%s" % ("accepted" if ok else "prev-mismatch")] += 1
                        if ok and b in self.observers:
                            self.cov["observer:append-accepted"] += 1
                        if ok and msg.get("transmission") == "finish":
                            self.cov["append:chunked-entry-accepted"] += 1
                            self.flags.add("chunked")
            else:
                if final and tag is None:
                    self.internal.append("final append_entries without model message")
                if not stale:
                    self.cov["append:non-final"] += 1
                    self.act({"a": "observeTerm", "n": ib, "t": msg["term"]})
        else:
            self.cov["deliver:other"] += 1
        self._translate(b, ctx, None)

    # -- monitors ------------------------------------------------------------------------------------
    def _monitors(self):
        sim = self.sim
        found = list(self.watch.step())
        del self.watch.out[:]
        found += self.stepmon.step()
        found += self._extra
        self._extra = []
        if len(sim.errors) > self._n_err:
            found += monitors.errors(sim)
            self._n_err = len(sim.errors)
        for v in found:
            key = v["signature"]
            if key not in self._viol_seen:
                self._viol_seen.add(key)
                self.violations.append((len(self.events) - 1, dict(v)))

    def finish(self):
        """End of trace: the full (non-incremental) monitors once more."""
        if not self.with_monitors:
            self.close()
            return
        sim = self.sim
        found = (monitors.sm_safety(sim) + monitors.sm_state(sim) + monitors.leaders_per_term(sim)
                 + monitors.callbacks_contract(sim, final=True) + monitors.errors(sim))
        for v in found:
            key = v["signature"]
            if key not in self._viol_seen:
                self._viol_seen.add(key)
                self.violations.append((len(self.events) - 1, dict(v)))
        if len(set(self.leaders_seen)) > 1 or len(self.leaders_seen) > 1:
            self.flags.add("leader-change")
        self.close()


# ------------------------------------------------------------------------------------------------
# model side: run the driver on the lines of one trace and compare
# ------------------------------------------------------------------------------------------------
def diff_nodes(exp, got, N=None):
    out = []
    N = len(exp) if N is None else N
    for i, (e, g) in enumerate(zip(exp, got)):
        for f in ("term", "voted", "role", "commit", "applied"):
            if e[f] != g[f]:
                out.append({"node": i, "field": f, "impl": e[f], "model": g[f]})
        if e["role"] == CANDIDATE and e["votes"] != g["votes"]:
            out.append({"node": i, "field": "votes", "impl": e["votes"], "model": g["votes"]})
        if e["log"] != g["log"]:
            k = 0
            while k < len(e["log"]) and k < len(g["log"]) and e["log"][k] == g["log"][k]:
                k += 1
            out.append({"node": i, "field": "log", "first_difference_at": k, "impl_len": len(e["log"]),
                        "model_len": len(g["log"]), "impl": e["log"][k:k + 4], "model": g["log"][k:k + 4]})
        if e["role"] == LEADER:
            for j in range(N):         # (an observer's matchIndex is dropped when it disconnects; no guard reads it)
                if j != i and e["match"][j] != g["match"][j]:
                    out.append({"node": i, "field": "match[%d]" % j, "impl": e["match"][j], "model": g["match"][j]})
    if len(exp) != len(got):
        out.append({"field": "node-count", "impl": len(exp), "model": len(got)})
    return out


def brief_state(nodes):
    return [{"term": n["term"], "voted": n["voted"], "role": n["role"], "votes": n["votes"], "commit": n["commit"],
             "applied": n["applied"], "log_len": len(n["log"]), "log_tail": n["log"][-4:], "match": n["match"]}
            for n in nodes]


def verify_many(trs):
    """One driver process for several traces (every trace starts with its {"N":..} line)."""
    lines = []
    for tr in trs:
        lines.extend(tr.lines)
    out = checklib.run_driver("core", lines) if lines else []
    res = []
    k = 0
    for tr in trs:
        res.append(verify(tr, out[k:k + len(tr.lines)]))
        k += len(tr.lines)
    return res


def verify(tr, out=None):
    """None when every action was enabled and every state agreed; else the first mismatch."""
    if out is None:
        out = checklib.run_driver("core", tr.lines)
    if len(out) != len(tr.lines):
        return {"kind": "driver", "class": "driver:line-count", "note": "driver returned %d lines for %d" % (len(out), len(tr.lines))}
    last_state = None
    for ln in range(len(tr.lines)):
        rep = out[ln]
        evno = tr.line_ev[ln]
        if ln in tr.expect:
            exp, nm, nv = tr.expect[ln]
            got = json.loads(rep)
            d = diff_nodes(exp, got["nodes"], nv)
            if got["nmsgs"] != nm:
                d.append({"field": "messages-in-flight", "impl": nm, "model": got["nmsgs"]})
            if d:
                k = ln - 1
                acts = []
                while k > 0 and tr.line_ev[k] == evno:
                    acts.insert(0, json.loads(tr.lines[k]))
                    k -= 1
                return {"kind": "state", "class": "state:" + d[0]["field"].split("[")[0], "event_no": evno,
                        "event": tr.events[evno], "actions": acts, "diff": d[:6],
                        "impl_state": brief_state(exp), "model_state": brief_state(got["nodes"])}
            last_state = got["nodes"]
        elif rep != '{"ok":true}':
            a = json.loads(tr.lines[ln])
            why = json.loads(rep).get("why", rep)
            return {"kind": "guard" if why == "guard" else "driver", "class": "%s:%s" % (why.split(":")[0], a.get("a", "?")),
                    "event_no": evno, "event": tr.events[evno] if evno >= 0 else None, "action": a, "why": why,
                    "model_state_before_event": brief_state(last_state) if last_state else None}
    return None


# ------------------------------------------------------------------------------------------------
# schedules
# ------------------------------------------------------------------------------------------------
def spec_of(tr):
    return {"voters": tr.voters, "observers": tr.observers, "journal": tr.journal, "conf": tr.conf, "seed": tr.seed,
            "events": tr.events}


def run_schedule(repo, spec, with_monitors=True, events=None):
    """Replay a stored schedule (events that are not applicable any more are skipped)."""
    tr = Tracer(repo, spec["voters"], spec["conf"], spec["seed"], with_monitors=with_monitors,
                observers=spec.get("observers") or (), journal=spec.get("journal"))
    try:
        for ev in (events if events is not None else spec["events"]):
            if ev[0] == "submit":
                ev = ev[:4]
            if ev[0] in ("tick", "compact", "submit", "restart") and ev[1] not in tr.ix:
                continue
            tr.event(ev)
    finally:
        tr.finish()
    return tr


def draw_conf(rng):
    B = rng.choice([64, 80, 128, 300, 2 ** 16])
    return {"appendEntriesUseBatch": rng.random() < 0.6,
            "appendEntriesBatchSizeBytes": B,
            "logCompactionBatchSize": rng.choice([16, 40, 2 ** 16]),
            "leaderFallbackTimeout": rng.choice([30.0, 30.0, 1.0, 0.5]),
            "commandsWaitLeader": rng.random() < 0.5,
            "commandsQueueSize": rng.choice([100000, 100000, 100000, 3])}


ENTRY_OVERHEAD_MAX = 62      # len(pickle.dumps((command, idx, term))) - len(command), measured 57..61


class Director(object):
    """Builds schedules on a live Tracer out of legal events only."""

    def __init__(self, tr, rng):
        self.tr = tr
        self.sim = tr.sim
        self.rng = rng
        self.V = tr.voters
        self.A = tr.all
        self.variant = 0
        self.B = tr.conf.get("appendEntriesBatchSizeBytes", 2 ** 16)
        self.seq = 0
        self.held = set()          # channels that are not delivered for now
        o = self.sim.objs[self.V[0]]
        self._fid = o._methodToID[o._getFuncName("add")]

    def ev(self, *e):
        return self.tr.event(list(e))

    # commands ------------------------------------------------------------------------------------
    def _cmd_len(self, x):
        so = self.sim.so
        return len(so._bchr(0) + so.pickle.dumps((self._fid, (x,))))

    def payload(self, cls):
        """tiny / mid (several per batch) / big (>= batch size: sent in start/process/finish chunks; the
        size is chosen outside the band where the pinned code computes `finish` too early, defect D7/C11)."""
        self.seq += 1
        x = "c%d_" % self.seq
        B = self.B
        if cls == "mid" and B < 2 ** 16:
            want = max(22, B // 3 + self.rng.randrange(0, max(B // 3, 1)))
            want = min(want, B - 1)
        elif cls == "big" and B < 2 ** 16:
            m = self.rng.choice([1, 1, 2, 3])
            want = m * B + 1 + self.rng.randrange(0, B - ENTRY_OVERHEAD_MAX + 1)
        else:
            return x + "x" * self.rng.randrange(0, 6)
        x = x + "x" * max(0, want - self._cmd_len(x))
        n = self._cmd_len(x)
        if n >= B and (n - 1) % B > B - ENTRY_OVERHEAD_MAX:
            return "c%d_" % self.seq
        return x

    def submit(self, v, cls="tiny"):
        return self.ev("submit", v, self.payload(cls), "add")

    # helpers -------------------------------------------------------------------------------------
    def leader(self, among=None):
        ls = [v for v in (among or self.V) if v in self.V and self.sim.objs[v]._isLeader()]
        return ls[0] if len(ls) == 1 else None

    def channels(self, among=None):
        return [(a, b) for (a, b) in sorted(self.sim.chan) if self.sim.chan[(a, b)] and (a, b) not in self.held
                and (among is None or (a in among and b in among))]

    def deliver_all(self, among=None, limit=400):
        n = 0
        while n < limit:
            ch = self.channels(among)
            if not ch:
                break
            for c in ch:
                while self.sim.chan[c] and n < limit:
                    self.ev("deliver", c[0], c[1])
                    n += 1
        return n

    def drain(self, a, b, limit=400):
        n = 0
        while self.sim.chan[(a, b)] and n < limit:
            self.ev("deliver", a, b)
            n += 1
        return n

    def run(self, steps, among=None, dt=0.0625):
        for _ in range(steps):
            for v in (among or self.A):
                self.ev("tick", v, dt)
            self.deliver_all(among)

    def elect(self, among=None, max_steps=300, dt=0.0625):
        for _ in range(max_steps):
            l = self.leader([v for v in among if v in self.V] if among else None)
            if l is not None:
                return l
            for v in (among or self.V):
                self.ev("tick", v, dt)
            self.deliver_all(among)
        return self.leader([v for v in among if v in self.V] if among else None)

    def pairs(self, among=None):
        """connections that exist in a deployment: voter-voter and observer-voter"""
        ids = among or self.A
        obs = set(self.tr.observers)
        return [(a, b) for n, a in enumerate(ids) for b in ids[n + 1:] if not (a in obs and b in obs)]

    def connect_all(self, among=None):
        for (a, b) in self.pairs(among):
            self.ev("connect", a, b)

    def disconnect(self, a, b):
        self.ev("cut", a, b)
        self.ev("notice", a, b)
        self.ev("notice", b, a)

    def isolate(self, group):
        for a in group:
            for b in self.A:
                if b not in group and not (a in self.tr.observers and b in self.tr.observers):
                    self.disconnect(a, b)


DTS = [0.0, 0.0625, 0.0625, 0.0625, 0.125, 0.125, 0.125, 0.25, 0.25, 0.5, 1.0, 2.0]


def random_trace(d, n_events):
    """Seeded random schedule with phases (slow links, partitions, bursts of submissions)."""
    rng, tr, sim, V = d.rng, d.tr, d.sim, d.V
    N = len(V)
    A = d.A
    pairs = d.pairs()
    rng.shuffle(pairs)
    for (a, b) in pairs:
        if rng.random() < 0.9:
            d.ev("connect", a, b)
    w_deliver = rng.choice([0.45, 0.55, 0.65])
    w_tick = rng.choice([0.2, 0.3])
    w_net = rng.choice([0.0, 0.01, 0.03, 0.06]) if pairs else 0.0
    w_submit = rng.choice([0.04, 0.08, 0.15])
    w_compact = rng.choice([0.0, 0.01, 0.03, 0.06])
    if tr.journal == "journal":
        w_compact = 0.0      # journal without dump file + compaction: the node cannot re-apply after a restart (finding D17, C06)
    w_restart = rng.choice([0.005, 0.01, 0.03]) if tr.journal else 0.0
    big_dt = rng.choice([0.03, 0.08, 0.2])
    if rng.random() < 0.5 and N > 1:
        d.elect(among=A, max_steps=60)
    phase_end = 0
    slow = set()
    while len(tr.events) < n_events:
        if len(tr.events) >= phase_end:
            phase_end = len(tr.events) + rng.randrange(30, 120)
            slow = set()
            chans = [(a, b) for (a, b) in pairs] + [(b, a) for (a, b) in pairs]
            for c in chans:
                if rng.random() < rng.choice([0.0, 0.15, 0.4]):
                    slow.add(c)
            if rng.random() < 0.3:
                for (a, b) in pairs:
                    if rng.random() < 0.8:
                        d.ev("connect", a, b)
        r = rng.random()
        if r < w_deliver:
            ch = [c for c in sorted(sim.chan) if sim.chan[c]]
            if ch:
                fast = [c for c in ch if c not in slow]
                c = rng.choice(fast) if fast and rng.random() < 0.95 else rng.choice(ch)
                k = 1 if rng.random() < 0.7 else rng.randrange(1, 6)
                for _ in range(k):
                    d.ev("deliver", c[0], c[1])
                continue
            r = w_deliver + rng.random() * (1 - w_deliver)
        r -= w_deliver
        if r < w_tick or (not pairs) and r < 0.6:
            v = rng.choice(A)
            dt = rng.choice([1.0, 2.0]) if rng.random() < big_dt * 0.3 else rng.choice(DTS[:10])
            d.ev("tick", v, dt)
            continue
        r -= w_tick
        if r < w_net and pairs:
            a, b = rng.choice(pairs)
            k = rng.randrange(6)
            if k == 0:
                d.ev("cut", a, b)
            elif k == 1:
                d.ev("notice", a, b)
            elif k == 2:
                d.ev("notice", b, a)
            elif k == 3:
                d.disconnect(a, b)
            else:
                d.ev("connect", a, b)
            continue
        r -= w_net
        if r < w_submit:
            l = d.leader()
            v = l if (l is not None and rng.random() < 0.6) else rng.choice(A)
            cls = rng.choice(["tiny", "tiny", "mid", "mid", "big"])
            for _ in range(1 if rng.random() < 0.6 else rng.randrange(2, 7)):
                d.submit(v, cls)
            continue
        r -= w_submit
        if r < w_compact:
            l = d.leader()
            d.ev("compact", l if (l is not None and rng.random() < 0.5) else rng.choice(A))
            continue
        r -= w_compact
        if r < w_restart:
            vs = [rng.choice(V)] if rng.random() < 0.85 else list(V)
            for v in vs:
                d.ev("restart", v)
            for v in vs:
                for w in A:
                    if w != v and rng.random() < 0.7:
                        d.ev("connect", v, w)
            continue
        # default: a tick of the leader (keeps heartbeats flowing) or of anyone
        l = d.leader()
        v = l if (l is not None and rng.random() < 0.7) else rng.choice(A)
        d.ev("tick", v, rng.choice(DTS[1:8]))


# ------------------------------------------------------------------------------------------------
# directed schedules (classic replication interleavings; built from legal events only: a message is
# never dropped or reordered by hand, it is at most left waiting in its channel)
# ------------------------------------------------------------------------------------------------
def _hold_deliver(d, among, hold):
    """deliver everything among `among` except the channels in `hold`"""
    old = set(d.held)
    d.held |= set(hold)
    try:
        d.deliver_all(among)
    finally:
        d.held = old


def sc_delayed_ack_resend(d):
    """D1 pattern: several batches in flight, the first reply regresses nextIndex, the leader re-sends,
    late replies raise matchIndex, the follower sees only part of the re-sent batches, leader change."""
    d.connect_all()
    L = d.elect()
    if L is None:
        return "no leader"
    F, P = [v for v in d.V if v != L][:2]
    d.run(3)
    d.disconnect(L, P)
    d.disconnect(F, P)
    for _ in range(d.rng.randrange(6, 10)):
        d.submit(L, "mid")
    d.ev("tick", L, 0.0625)
    d.ev("tick", L, 0.125)
    d.drain(L, F)
    d.ev("deliver", F, L)
    d.ev("tick", L, 0.25)
    d.drain(F, L)
    d.ev("tick", L, 0.0625)
    for _ in range(d.rng.randrange(1, 3)):
        d.ev("deliver", L, F)
    d.disconnect(L, F)
    d.ev("connect", F, P)
    N = d.elect(among=[F, P])
    if N is not None:
        d.submit(N, "tiny")
        d.run(8, among=[F, P])
    d.connect_all()
    d.run(12)
    return None


def sc_deposed_leader_snapshot(d):
    """D2 pattern: a deposed leader with never-replicated entries is brought back by a snapshot burst."""
    d.connect_all()
    L = d.elect()
    if L is None:
        return "no leader"
    d.submit(L, "tiny")
    d.run(8)
    others = [v for v in d.V if v != L]
    for o in others:
        d.disconnect(L, o)
    d.submit(L, "tiny")
    d.ev("tick", L, 0.0625)
    L2 = d.elect(among=others)
    if L2 is None:
        return "no second leader"
    for _ in range(5):
        d.submit(L2, "tiny")
    d.run(8, among=others)
    d.ev("compact", L2)
    d.run(4, among=others)
    d.ev("connect", L, L2)
    for _ in range(30):
        d.ev("tick", L2, 0.0625)
        d.ev("tick", L, 0.0)
        d.ev("deliver", L2, L)
        d.ev("tick", L, 0.0)
        d.ev("deliver", L, L2)
    d.ev("connect", L, [o for o in others if o != L2][0])
    d.run(20)
    return None


def sc_stale_ack_across_terms(d):
    """D3 pattern (5 voters): acknowledgements of term T1 wait in their channel while the same node loses
    and regains leadership; they arrive when it leads term T3."""
    if len(d.V) < 5:
        return "needs 5 voters"
    d.connect_all()
    L = d.elect()
    if L is None:
        return "no leader"
    F, P, Q, R = [v for v in d.V if v != L]
    for x in (L, F):
        for y in (P, Q, R):
            d.disconnect(x, y)
    for _ in range(3):
        d.submit(L, "tiny")
    d.ev("tick", L, 0.0625)
    d.ev("tick", L, 0.25)
    d.drain(L, F)
    hold = {(F, L)}
    d.held |= hold                  # F's acknowledgements of term T1 stay in the channel
    N = d.elect(among=[P, Q, R])
    if N is None:
        return "no leader in the other partition"
    d.run(5, among=[P, Q, R])
    d.ev("connect", N, L)
    for _ in range(8):
        for v in (P, Q, R):
            d.ev("tick", v, 0.0625)
        d.deliver_all(among=[P, Q, R, L])
    for x in (P, Q, R):
        d.ev("connect", L, x)
    for _ in range(120):
        d.ev("tick", L, 0.0625)
        d.deliver_all(among=[P, Q, R, L])
        if d.sim.objs[L]._isLeader():
            break
    if not d.sim.objs[L]._isLeader():
        d.held -= hold
        return "old leader not re-elected"
    d.held -= hold
    d.drain(F, L)                   # the stale acknowledgements
    d.submit(L, "tiny")
    for x in (Q, R):
        d.disconnect(L, x)
    for _ in range(6):
        d.ev("tick", L, 0.0625)
        d.ev("tick", P, 0.0625)
        d.deliver_all(among=[L, P])
    d.connect_all()
    d.run(10)
    return None


def sc_snapshot_to_uptodate_follower(d):
    """D4 pattern: two `reset` replies in flight; after the first the follower catches up and applies, the
    leader compacts; the second (stale) reply makes the leader send a snapshot the follower already holds."""
    d.connect_all()
    L = d.elect()
    if L is None:
        return "no leader"
    F = [v for v in d.V if v != L][0]
    rest = [v for v in d.V if v not in (L, F)]
    d.run(2)
    for v in d.V:
        if v != F:
            d.disconnect(v, F)
    for _ in range(6):
        d.submit(L, "tiny")
    d.run(8, among=[L] + rest)
    # a NEW leader starts with nextIndex = its own end for everybody, also for the lagging follower
    if rest:
        C = rest[0]
        for _ in range(40):
            d.ev("tick", C, 2.0)
            d.deliver_all(among=[L] + rest)
            if d.sim.objs[C]._isLeader():
                break
        if not d.sim.objs[C]._isLeader():
            return "no second leader"
        L = C
        rest = [v for v in d.V if v not in (L, F)]
    d.ev("connect", L, F)
    d.held.add((F, L))
    d.ev("tick", L, 0.25)
    d.drain(L, F)
    d.ev("tick", L, 0.25)
    d.drain(L, F)
    d.held.discard((F, L))
    resets = [m for m in d.sim.chan[(F, L)] if m.get("type") == "next_node_idx" and m.get("reset")]
    if len(resets) < 2:
        d.run(6)
        return "less than two reset replies in flight"
    d.ev("deliver", F, L)
    d.held.add((F, L))               # the second (soon stale) reset and all later replies of F wait
    lazy = d.variant % 2 == 1        # the follower holds the entries but has not applied them yet
    for _ in range(4):
        d.ev("tick", L, 0.125)
        d.deliver_all(among=[L] + rest)
        d.drain(L, F)
        if not lazy:
            d.ev("tick", F, 0.0625)
    d.ev("compact", L)
    d.ev("tick", L, 0.0)
    d.ev("tick", L, 0.0)
    for _ in range(2):
        d.submit(L, "tiny")          # entries beyond the snapshot position, replicated and applied
    for _ in range(4):
        d.ev("tick", L, 0.125)
        d.deliver_all(among=[L] + rest)
        d.drain(L, F)
        if not lazy:
            d.ev("tick", F, 0.0625)
    d.held.discard((F, L))
    d.ev("deliver", F, L)            # stale reset: nextIndex falls behind the compacted prefix
    d.ev("tick", L, 0.25)            # snapshot burst to a follower that holds more than the snapshot
    d.drain(L, F)
    d.ev("tick", F, 0.0625)
    d.drain(F, L)
    d.connect_all()
    d.run(8)
    return None


def sc_old_term_entry(d):
    """Commit rule: a new leader holds entries of an older term on a majority before its own no-op is
    acknowledged; they may only be committed together with an entry of its own term."""
    d.connect_all()
    L = d.elect()
    if L is None:
        return "no leader"
    F, P = [v for v in d.V if v != L][:2]
    rest = [v for v in d.V if v not in (L, F, P)]
    d.run(3)
    for _ in range(3):
        d.submit(L, "mid")
    d.ev("tick", L, 0.0625)
    d.ev("tick", L, 0.125)
    d.drain(L, F)
    d.isolate([L])
    N = None
    for _ in range(200):
        d.ev("tick", F, 0.0625)
        _hold_deliver(d, [F, P] + rest, {(F, P)} if d.sim.objs[F]._isLeader() else set())
        if d.sim.objs[F]._isLeader():
            N = F
            break
    if N is None:
        d.connect_all()
        d.run(10)
        return "follower holding the old entries did not win"
    d.ev("tick", F, 0.125)
    # the batches go out one by one: old-term entries first
    for _ in range(6):
        if d.sim.chan[(F, P)]:
            d.ev("deliver", F, P)
            d.drain(P, F)
            d.ev("tick", F, 0.0)
    d.run(6, among=[F, P] + rest)
    d.connect_all()
    d.run(10)
    return None


def sc_split_votes(d):
    """Simultaneous candidates, stale vote replies, even sizes."""
    rng = d.rng
    d.connect_all()
    for rnd in range(6):
        cands = [v for v in d.V if rng.random() < 0.6] or [d.V[0]]
        for v in cands:
            d.ev("tick", v, 2.0)
        chans = d.channels()
        rng.shuffle(chans)
        for c in chans:
            if rng.random() < 0.8:
                d.drain(c[0], c[1], limit=rng.randrange(1, 4))
        if rng.random() < 0.5:
            d.deliver_all()
        l = d.leader()
        if l is not None and rng.random() < 0.5:
            d.submit(l, "tiny")
            d.run(2)
    d.run(6)
    return None


SCENARIOS = [
    ("delayed_ack_resend", sc_delayed_ack_resend, 3, {"appendEntriesBatchSizeBytes": 128}),
    ("deposed_leader_snapshot", sc_deposed_leader_snapshot, 3, {"logCompactionBatchSize": 8}),
    ("stale_ack_across_terms", sc_stale_ack_across_terms, 5, {}),
    ("snapshot_to_uptodate_follower", sc_snapshot_to_uptodate_follower, 3, {"logCompactionBatchSize": 24}),
    ("old_term_entry", sc_old_term_entry, 3, {"appendEntriesBatchSizeBytes": 64}),
    ("split_votes", sc_split_votes, 4, {}),
]


def sc_isolated_leader_and_callbacks(d):
    """Leader fallback (stepDown) and every definite failure reason of the callback contract:
    QUEUE_FULL, MISSING_LEADER, NOT_LEADER, DISCARDED (conf: small queue, no waiting for a leader,
    short leaderFallbackTimeout)."""
    d.connect_all()
    L = d.elect()
    if L is None:
        return "no leader"
    F, P = [v for v in d.V if v != L][:2]
    d.run(3)
    for _ in range(6):
        d.submit(L, "tiny")                 # queue of 3: QUEUE_FULL for the rest
    d.run(6)
    d.isolate([L])
    d.submit(L, "tiny")
    d.ev("tick", L, 0.0625)                 # appended by the isolated leader, never replicated
    N = d.elect(among=[F, P])
    if N is None:
        return "no second leader"
    d.submit(N, "tiny")
    d.run(6, among=[F, P])
    d.ev("tick", L, 1.0)                    # fallback: no majority answered within leaderFallbackTimeout
    d.submit(L, "tiny")
    d.ev("tick", L, 0.0625)                 # MISSING_LEADER
    d.connect_all()
    d.run(8)                                # old leader's entry is replaced: DISCARDED
    # NOT_LEADER: Y still believes in X while X already follows Z; Y forwards a command to X
    X = d.leader()
    if X is None:
        return "no leader at the end"
    Y, Z = [v for v in d.V if v != X][:2]
    d.isolate([Y])
    for _ in range(40):
        d.ev("tick", Z, 2.0)
        d.deliver_all(among=[X, Z])
        if d.sim.objs[Z]._isLeader():
            break
    if not d.sim.objs[Z]._isLeader():
        return "no third leader"
    d.run(3, among=[X, Z])
    d.ev("connect", Y, X)
    d.submit(Y, "tiny")
    d.ev("tick", Y, 0.0)
    d.drain(Y, X)
    d.ev("tick", X, 0.0)
    d.drain(X, Y)
    d.connect_all()
    d.run(8)
    return None


def sc_restarts(d):
    """Journaled voters (journal + dump file) killed and restarted: between granting a vote and the end
    of the election (C07), as leader, all at once, and between writing a dump and trimming the journal (C06)."""
    d.connect_all()
    L = d.elect()
    if L is None:
        return "no leader"
    F, P = [v for v in d.V if v != L][:2]
    for _ in range(4):
        d.submit(L, "tiny")
    d.run(6)
    # a follower votes, is killed, comes back and is asked again in the same term
    d.isolate([L])
    d.ev("tick", F, 2.0)                 # F candidate of term t
    d.drain(F, P)                        # P grants
    d.ev("restart", P)
    d.ev("connect", P, F)
    d.ev("connect", P, L)
    d.ev("tick", L, 2.0)                 # old leader falls back / times out later
    d.ev("tick", L, 2.0)
    d.deliver_all()
    d.connect_all()
    L = d.elect()
    if L is None:
        return "no leader after vote restart"
    for _ in range(3):
        d.submit(L, "tiny")
    d.run(6)
    # dump written, journal not yet trimmed
    dump = d.tr.journal == "dump"
    if dump:
        d.ev("compact", L)
    d.ev("tick", L, 0.0)
    d.ev("restart", L)
    d.connect_all()
    d.run(4)
    L = d.elect()
    if L is None:
        return "no leader after leader restart"
    for _ in range(3):
        d.submit(L, "tiny")
    d.run(6)
    if dump:
        for v in d.V:
            d.ev("compact", v)
    d.run(3)
    d.submit(L, "tiny")
    d.ev("tick", L, 0.0625)
    d.deliver_all()
    for v in d.V:                        # everybody at once
        d.ev("restart", v)
    d.connect_all()
    L = d.elect()
    if L is None:
        return "no leader after full restart"
    d.submit(L, "tiny")
    d.run(8)
    return None


def sc_observers(d):
    """Read-only nodes join, leave and re-join, submit commands, and sit with a minority of the voters."""
    if not d.tr.observers:
        return "needs observers"
    O = d.tr.observers
    for (a, b) in d.pairs(d.V):
        d.ev("connect", a, b)
    L = d.elect(among=d.V)
    if L is None:
        return "no leader"
    for o in O:
        for v in d.V:
            d.ev("connect", o, v)
    d.run(4)
    for o in O:
        d.submit(o, "tiny")
    d.run(6)
    d.submit(L, "mid")
    d.submit(L, "mid")
    d.run(4)
    # the leader with all observers against the other voters: no majority among voters
    d.isolate([L] + O)
    d.submit(L, "tiny")
    d.submit(O[0], "tiny")
    d.run(5, among=[L] + O)
    rest = [v for v in d.V if v != L]
    N = d.elect(among=rest)
    if N is not None:
        d.submit(N, "tiny")
        d.run(5, among=rest)
    for o in O:
        d.disconnect(o, L)
    d.connect_all()
    d.run(10)
    d.ev("compact", d.leader() or L)
    d.run(3)
    for o in O[:1]:
        for v in d.V:
            d.disconnect(o, v)
    for _ in range(4):
        l = d.leader()
        if l is not None:
            d.submit(l, "tiny")
        d.run(2)
    l = d.leader()
    if l is not None:
        d.ev("compact", l)
    d.run(3)
    d.connect_all()
    d.run(10)
    return None


SCENARIOS.append(("isolated_leader_and_callbacks", sc_isolated_leader_and_callbacks, 3,
                  {"commandsQueueSize": 3, "commandsWaitLeader": False, "leaderFallbackTimeout": 0.5}))
SCENARIOS.append(("restarts", sc_restarts, 3, {"logCompactionBatchSize": 32}))
SCENARIOS.append(("observers", sc_observers, 3, {"logCompactionBatchSize": 32}))
SCENARIO_OPTS = {"restarts": {"journal": "dump"}, "observers": {"observers": 2}}


# ------------------------------------------------------------------------------------------------
# running, shrinking, corpus
# ------------------------------------------------------------------------------------------------
SIZES = [3, 5, 2, 4, 3, 1, 3, 5, 4, 2]


def build_item(repo, item, base_seed, n_events):
    """item = ("random", k) | ("scenario", name, k) | ("corpus", path).  Returns the finished Tracer."""
    import random as _random
    if item[0] == "random":
        k = item[1]
        rng = _random.Random("%d/core_trace/random/%d" % (base_seed, k))
        N = SIZES[k % len(SIZES)]
        conf = draw_conf(rng)
        conf["appendEntriesUseBatch"] = (k % 2 == 0)
        n_obs = [0, 0, 0, 1, 0, 0, 2, 0, 3, 0, 0][k % 11]
        journal = [None, None, "dump", None, None, "journal", None][k % 7]
        if journal == "dump" and not ENABLE_DUMP_RESTART:
            journal = "journal"
        tr = Tracer(repo, list(range(N)), conf, base_seed * 100003 + k, observers=list(range(N, N + n_obs)),
                    journal=journal)
        try:
            random_trace(Director(tr, rng), n_events)
        finally:
            tr.finish()
        return tr
    if item[0] == "scenario":
        name, k = item[1], item[2]
        rng = _random.Random("%d/core_trace/%s/%d" % (base_seed, name, k))
        (_, fn, N, conf) = [x for x in SCENARIOS if x[0] == name][0]
        conf = dict(conf)
        if k % 2 == 1:
            conf["appendEntriesUseBatch"] = False
        if k >= 2:
            N = max(N, [3, 5, 4][k % 3]) if name != "old_term_entry" else N
        opts = SCENARIO_OPTS.get(name, {})
        n_obs = opts.get("observers", 0)
        if name == "observers" and k % 3 == 2:
            n_obs = 3
        tr = Tracer(repo, list(range(N)), conf, base_seed * 100003 + 7919 * k,
                    observers=list(range(N, N + n_obs)),
                    journal=("journal" if opts.get("journal") == "dump" and not ENABLE_DUMP_RESTART else opts.get("journal")))
        try:
            d = Director(tr, rng)
            d.variant = k
            note = fn(d)
            if note:
                tr.cov["scenario-not-reached:%s" % name] += 1
            if k >= 1:
                random_trace(d, len(tr.events) + n_events // 3)      # continue from the reached state
        finally:
            tr.finish()
        return tr
    if item[0] == "corpus":
        ent = json.load(open(item[1]))
        return run_schedule(repo, ent["spec"])
    raise ValueError(item)


def summarize(tr, item, mm):
    spec = spec_of(tr)
    h = hashlib.sha1(json.dumps(spec, sort_keys=True, default=str).encode()).hexdigest()[:16]
    cb = collections.Counter("callback:%s" % c[3] for c in tr.sim.callbacks)
    cov = collections.Counter(tr.cov)
    cov.update(cb)
    r = {"item": list(item), "N": tr.N, "events": len(tr.events), "lines": len(tr.lines), "cov": dict(cov),
         "flags": sorted(tr.flags), "hash": h, "batch": bool(tr.conf.get("appendEntriesUseBatch", True)),
         "mismatch": mm, "violations": tr.violations[:5], "internal": tr.internal[:3],
         "commits": max([tr.sim.objs[v].raftCommitIndex for v in tr.voters]) - 1}
    if mm or tr.violations or tr.internal:
        r["spec"] = spec
    return r


def _work(args):
    repo, items, base_seed, n_events, deadline = args
    out = []
    batch = []
    for it in items:
        if time.time() > deadline and it[0] != "scenario":
            continue          # the directed schedules (which guarantee the coverage floors) always run
        try:
            batch.append((it, build_item(repo, it, base_seed, n_events)))
        except Exception:
            import traceback
            out.append({"item": list(it), "error": traceback.format_exc()[-1500:]})
        if len(batch) >= 8:
            out.extend(_flush(batch))
            batch = []
    out.extend(_flush(batch))
    return out


def _flush(batch):
    if not batch:
        return []
    try:
        mms = verify_many([tr for (_, tr) in batch])
    except Exception:
        import traceback
        return [{"item": list(it), "error": traceback.format_exc()[-1500:]} for (it, _) in batch]
    return [summarize(tr, it, mm) for ((it, tr), mm) in zip(batch, mms)]


def fails_like(repo, spec, events, cls, kind):
    """Does the schedule restricted to `events` still fail in the same way?"""
    try:
        tr = run_schedule(repo, spec, with_monitors=(kind == "violation"), events=events)
    except Exception:
        return None
    if kind == "violation":
        hit = [e for (e, v) in tr.violations if v["signature"] == cls]
        return (tr, hit[0]) if hit else None
    if tr.internal:
        return None
    mm = verify(tr)
    if mm and mm.get("class") == cls:
        return (tr, mm)
    return None


def shrink(repo, spec, cls, kind, event_no, budget_s=20.0):
    """Drop events (ddmin style) while the same failure class remains."""
    t0 = time.time()
    events = list(spec["events"])
    if event_no is not None and event_no + 1 < len(events):
        cut = events[:event_no + 1]
        if fails_like(repo, spec, cut, cls, kind):
            events = cut
    n = 2
    while len(events) >= 2 and time.time() - t0 < budget_s:
        chunk = max(len(events) // n, 1)
        removed = False
        k = 0
        while k < len(events) and time.time() - t0 < budget_s:
            cand = events[:k] + events[k + chunk:]
            if cand and fails_like(repo, spec, cand, cls, kind):
                events = cand
                removed = True
            else:
                k += chunk
        if chunk == 1 and not removed:
            break
        if not removed:
            n = min(n * 2, len(events))
        else:
            n = max(n - 1, 2)
    out = dict(spec)
    out["events"] = events
    return out


def corpus_files():
    if not os.path.isdir(CORPUS):
        return []
    return sorted(os.path.join(CORPUS, f) for f in os.listdir(CORPUS) if f.endswith(".json"))


def corpus_store(kind, cls, spec, what):
    os.makedirs(CORPUS, exist_ok=True)
    h = hashlib.sha1(json.dumps(spec, sort_keys=True, default=str).encode()).hexdigest()[:10]
    name = "%s-%s-%s.json" % (kind, "".join(c if c.isalnum() else "_" for c in cls)[:50], h)
    path = os.path.join(CORPUS, name)
    if not os.path.exists(path):
        mine = [f for f in corpus_files() if os.path.basename(f).startswith("%s-" % kind)]
        if len(mine) >= 24:
            return None
        checklib.write_json(path, {"kind": kind, "class": cls, "what": what, "spec": spec})
    return path


FLOORS_ACTIONS = ["timeout", "recvReqVote", "recvVote", "clientAppend", "sendAppend", "recvAppend", "recvAck",
                  "advanceCommit", "stepDown", "apply", "observeTerm", "sendSnapshot", "recvSnapshot", "lose", "restart"]
FLOORS_COV = ["vote:granted", "vote:denied", "voteReply:counted", "voteReply:ignored", "append:accepted",
              "append:prev-mismatch", "append:stale-term", "append:non-final", "append:chunked-entry-accepted",
              "ack:current-term", "ack:ignored-not-leader", "ack:ignored-other-term", "snapshot:installed",
              "snapshot:kept", "real:truncate", "commit:advanced", "commit:majority-holds-old-term-entry-only",
              "commit:no-majority-yet", "callback:0", "callback:1", "callback:2", "callback:3", "callback:4"]
FLOORS_FLAGS = {"leader-change": 3, "truncation": 1, "chunked": 1, "snapshot-installed": 1, "snapshot-kept": 1,
                "stale-ack": 1, "old-term-skip": 1}


def plan(ctx):
    quick = ctx.tier == "quick"
    n_events = 400 if quick else 1200
    items = []
    reps = 2 if quick else 12
    for k in range(reps):
        for (name, _, _, _) in SCENARIOS:
            items.append(("scenario", name, k))
    items += [("corpus", f) for f in corpus_files()]
    for k in range(120 if quick else 2400):
        items.append(("random", k))
    return items, n_events


def run(ctx):
    t0 = time.time()
    items, n_events = plan(ctx)
    budget = 14.0 if ctx.tier == "quick" else 300.0
    deadline = t0 + budget
    jobs = max(1, min(ctx.jobs, len(items)))
    # directed and corpus items first, spread over the workers
    shards = [items[k::jobs] for k in range(jobs)]
    args = [(ctx.repo, sh, ctx.seed, n_events, deadline) for sh in shards]
    if jobs > 1:
        mp = multiprocessing.get_context("fork")
        with mp.Pool(jobs) as pool:
            parts = pool.map(_work, args)
    else:
        parts = [_work(a) for a in args]
    results = [r for p in parts for r in p]
    return assemble(ctx, results, t0, len(items))


def assemble(ctx, results, t0, planned):
    cov = collections.Counter()
    flags = collections.Counter()
    sizes = collections.Counter()
    modes = collections.Counter()
    hashes = set()
    events = 0
    lines = 0
    errors = []
    disagreements = []
    violations = []
    seen_cls = set()
    for r in results:
        if r.get("error"):
            errors.append(r)
            continue
        cov.update(r["cov"])
        for f in r["flags"]:
            flags[f] += 1
        sizes[str(r["N"])] += 1
        modes["batch" if r["batch"] else "single"] += 1
        if r["events"] >= 20:
            hashes.add(r["hash"])
        events += r["events"]
        lines += r["lines"]
    shrink_deadline = time.time() + (25.0 if ctx.tier == "quick" else 120.0)
    for r in results:
        if r.get("error"):
            continue
        for note in r.get("internal", []):
            if "internal" not in seen_cls:
                seen_cls.add("internal")
                disagreements.append({"input": {"item": r["item"]}, "model": None, "impl": None,
                                      "note": "harness bookkeeping inconsistent: " + note, "spec": r.get("spec")})
        mm = r.get("mismatch")
        if mm and mm["class"] not in seen_cls and len(disagreements) < 3:
            seen_cls.add(mm["class"])
            spec = r["spec"]
            if time.time() < shrink_deadline:
                small = shrink(ctx.repo, spec, mm["class"], "mismatch", mm.get("event_no"),
                               budget_s=min(20.0, max(shrink_deadline - time.time(), 1.0)))
                got = fails_like(ctx.repo, small, small["events"], mm["class"], "mismatch")
                if got:
                    spec, mm = small, got[1]
            path = corpus_store("mismatch", mm["class"], spec, mm.get("why") or mm.get("diff"))
            disagreements.append({"input": {"item": r["item"], "schedule": spec, "corpus": path},
                                  "model": mm.get("model_state") or mm.get("model_state_before_event"),
                                  "impl": mm.get("impl_state"),
                                  "note": "%s at event %s %s: %s" % (mm["class"], mm.get("event_no"), mm.get("event"),
                                                                    json.dumps(mm.get("action") or mm.get("diff"), default=str)[:600]),
                                  "actions": mm.get("actions")})
        for (evno, v) in r.get("violations", []):
            sig = v["signature"]
            if ("v", sig) in seen_cls:
                continue
            seen_cls.add(("v", sig))
            spec = r["spec"]
            if time.time() < shrink_deadline:
                small = shrink(ctx.repo, spec, sig, "violation", evno,
                               budget_s=min(20.0, max(shrink_deadline - time.time(), 1.0)))
                got = fails_like(ctx.repo, small, small["events"], sig, "violation")
                if got:
                    spec = small
                    v = dict([x for x in got[0].violations if x[1]["signature"] == sig][0][1])
            path = corpus_store("violation", sig, spec, v["what"])
            violations.append({"signature": sig, "what": "%s (schedule of %d events on %d voters, conf %s)"
                               % (v["what"], len(spec["events"]), len(spec["voters"]), json.dumps(spec["conf"], sort_keys=True)),
                               "replay": {"spec": spec, "signature": sig, "corpus": path}})
    coverage = {"traces": len(results) - len(errors), "planned": planned, "real_events": events, "model_lines": lines,
                "cluster_sizes": dict(sizes), "append_modes": dict(modes),
                "actions_validated": dict((k[4:], cov[k]) for k in sorted(cov) if k.startswith("act:")),
                "real_event_kinds": dict((k[3:], cov[k]) for k in sorted(cov) if k.startswith("ev:")),
                "delivered": dict((k[8:], cov[k]) for k in sorted(cov) if k.startswith("deliver:")),
                "branches": dict((k, cov[k]) for k in sorted(cov) if k.split(":")[0] in
                                 ("vote", "voteReply", "append", "ack", "snapshot", "commit", "send", "real", "callback",
                                  "scenario-not-reached", "observer", "restart")),
                "traces_with": dict(flags)}
    res = {"name": "corr.core_trace", "cases": len(results) - len(errors), "distinct": len(hashes),
           "coverage": coverage, "samples": [], "disagreements": disagreements, "violations": violations,
           "wall_s": round(time.time() - t0, 2)}
    for r in results:
        if not r.get("error") and r["events"] >= 20 and len(res["samples"]) < 2:
            res["samples"].append({"item": r["item"], "voters": r["N"], "events": r["events"], "model_lines": r["lines"],
                                   "flags": r["flags"], "max_commit_position": r["commits"]})
    if errors:
        res["error"] = "trace construction failed: " + errors[0]["error"]
        return res
    missing = [a for a in FLOORS_ACTIONS if cov["act:" + a] == 0]
    missing += [c for c in FLOORS_COV if cov[c] == 0]
    missing += ["traces-with-%s<%d" % (f, n) for f, n in FLOORS_FLAGS.items() if flags[f] < n]
    missing += ["cluster-size-%d" % n for n in (1, 2, 3, 4, 5) if sizes[str(n)] == 0]
    missing += [c for c in ("observer:append-accepted", "observer:ack-at-leader", "observer:submit",
                            "restart:from-journal-start") if cov[c] == 0]
    missing += ["append-mode-%s" % m for m in ("batch", "single") if modes[m] == 0]
    if missing and not disagreements and not violations:
        res["inconclusive"] = "coverage floor missed: " + ", ".join(missing[:12])
    return res


def search(ctx, unproved):
    """Look for a concrete failing input on the REAL code: more and longer schedules (other seeds) with the
    property monitors only (no model involved)."""
    t0 = time.time()
    budget = 40.0 if ctx.tier == "quick" else 240.0
    found = {}
    k = 0
    names = [x[0] for x in SCENARIOS]
    while time.time() - t0 < budget and len(found) < 3:
        k += 1
        item = ("scenario", names[(k // 4) % len(names)], 1 + k % 5) if k % 4 == 0 else ("random", k)
        tr = build_item(ctx.repo, item, ctx.seed + 7777, 1500)
        for (evno, v) in tr.violations:
            if v["signature"] not in found:
                spec = shrink(ctx.repo, spec_of(tr), v["signature"], "violation", evno, budget_s=15.0)
                found[v["signature"]] = {"signature": v["signature"], "what": v["what"],
                                         "replay": {"spec": spec, "signature": v["signature"]}}
    return list(found.values())


def replay(ctx, violation):
    rp = violation.get("replay") or {}
    spec = rp.get("spec")
    if not spec:
        return {"violated": False, "note": "no schedule in the violation record"}
    tr = run_schedule(ctx.repo, spec)
    hit = [v for (_, v) in tr.violations if v["signature"] == rp.get("signature")]
    return {"violated": bool(hit), "violations": [v for (_, v) in tr.violations][:5], "events": len(tr.events),
            "mismatch": verify(tr)}
