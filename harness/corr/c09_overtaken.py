"""C09 monitor `c09.overtaken`: a chunked snapshot transfer that is overtaken by a NEWER snapshot of the sender delivers a
complete old or a complete new snapshot - never a mixture ("transfers interrupted ... by a newer snapshot", C09).

Black box on the public API of the real `Serializer` (no private attribute is read, so a refactoring of its bookkeeping
cannot make this component unusable - that is what happened to `corr.serializer_chunks` under seeded change C09-18):
a sender and a receiver object, `serialize` + `checkSerializing` for snapshot OLD, j calls of
`getTransmissionData`/`setTransmissionData`, `serialize` + `checkSerializing` for snapshot NEW, then the transfer
continues until the receiver reports a complete snapshot; `deserialize(incoming=True)` must return OLD or NEW.

Modes: user serializer / deserializer / serializeChecker (file, no fork, a format without any integrity check of its
own), the library's gzip+pickle format in a file without fork, and in memory.  Chunk sizes 1 byte .. larger than the
snapshot, every overtaking moment j = 0 .. number of chunks, OLD and NEW of equal and of different lengths.
"""
import os
import time

from harness.corr import serializer_common as C

PROPERTIES = ["C09"]
ORDER = 44

SIG = "snapshot-transfer:overtaken-by-newer-snapshot-delivers-mixture"


def make(sermod, mode, d, name, chunk):
    from pysyncobj.config import SERIALIZER_STATE as ST
    if mode == "user":
        st = {"s": ST.NOT_SERIALIZING}

        def ser(fn, data):
            with open(fn, "wb") as f:
                f.write(data[0])
            st["s"] = ST.SUCCESS

        def des(fn):
            with open(fn, "rb") as f:
                return (f.read(),)

        def chk():
            s, st["s"] = st["s"], ST.NOT_SERIALIZING
            return s
        return sermod.Serializer(os.path.join(d, name), chunk, True, ser, des, chk)
    if mode == "file":
        return sermod.Serializer(os.path.join(d, name), chunk, False, None, None, None)
    return sermod.Serializer(None, chunk, False, None, None, None)


def one(sermod, mode, d, chunk, j, old, new, tagn):
    """-> (error text or None, chunks sent)"""
    from pysyncobj.config import SERIALIZER_STATE as ST
    snd = make(sermod, mode, d, "snd%d.dump" % tagn, chunk)
    rcv = make(sermod, mode, d, "rcv%d.dump" % tagn, chunk)
    pay = (lambda b: (None, b)) if mode == "user" else (lambda b: (b, "tail"))
    snd.serialize(pay(old), 10)
    if snd.checkSerializing()[0] != ST.SUCCESS:
        return "setup: first snapshot not reported SUCCESS", 0
    done, sent = False, 0
    for _ in range(j):
        c = snd.getTransmissionData("f")
        if c in (None, False):
            return "sender has nothing to send for a stored snapshot (%r)" % (c,), sent
        sent += 1
        if rcv.setTransmissionData(c):
            done = True
            break
    if not done:
        snd.serialize(pay(new), 20)
        if snd.checkSerializing()[0] != ST.SUCCESS:
            return "setup: second snapshot not reported SUCCESS", sent
        for _ in range(4 * (len(old) + len(new)) // max(1, chunk) + 400):
            c = snd.getTransmissionData("f")
            if c in (None, False):
                return "sender stops in the middle of a transfer (%r)" % (c,), sent
            sent += 1
            if rcv.setTransmissionData(c):
                done = True
                break
    if not done:
        return "the transfer never completes", sent
    try:
        got = rcv.deserialize(incoming=True)
    except Exception as e:
        return "the receiver holds a 'complete' snapshot it cannot read: %s: %s" % (type(e).__name__, str(e)[:80]), sent
    got = got[1] if mode == "user" else got[0]
    rcv.finishIncoming(True)
    if got != old and got != new:
        return "the receiver's complete snapshot is neither the old nor the new one: %r.. (old %r.., new %r..), %d bytes" \
               % (bytes(got[:24]) if isinstance(got, (bytes, bytearray)) else got, old[:12], new[:12], len(got) if hasattr(got, "__len__") else -1), sent
    return None, sent


def run(ctx):
    t0 = time.time()
    sermod = C.load(ctx.repo)
    rng = ctx.rng("c09.overtaken")
    d = ctx.tmpdir()
    viols, cases, cov = [], 0, {}
    plans = []
    for mode in ("user", "file", "mem"):
        for (lo, ln) in ((16, 16), (40, 25), (25, 40), (300, 300)):
            for chunk in (1, 3, 4, 7, 16, 64, 1000):
                if lo >= 300 and chunk < 16:
                    continue
                top = min(lo // chunk + 2, 12)
                for j in range(0, top + 1):
                    plans.append((mode, lo, ln, chunk, j))
    for _ in range(ctx.scale(150, 6000)):
        lo, ln = rng.randrange(1, 400), rng.randrange(1, 400)
        chunk = rng.choice((1, 2, 5, 9, 33, 128, 500))
        plans.append((rng.choice(("user", "file", "mem")), lo, ln, chunk, rng.randrange(0, lo // chunk + 3)))
    for (mode, lo, ln, chunk, j) in plans:
        old = bytes((65 + (i * 7) % 23) for i in range(lo))
        new = bytes((97 + (i * 5) % 19) for i in range(ln))
        cases += 1
        try:
            err, sent = one(sermod, mode, d, chunk, j, old, new, cases)
        except Exception as e:
            err, sent = "exception %s: %s" % (type(e).__name__, str(e)[:120]), -1
        cov["mode:" + mode] = cov.get("mode:" + mode, 0) + 1
        cov["overtaken:" + ("before-first-chunk" if j == 0 else "mid-transfer")] = cov.get("overtaken:" + ("before-first-chunk" if j == 0 else "mid-transfer"), 0) + 1
        if err and not err.startswith("setup:") and len(viols) < 2:
            viols.append({"signature": SIG,
                          "what": "mode %s, chunk size %d, old snapshot %d bytes, new %d bytes, newer snapshot stored after %d chunk(s): %s"
                                  % (mode, chunk, lo, ln, j, err),
                          "replay": {"component": "corr.c09_overtaken", "mode": mode, "old": lo, "new": ln, "chunk": chunk, "after": j}})
        elif err and err.startswith("setup:"):
            cov["setup-failed"] = cov.get("setup-failed", 0) + 1
    r = {"name": "corr.c09_overtaken", "cases": cases, "distinct": len(set(plans)), "coverage": dict(sorted(cov.items())),
         "samples": [{"plan": plans[5]}], "disagreements": [], "violations": viols, "wall_s": round(time.time() - t0, 2)}
    if cov.get("setup-failed") and not viols:
        r["inconclusive"] = "%d plans could not store their snapshots" % cov["setup-failed"]
    return r


def replay(ctx, violation):
    sermod = C.load(ctx.repo)
    rp = violation.get("replay", {})
    old = bytes((65 + (i * 7) % 23) for i in range(rp.get("old", 16)))
    new = bytes((97 + (i * 5) % 19) for i in range(rp.get("new", 16)))
    err, sent = one(sermod, rp.get("mode", "user"), ctx.tmpdir(), rp.get("chunk", 4), rp.get("after", 2), old, new, 1)
    return {"violated": bool(err), "violations": [{"signature": SIG, "what": err}] if err else []}
