"""C12 property monitor on REAL clusters: command sequences in which any subset of the commands raises
(`boom` of harness/sim.py: mutates, then raises — deterministically on every replica), submitted to leaders
and to followers (forwarded), on 1-5 voters, with optional file journals and a kill/restart of one node that
replays the raising commands from its journal.

Monitors (property statement, observations only):
* apply-loop:exception-escapes        — no exception leaves `doTick` / the message handler
* apply-loop:raising-command-wedges   — after the run every node's `raftLastApplied` is the end of its log
* apply-loop:callback-not-once        — every submitted command's callback fired exactly once; a raising
                                        command reports SUCCESS with the exception instance as result, the
                                        others their return value
* apply-loop:replicas-differ          — all replicas hold the same object state, equal to the committed
                                        command sequence (raising ones included)
* apply-loop:restart-differs          — a node restarted from its journal ends in that same state
* apply-loop:leader-lost              — the cluster still has exactly one leader that makes progress
"""
import hashlib
import json
import logging
import time

from harness import sim as simmod
from harness import monitors

PROPERTIES = ["C12"]
ORDER = 60


def _run(s, steps):
    """sim.run over the nodes that are alive"""
    s.run(steps, among=[i for i in s.voters if i in s.objs])


def scenario(ctx, p):
    logging.getLogger().setLevel(logging.CRITICAL + 1)
    n, seed, ops, restart, journal = p["n"], p["seed"], p["ops"], p["restart"], p["journal"]
    ids = ["n%d" % k for k in range(n)]
    jdir = ctx.tmpdir() if journal else None
    s = simmod.Sim(ctx.repo, ids, seed=seed, journal_dir=jdir)
    s.connect_all()
    viol = []
    ldr = s.elect()
    if ldr is None:
        return {"viol": [], "skipped": "no leader"}
    subs = {}            # cid -> (value, raises)
    victim = None
    for k, (kind, where, x) in enumerate(ops):
        if kind in ("add", "boom"):
            tgt = ldr if where == "leader" else ids[where % n]
            if tgt not in s.objs:
                tgt = ldr
            cid = s.submit(tgt, x, method=kind)
            subs[cid] = (x, kind == "boom", tgt)
        elif kind == "run":
            _run(s, x)
            l2 = s.leader()
            if l2 is not None:
                ldr = l2
        elif kind == "kill" and restart and n >= 3 and victim is None:
            cand = [i for i in ids if i != ldr]
            victim = cand[where % len(cand)]
            s.kill(victim)
        elif kind == "restart" and victim is not None and victim not in s.objs:
            s.restart(victim)
            for j in ids:
                if j != victim:
                    s.connect(victim, j)
    if victim is not None and victim not in s.objs:
        s.restart(victim)
        for j in ids:
            if j != victim:
                s.connect(victim, j)
    _run(s, 48)
    l2 = s.elect()
    _run(s, 24)
    # ---- monitors ---------------------------------------------------------------------------------
    if s.errors:
        viol.append({"signature": "apply-loop:exception-escapes",
                     "what": "%d exceptions escaped, first on %s: %s %s" % (len(s.errors), s.errors[0][0], s.errors[0][1], s.errors[0][2])})
    if l2 is None:
        viol.append({"signature": "apply-loop:leader-lost", "what": "no single leader at the end of the run"})
    ends = dict((i, s.last_index(i)) for i in s.objs)
    applied = dict((i, s.objs[i].raftLastApplied) for i in s.objs)
    stuck = [i for i in s.objs if applied[i] < max(ends.values())]
    if stuck:
        viol.append({"signature": "apply-loop:raising-command-wedges",
                     "what": "lastApplied %r below the log end %r on %r" % (applied, ends, stuck)})
    fired = {}
    for (node, cid, res, err) in s.callbacks:
        fired.setdefault(cid, []).append((res, err))
    for cid, (x, raises, tgt) in subs.items():
        f = fired.get(cid, [])
        if tgt == victim and len(f) == 0:
            continue          # the submitting process was killed: its callback died with it
        if len(f) != 1:
            viol.append({"signature": "apply-loop:callback-not-once",
                         "what": "callback of %s(%r) fired %d times" % ("boom" if raises else "add", x, len(f))})
            continue
        res, err = f[0]
        if err == 0:
            if raises and not (isinstance(res, ValueError) and res.args == (x,)):
                viol.append({"signature": "apply-loop:callback-wrong-result",
                             "what": "boom(%r) reported SUCCESS with result %r, expected the ValueError it raised" % (x, res)})
            if not raises and not isinstance(res, int):
                viol.append({"signature": "apply-loop:callback-wrong-result", "what": "add(%r) reported SUCCESS with result %r" % (x, res)})
    states = dict((i, [tuple(v) if isinstance(v, tuple) else v for v in s.objs[i].log]) for i in s.objs)
    ref = states[l2] if l2 in states else list(states.values())[0]
    for i, st in states.items():
        if st != ref:
            viol.append({"signature": "apply-loop:restart-differs" if i == victim else "apply-loop:replicas-differ",
                         "what": "node %s state %r, reference %r" % (i, st[-6:], ref[-6:])})
            break
    # every SUCCESS command is in the state exactly once; raising ones as ('boom', x)
    for cid, (x, raises, tgt) in subs.items():
        f = fired.get(cid, [])
        if len(f) == 1 and f[0][1] == 0:
            item = ("boom", x) if raises else x
            if ref.count(item) != 1:
                viol.append({"signature": "apply-loop:executed-not-once",
                             "what": "%r reported SUCCESS but occurs %d times in the state" % (item, ref.count(item))})
    if victim is None:
        for v in monitors.sm_safety(s):
            viol.append(v)
    n_boom_applied = sum(1 for v in ref if isinstance(v, tuple))
    return {"viol": viol, "booms_applied": n_boom_applied, "applied": len(ref), "restarted": victim is not None,
            "forwarded": sum(1 for (k, w, x) in ops if k in ("add", "boom") and w != "leader")}


def gen(ctx):
    rng = ctx.rng("c12_raising")
    out = []
    uid = [1000]

    def nxt():
        uid[0] += 1
        return uid[0]
    # directed: raising first / middle / last / only / all, on 1, 2, 3, 5 nodes, leader and follower submissions
    for n in (1, 2, 3, 5):
        for pat in ("b", "bA", "Ab", "AbA", "bbb", "AbbA", "bAbAb"):
            for where in ("leader", 1):
                ops = []
                for ch in pat:
                    ops.append(("boom" if ch == "b" else "add", where, nxt()))
                ops.append(("run", 0, 12))
                out.append({"n": n, "seed": 3, "ops": ops, "restart": False, "journal": False})
    # directed: restart from the journal with raising commands in it
    for n in (3, 5):
        for pat in ("AbA", "bbA", "Abb"):
            ops = [("add", "leader", nxt()), ("run", 0, 8)]
            ops += [("boom" if ch == "b" else "add", "leader", nxt()) for ch in pat]
            ops += [("run", 0, 12), ("kill", 0, 0), ("boom", "leader", nxt()), ("add", "leader", nxt()), ("run", 0, 12),
                    ("restart", 0, 0), ("run", 0, 20)]
            out.append({"n": n, "seed": 5, "ops": ops, "restart": True, "journal": True})
    n_rand = ctx.scale(500, 20000)
    for _ in range(n_rand):
        n = rng.choice([1, 2, 3, 3, 3, 5])
        restart = n >= 3 and rng.random() < 0.4
        ops = []
        for _ in range(rng.randint(3, 14)):
            r = rng.random()
            if r < 0.35:
                ops.append(("boom", rng.choice(["leader", "leader", rng.randrange(5)]), nxt()))
            elif r < 0.7:
                ops.append(("add", rng.choice(["leader", "leader", rng.randrange(5)]), nxt()))
            elif r < 0.9:
                ops.append(("run", 0, rng.choice([1, 2, 6, 12])))
            elif restart and r < 0.95:
                ops.append(("kill", rng.randrange(5), 0))
            elif restart:
                ops.append(("restart", 0, 0))
        ops.append(("run", 0, 12))
        out.append({"n": n, "seed": rng.randrange(10 ** 6), "ops": ops, "restart": restart, "journal": restart or rng.random() < 0.2})
    return out


def run(ctx):
    t0 = time.time()
    viols = []
    cov = {"scenarios": 0, "booms_applied": 0, "commands_applied": 0, "restarts": 0, "forwarded": 0, "by_size": {}, "skipped": 0}
    distinct = set()
    ps = gen(ctx)
    done = 0
    for p in ps:
        if time.time() - t0 > ctx.budget_s * 0.6:
            break
        r = scenario(ctx, p)
        done += 1
        if r.get("skipped"):
            cov["skipped"] += 1
            continue
        cov["scenarios"] += 1
        cov["booms_applied"] += r["booms_applied"]
        cov["commands_applied"] += r["applied"]
        cov["restarts"] += 1 if r["restarted"] else 0
        cov["forwarded"] += r["forwarded"]
        cov["by_size"][str(p["n"])] = cov["by_size"].get(str(p["n"]), 0) + 1
        distinct.add(hashlib.sha1(json.dumps(p, sort_keys=True).encode()).hexdigest())
        for v in r["viol"]:
            if v["signature"] not in [x["signature"] for x in viols]:
                v["replay"] = {"params": p}
                viols.append(v)
    res = {"cases": done, "distinct": len(distinct), "coverage": cov, "samples": ps[:1] + ps[60:61], "disagreements": [],
           "violations": viols[:6], "wall_s": round(time.time() - t0, 2)}
    if cov["scenarios"] < 30 or cov["booms_applied"] < 50 or cov["restarts"] < 3:
        res["inconclusive"] = "too little exercised: %r" % ({k: cov[k] for k in ("scenarios", "booms_applied", "restarts")},)
    return res


def replay(ctx, violation):
    p = violation["replay"]["params"]
    p["ops"] = [tuple(o) for o in p["ops"]]
    r = scenario(ctx, p)
    return {"violated": any(v["signature"] == violation["signature"] for v in r.get("viol", [])),
            "violations": r.get("viol", [])[:6], "observed": {k: r.get(k) for k in ("booms_applied", "applied", "restarted")}}
