"""C11 monitor `c11.huge_frame`: the frames that carry a LARGE argument in one piece arrive intact (real `TcpConnection`).

`corr.c11_sizes` sweeps argument sizes around k*batchSize on simulated transports (messages travel as Python objects);
`corr.tcp_framing` drives the real framing with messages of up to a few hundred KiB.  Neither sends tens of MiB through
the real encoder/decoder.  Two kinds of message carry a whole command in ONE frame whatever its size: a follower's
forwarded `apply_command`, and a leader batch `[small entry, big entry]` (only a batch of exactly one over-sized entry is
cut into chunks).  This component joins two real `TcpConnection` objects of the tree under test by a local
`socket.socketpair()` under the library's own poller and sends such frames with arguments of
2^20, 2^24 - 1, 2^25 - 4096, 2^25 + 64 and 3 * 2^24 + 17 bytes (zeros: the frames themselves stay small), plus one
incompressible argument of 3 MiB + d, d from the seed ("random sizes" of the quantifier).  Monitor = the property text:
the message delivered equals the message sent, the connection stays up, no exception.

Added for seeded change C11-17 (a 32 MiB output limit on the decompressor, "protection against zip bombs", which the
exact-consumption check of repair D83 turns into a disconnect for every larger frame).
"""
import socket
import time

from harness.corr.tcp_framing import load_repo

PROPERTIES = ["C11"]
ORDER = 47

SIG = "c11:large-argument-frame-not-delivered-intact"


def roundtrip(tc, pl, message, budget):
    a, b = socket.socketpair()
    a.setblocking(0)
    b.setblocking(0)
    poller = pl.createPoller("auto")
    got, lost = [], []
    sender = tc.TcpConnection(poller, socket=a, timeout=600.0)
    receiver = tc.TcpConnection(poller, socket=b, timeout=600.0, onMessageReceived=got.append,
                                onDisconnected=lambda: lost.append(1))
    err = None
    try:
        sender.send(message)
        end = time.time() + budget
        while not got and not lost and time.time() < end:
            poller.poll(0.02)
        if lost or receiver.state != tc.CONNECTION_STATE.CONNECTED:
            err = "the receiver dropped the connection"
        elif not got:
            err = None if time.time() >= end else "nothing delivered"
            if err is None:
                return "timeout"
        elif got[0] != message:
            err = "the delivered message differs from the one sent"
    except Exception as e:      # an exception while sending / receiving is what the property excludes
        err = "exception %s: %s" % (type(e).__name__, str(e)[:120])
    finally:
        try:
            sender.disconnect()
            receiver.disconnect()
        except Exception:
            pass
        for s in (a, b):
            try:
                s.close()
            except Exception:
                pass
    return err


def run(ctx):
    t0 = time.time()
    tc, pk, pl = load_repo(ctx.repo)
    rng = ctx.rng("c11.huge_frame")

    def command(arg):
        return b"\x00" + pk.dumps((7, (arg,), {"key": "v"}))

    sizes = [(2 ** 20, "zeros"), (2 ** 24 - 1, "zeros"), (2 ** 25 - 4096, "zeros"), (2 ** 25 + 64, "zeros"),
             (3 * 2 ** 24 + 17, "zeros"), (3 * 2 ** 20 + rng.randrange(-64, 65), "random")]
    if ctx.tier == "thorough":
        sizes += [(2 ** 26 + rng.randrange(1, 4096), "zeros"), (2 ** 27 + 1, "zeros"), (2 ** 24 + rng.randrange(-64, 65), "random")]
    viols, cases, cov, timeouts = [], 0, {}, 0
    for n, kind in sizes:
        arg = (b"\0" * n) if kind == "zeros" else rng.randbytes(n)
        cmd = command(arg)
        msgs = (("forwarded apply_command", {"type": "apply_command", "command": cmd, "request_id": 1}),
                ("append_entries batch [small, big]",
                 {"type": "append_entries", "term": 3, "commit_index": 5, "prevLogIdx": 5, "prevLogTerm": 3,
                  "entries": [(command(b"x"), 6, 3), (cmd, 7, 3)]}))
        for what, msg in msgs:
            cases += 1
            err = roundtrip(tc, pl, msg, 60 if ctx.tier == "quick" else 240)
            cov["%s:%s:2^%d" % (what.split()[0], kind, n.bit_length() - 1)] = cov.get("%s:%s:2^%d" % (what.split()[0], kind, n.bit_length() - 1), 0) + 1
            if err == "timeout":
                timeouts += 1
            elif err and not viols:
                viols.append({"signature": SIG,
                              "what": "%s with an argument of %d %s bytes in one frame: %s" % (what, n, kind, err),
                              "replay": {"component": "corr.c11_huge_frame", "bytes": n, "kind": kind, "frame": what, "seed": ctx.seed}})
    r = {"name": "corr.c11_huge_frame", "cases": cases, "distinct": cases, "coverage": cov, "disagreements": [],
         "samples": [{"sizes": [s for s, _ in sizes]}], "violations": viols, "wall_s": round(time.time() - t0, 2)}
    if timeouts and not viols:
        r["inconclusive"] = "%d frame(s) not delivered within the time budget (loaded machine?)" % timeouts
    return r


def replay(ctx, violation):
    r = run(ctx)
    return {"violated": bool(r["violations"]), "violations": r["violations"][:3]}
