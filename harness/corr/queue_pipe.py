"""Correspondence `queue.pipe` (C19): the REAL `PipeNotifier` with a REAL poller over a REAL pipe (shrunk to one
page with F_SETPIPE_SZ so that "full" is reached in milliseconds) against the Lean model `PSO.Queue.Wake`
(driver `queue`, op `wake`; theorems `PSO.C19.pipe_*`).

Part A — the notifier alone: random sequences of `notify × k` (k up to 3 × capacity) and poll passes
         (`poller.poll(0)` → `__onNewNotification`); after every step: bytes in the pipe (FIONREAD), readable
         (select), "did notify raise" — compared with the model.
Part B — the node: a real un-networked `SyncObj` (`appendEntriesUseBatch=False`, `autoTick=False`, small queue
         limit): `_applyCommand` (= put + notify), `_checkCommandsToApply` (process), `_poller.poll(0)`;
         queue length, pipe bytes, QUEUE_FULL (then no notify), "would the tick thread sleep with commands
         queued" — compared with the model.
Part C — validation with real threads: writer threads call `notify` (together far more than 3 × capacity)
         while the main thread runs poll passes; monitors only (no model): no `notify` raises; no lost wake-up:
         every notify that began after the last completed read of the pipe leaves the pipe readable.

The model is a family (`chunk`): the code as it is reads the pipe until it is empty (`chunk = 0`); a single
`os.read(fd, n)` per notification is covered by the same theorems (it only causes further wake-ups).  The variant
in effect is probed once and the matching model is used; it is reported under coverage, not as a finding.  With a
reader that leaves bytes behind the kernel may refuse a byte although the pipe is not full (no room on the tail
page); the model takes the kernel's answer for a non-empty, non-full pipe as an input (`notify acc`) and fixes it
only where the property needs it (an EMPTY pipe always takes the byte): for such a variant the observed answers are
fed to the model, for the code as it is the model runs on its own (all answers `true`).
Property monitors: `notify` never raises (D67), a notify since the last read ⇒ readable (no lost wake-up).
"""
import errno
import fcntl
import json
import os
import select
import struct
import termios
import threading
import time

from harness.corr import queue_common as qc

PROPERTIES = ["C19"]
ORDER = 55

F_SETPIPE_SZ, F_GETPIPE_SZ = 1031, 1032
SIG_RAISE = "pipe-notifier:call-raises-when-wakeup-pipe-is-full"
SIG_LOST = "pipe-notifier:lost-wakeup"


def pipe_bytes(fd):
    buf = fcntl.ioctl(fd, termios.FIONREAD, struct.pack("i", 0))
    return struct.unpack("i", buf)[0]


def readable(fd):
    p = select.poll()                     # not select.select: that one fails for descriptor numbers >= 1024
    p.register(fd, select.POLLIN)
    return bool(p.poll(0))


def shrink(fd):
    try:
        fcntl.fcntl(fd, F_SETPIPE_SZ, 4096)
    except OSError:
        pass


def measure_cap():
    """number of one-byte writes a pipe shrunk like ours takes before EAGAIN"""
    r, w = os.pipe()
    try:
        fl = fcntl.fcntl(w, fcntl.F_GETFL)
        fcntl.fcntl(w, fcntl.F_SETFL, fl | os.O_NONBLOCK)
        shrink(w)
        n = 0
        while n < 1 << 20:
            try:
                os.write(w, b"o")
                n += 1
            except OSError as e:
                if e.errno in (errno.EAGAIN, errno.EWOULDBLOCK):
                    break
                raise
        return n
    finally:
        os.close(r)
        os.close(w)


class RealNotifier(object):
    def __init__(self, so):
        from pysyncobj.poller import createPoller
        from pysyncobj.pipe_notifier import PipeNotifier
        self.poller = createPoller("auto")
        self.drains = [0]
        self.pn = PipeNotifier(self.poller, callback=self._drained)
        self.r = self.pn._PipeNotifier__pipeR
        self.w = self.pn._PipeNotifier__pipeW
        shrink(self.w)

    def _drained(self):
        self.drains[0] += 1

    def notify(self, k, bits=None):
        """k notify calls; with `bits` (a list) the kernel's answer to every write is recorded there"""
        raised = None
        for _ in range(k):
            before = pipe_bytes(self.r) if bits is not None else 0
            try:
                self.pn.notify()
            except BaseException as e:   # noqa
                raised = "%s(%s)" % (type(e).__name__, e)
            if bits is not None:
                bits.append("1" if pipe_bytes(self.r) > before else "0")
        return raised

    def poll(self):
        self.poller.poll(0.0)

    def close(self):
        try:
            self.poller.unsubscribe(self.r)
        except Exception:   # noqa
            pass
        for fd in (self.r, self.w):
            try:
                os.close(fd)
            except OSError:
                pass


def probe_variant(so, cap):
    """which drain variant does the tree under test have? -> (chunk | None, bytes left by the probe).
    chunk 0 = everything is read (a single read of >= cap bytes is the same thing)"""
    rn = RealNotifier(so)
    try:
        rn.notify(cap)
        rn.poll()
        left = pipe_bytes(rn.r)
        rn.poll()
        left2 = pipe_bytes(rn.r)
    finally:
        rn.close()
    if left == 0:
        return 0, left
    chunk = cap - left
    if chunk >= 1 and left2 == left - min(left, chunk):
        return chunk, left
    return None, left


# ---------------------------------------------------------------------------------------------
def part_a_cases(ctx, rng, cap):
    cases = [[["notify", cap - 1], ["notify", 1], ["notify", 1], ["poll"], ["poll"], ["notify", 1], ["poll"]],
             [["poll"], ["notify", 3 * cap], ["poll"], ["notify", cap + 1], ["poll"], ["poll"]],
             [["notify", 1], ["poll"], ["notify", 1023], ["poll"], ["notify", 1024], ["poll"], ["notify", 1025], ["poll"],
              ["poll"]],
             [["notify", 2 * cap], ["notify", cap], ["poll"], ["notify", 2048], ["poll"], ["poll"], ["poll"]]]
    for _ in range(ctx.scale(40, 1500)):
        steps = []
        for _ in range(rng.randrange(2, 14)):
            if rng.random() < 0.6:
                k = rng.choice([1, 1, 2, 7, 100, 1023, 1024, 1025, cap - 1, cap, cap + 1, 2 * cap,
                                rng.randrange(1, 3 * cap + 1), 3 * cap])
                steps.append(["notify", k])
            else:
                steps.append(["poll"])
        cases.append(steps)
    return cases


def run_a_real(so, steps, record=False):
    rn = RealNotifier(so)
    out = []
    try:
        for st in steps:
            raised, bits = None, ([] if record else None)
            if st[0] == "notify":
                raised = rn.notify(st[1], bits)
            else:
                rn.poll()
            out.append({"pipe": pipe_bytes(rn.r), "readable": readable(rn.r), "raised": raised,
                        "bits": "".join(bits) if bits else ""})
    finally:
        rn.close()
    return out


def part_b_cases(ctx, rng):
    cases = [[["apply", 1], ["apply", 2], ["process"], ["poll"], ["poll"]],
             [["apply", i] for i in range(8)] + [["poll"], ["process"], ["poll"], ["process"], ["poll"]],
             [["poll"], ["process"], ["apply", 1], ["poll"], ["apply", 2], ["process"], ["poll"], ["poll"]]]
    for _ in range(ctx.scale(60, 2000)):
        steps = []
        for i in range(rng.randrange(3, 25)):
            r = rng.random()
            steps.append(["apply", i] if r < 0.55 else (["process"] if r < 0.78 else ["poll"]))
        cases.append(steps)
    return cases


def run_b_real(so, RecTransport, qsize, steps):
    from pysyncobj import SyncObjConf
    conf = SyncObjConf(autoTick=False, appendEntriesUseBatch=False, commandsQueueSize=qsize)
    o = so.SyncObj("n0:1", [], conf, transportClass=RecTransport)
    out = []
    try:
        pn = o._SyncObj__pipeNotifier
        r = pn._PipeNotifier__pipeR
        shrink(pn._PipeNotifier__pipeW)
        o._SyncObj__raftState = 2
        o._SyncObj__raftLeader = o._SyncObj__selfNode
        dq = o._SyncObj__commandsQueue._FastQueue__queue
        for st in steps:
            raised, full = None, False
            before = pipe_bytes(r)
            if st[0] == "apply":
                got = []
                try:
                    o._applyCommand(so._bchr(0) + b"x%d" % st[1], lambda res, err, got=got: got.append(err))
                except BaseException as e:   # noqa
                    raised = "%s(%s)" % (type(e).__name__, e)
                full = got == [so.FAIL_REASON.QUEUE_FULL]
            elif st[0] == "process":
                o._checkCommandsToApply()
            else:
                o._poller.poll(0.0)
            out.append({"pipe": pipe_bytes(r), "qlen": len(dq), "raised": raised, "full": full,
                        "bit": "1" if pipe_bytes(r) > before else "0"})
    finally:
        o._SyncObj__raftState = 0
        qc.close_node(o)                  # destroy + both ends of the notifier's pipe
    return out


# ---------------------------------------------------------------------------------------------
def part_c(so, cap, writers, per_writer, t_end, lazy=False, stop_early=False):
    """real threads; returns (violations, coverage).  `lazy`: the reader is a busy tick thread (pauses between
    its poll passes, the pipe saturates); `stop_early`: it stops reading half way, so writes after the last read
    remain and the pipe must be readable at the end."""
    rn = RealNotifier(so)
    viol, cov = [], {}
    epoch = rn.drains            # bumped by the notifier's callback AFTER the pipe was read
    recs = [[] for _ in range(writers)]
    raised = []
    go = threading.Event()

    def writer(i):
        go.wait()
        for _ in range(per_writer):
            e0 = epoch[0]
            try:
                rn.pn.notify()
            except BaseException as e:   # noqa
                raised.append("%s(%s)" % (type(e).__name__, e))
            recs[i].append(e0)

    ths = [threading.Thread(target=writer, args=(i,), daemon=True) for i in range(writers)]
    for th in ths:
        th.start()
    go.set()
    polls = 0
    saturated = 0
    total = writers * per_writer
    while any(th.is_alive() for th in ths) and time.monotonic() < t_end:
        if stop_early and sum(len(rr) for rr in recs) > total // 2:
            break
        if pipe_bytes(rn.r) >= cap:
            saturated += 1
        rn.poll()
        polls += 1
        if lazy:
            threading.Event().wait(0.03)
    for th in ths:
        th.join(max(0.1, t_end - time.monotonic()))
    stuck = sum(1 for th in ths if th.is_alive())
    final_epoch = epoch[0]
    fresh = sum(1 for rr in recs for e0 in rr if e0 == final_epoch)   # began after the last completed read
    rd = readable(rn.r)
    left = pipe_bytes(rn.r)
    if left >= cap:
        saturated += 1
    if raised:
        viol.append((SIG_RAISE, "%d notify calls raised, e.g. %s (pipe of %d bytes, %d writers)" % (len(raised), raised[0], cap, writers)))
    if fresh > 0 and not rd and not stuck:
        viol.append((SIG_LOST, "%d notify calls began after the last completed read of the pipe, yet the pipe is not readable "
                               "(%d bytes)" % (fresh, left)))
    # one more pass must find what is left and (loop variant) empty it; further passes terminate
    n_pass = 0
    while readable(rn.r) and n_pass < 10:
        rn.poll()
        n_pass += 1
    cov = {"c_notifies": sum(len(rr) for rr in recs), "c_polls": polls, "c_reads": final_epoch, "c_saturated_seen": saturated,
           "c_fresh_at_end": fresh, "c_stuck_writers": stuck, "c_passes_to_empty": n_pass}
    rn.close()
    return viol, cov


def run(ctx):
    t0 = time.time()
    so = qc.load(ctx)
    fds = qc.fd_count()
    with qc.real_runtime(so):
        return qc.fd_audit(_run(ctx, so, t0), fds)


def _run(ctx, so, t0):
    rng = ctx.rng("queue_pipe")
    res = {"cases": 0, "distinct": 0, "coverage": {}, "samples": [], "disagreements": [], "violations": []}
    cov = res["coverage"]
    cap = measure_cap()
    cov["pipe_capacity"] = cap
    if cap < 16 or cap > 1 << 17:
        res["inconclusive"] = "could not shrink a pipe on this kernel (capacity %d)" % cap
        return res
    ro, left = probe_variant(so, cap)
    cov["drain_variant"] = "read-until-empty" if ro == 0 else ("single-read-%d" % ro if ro else "unknown(left %d)" % left)
    if ro is None:
        res["disagreements"].append({"input": "probe: %d notifies, two poll passes" % cap, "model": "a fixed number of bytes per pass",
                                     "impl": "%d bytes left after the first pass" % left,
                                     "note": "__onNewNotification matches no modelled drain variant"})
        ro = 0
    distinct = set()

    def add_viol(sig, what, replay):
        if len(res["violations"]) < 3 and sig not in [v["signature"] for v in res["violations"]]:
            res["violations"].append({"signature": sig, "what": what, "replay": replay})

    # ---- Part A
    cases = part_a_cases(ctx, rng, cap)
    reals_a = [run_a_real(so, st, record=bool(ro)) for st in cases]

    def model_steps_a(steps, real):
        if not ro:
            return steps                      # the code as it is: the model needs nothing from the observation
        return [(["notifyBits", r["bits"]] if st[0] == "notify" else st) for st, r in zip(steps, real)]
    lines = [json.dumps({"op": "wake", "max": 5, "cap": cap, "chunk": ro, "steps": model_steps_a(st, rl)})
             for st, rl in zip(cases, reals_a)]
    try:
        outs = ctx.driver("queue", lines)
    except Exception as e:   # noqa
        res["inconclusive"] = "driver queue unavailable: " + repr(e)[:300]
        return res
    for k in ("a_notify_ok", "a_notify_on_full_pipe", "a_poll_readable", "a_poll_idle", "a_left_after_poll"):
        cov[k] = 0
    for steps, line, real in zip(cases, outs, reals_a):
        mj = json.loads(line)
        res["cases"] += 1
        distinct.add(qc.canon(["a", steps]))
        if "error" in mj:
            res["disagreements"].append({"input": steps, "model": mj, "impl": None, "note": "driver rejected the case"})
            continue
        prev = 0
        for st, m, r in zip(steps, mj["steps"], real):
            if st[0] == "notify":
                cov["a_notify_on_full_pipe" if prev + st[1] > cap else "a_notify_ok"] += 1
            else:
                cov["a_poll_readable" if prev > 0 else "a_poll_idle"] += 1
                if r["pipe"] > 0:
                    cov["a_left_after_poll"] += 1
            prev = r["pipe"]
            if r["raised"]:
                add_viol(SIG_RAISE, "notify raised %s with %d bytes in a pipe of %d" % (r["raised"], r["pipe"], cap),
                         {"kind": "pipe-a", "steps": steps})
            if st[0] == "notify" and not r["readable"]:
                add_viol(SIG_LOST, "after %d notify calls the pipe is not readable" % st[1], {"kind": "pipe-a", "steps": steps})
        mm = [{"pipe": m["pipe"], "readable": m["pipe"] > 0, "raised": m["raised"]} for m in mj["steps"]]
        rr = [{"pipe": r["pipe"], "readable": r["readable"], "raised": bool(r["raised"])} for r in real]
        if mm != rr and len(res["disagreements"]) < 3:
            i = next(i for i in range(len(mm)) if mm[i] != rr[i])
            res["disagreements"].append({"input": {"cap": cap, "steps": steps}, "model": {"step": i, "after": mm[i]},
                                         "impl": {"step": i, "after": rr[i]}, "note": "real PipeNotifier + poller vs PSO.Queue.Wake"})
        if len(res["samples"]) < 1:
            res["samples"].append({"cap": cap, "steps": steps, "real": real})

    # ---- Part B
    RecTransport = qc.make_transport_class(so)
    cases = part_b_cases(ctx, rng)
    qsizes = [rng.choice([0, 1, 2, 5]) for _ in cases]
    reals_b = [run_b_real(so, RecTransport, qs, st) for st, qs in zip(cases, qsizes)]

    def model_steps_b(steps, real, full_at=None):
        ms = []
        for i, st in enumerate(steps):
            if st[0] == "apply":
                ms.append(["put", st[1]])
                if not (full_at and full_at[i]):
                    ms.append(["notifyBits", real[i]["bit"]] if ro else ["notify", 1])
            elif st[0] == "process":
                ms.append(["process", 1000])
            else:
                ms.append(["poll"])
        return ms
    lines = [json.dumps({"op": "wake", "max": qs, "cap": cap, "chunk": ro, "steps": model_steps_b(st, rl)})
             for st, qs, rl in zip(cases, qsizes, reals_b)]
    try:
        outs = ctx.driver("queue", lines)
    except Exception as e:   # noqa
        res["inconclusive"] = "driver queue unavailable: " + repr(e)[:300]
        return res
    for k in ("b_apply_ok", "b_apply_queue_full", "b_process_nonempty", "b_poll_readable", "b_poll_idle", "b_sleep_allowed"):
        cov[k] = 0
    for steps, qs, line, real in zip(cases, qsizes, outs, reals_b):
        mj = json.loads(line)
        res["cases"] += 1
        distinct.add(qc.canon(["b", qs, steps]))
        if "error" in mj:
            res["disagreements"].append({"input": steps, "model": mj, "impl": None, "note": "driver rejected the case"})
            continue
        mm, j = [], 0
        for st in steps:
            if st[0] == "apply":
                put, ntf = mj["steps"][j], mj["steps"][j + 1]
                j += 2
                # a put on a full queue skips notify in the code; the model's `notify` after it is then not taken
                mm.append({"pipe": put["pipe"] if put["full"] else ntf["pipe"], "qlen": ntf["qlen"], "raised": ntf["raised"],
                           "full": put["full"], "sleeps": ntf["sleeps"], "skip": put["full"]})
            else:
                m = mj["steps"][j]
                j += 1
                mm.append({"pipe": m["pipe"], "qlen": m["qlen"], "raised": m["raised"], "full": False, "sleeps": m["sleeps"],
                           "skip": False})
        # the model took a notify the code skipped (QUEUE_FULL): replay the model without those notifies
        if any(x["skip"] for x in mm):
            full_at = [x["full"] for x in mm]
            ms = model_steps_b(steps, real, full_at)
            m2 = json.loads(ctx.driver("queue", [json.dumps({"op": "wake", "max": qs, "cap": cap, "chunk": ro, "steps": ms})])[0])
            mm, j = [], 0
            for st, fl in zip(steps, full_at):
                n = 1 if (st[0] != "apply" or fl) else 2
                last = m2["steps"][j + n - 1]
                first = m2["steps"][j]
                j += n
                mm.append({"pipe": last["pipe"], "qlen": last["qlen"], "raised": last["raised"],
                           "full": first["full"] if st[0] == "apply" else False, "sleeps": last["sleeps"]})
        prev_pipe, prev_q = 0, 0
        for st, m, r in zip(steps, mm, real):
            if st[0] == "apply":
                cov["b_apply_queue_full" if r["full"] else "b_apply_ok"] += 1
            elif st[0] == "process":
                if prev_q:
                    cov["b_process_nonempty"] += 1
                if m.get("sleeps"):
                    cov["b_sleep_allowed"] += 1
                # property: when the tick thread may go to sleep (pipe empty) nothing is left in the queue
                if r["pipe"] == 0 and r["qlen"] > 0:
                    add_viol(SIG_LOST, "after _checkCommandsToApply the pipe is empty and %d commands are still queued" % r["qlen"],
                             {"kind": "pipe-b", "qsize": qs, "steps": steps})
            else:
                cov["b_poll_readable" if prev_pipe > 0 else "b_poll_idle"] += 1
            if r["raised"]:
                add_viol(SIG_RAISE, "_applyCommand raised %s (pipe %d of %d bytes, queue %d)" % (r["raised"], r["pipe"], cap, r["qlen"]),
                         {"kind": "pipe-b", "qsize": qs, "steps": steps})
            prev_pipe, prev_q = r["pipe"], r["qlen"]
        ma = [{k: x[k] for k in ("pipe", "qlen", "raised", "full")} for x in mm]
        ra = [{"pipe": r["pipe"], "qlen": r["qlen"], "raised": bool(r["raised"]), "full": r["full"]} for r in real]
        if ma != ra and len(res["disagreements"]) < 3:
            i = next(i for i in range(len(ma)) if ma[i] != ra[i])
            res["disagreements"].append({"input": {"cap": cap, "qsize": qs, "steps": steps}, "model": {"step": i, "after": ma[i]},
                                         "impl": {"step": i, "after": ra[i]},
                                         "note": "real _applyCommand / _checkCommandsToApply / poll vs PSO.Queue.Wake"})

    # ---- Part C (validation, real threads)
    rounds = ctx.scale(3, 40)
    ctot = {}
    for i in range(rounds):
        v, c = part_c(so, cap, writers=rng.choice([2, 3, 4]), per_writer=cap * rng.choice([1, 2]) + rng.randrange(50),
                      t_end=time.monotonic() + 20, lazy=(i % 3 != 0), stop_early=(i % 3 == 2))
        res["cases"] += 1
        for k, x in c.items():
            ctot[k] = ctot.get(k, 0) + x
        for sig, what in v:
            add_viol(sig, what, {"kind": "pipe-c", "seed": ctx.seed,
                                 "note": "real-thread round: re-run the component with the same seed"})
    cov.update(ctot)
    res["distinct"] = len(distinct) + rounds
    res["wall_s"] = round(time.time() - t0, 2)
    res["notes"] = "real PipeNotifier/poller over a pipe of %d bytes vs PSO.Queue.Wake; part C is validation with real threads" % cap
    missed = [k for k in ("a_notify_ok", "a_notify_on_full_pipe", "a_poll_readable", "a_poll_idle", "b_apply_ok", "b_apply_queue_full",
                          "b_process_nonempty", "b_poll_readable", "b_poll_idle", "b_sleep_allowed", "c_notifies", "c_reads",
                          "c_saturated_seen", "c_fresh_at_end")
              if not cov.get(k)]
    if missed:
        res["inconclusive"] = "coverage floor missed: " + ",".join(missed)
    return res


def replay(ctx, violation):
    so = qc.load(ctx)
    r = violation.get("replay", {})
    with qc.real_runtime(so):
        if r.get("kind") == "pipe-a":
            real = run_a_real(so, r["steps"])
            bad = [x for x in real if x["raised"]] or [x for st, x in zip(r["steps"], real) if st[0] == "notify" and not x["readable"]]
            return {"violated": bool(bad), "observed": real[:30]}
        if r.get("kind") == "pipe-b":
            real = run_b_real(so, qc.make_transport_class(so), r["qsize"], r["steps"])
            bad = [x for x in real if x["raised"]] or \
                  [x for st, x in zip(r["steps"], real) if st[0] == "process" and x["pipe"] == 0 and x["qlen"] > 0]
            return {"violated": bool(bad), "observed": real[:30]}
        v, c = part_c(so, measure_cap(), 3, 6000, time.monotonic() + 30)
        return {"violated": bool([x for x in v if x[0] == violation.get("signature")]), "violations": v, "coverage": c}
